"""C07-SHIFT: a power of two built as `<one> << n` is only built for shift counts the type of <one> can hold.

The fast path for `2 ** n` (Optimize.c::PyNumberPow2) and similar helpers compute 2**n as `1L << n` / `((unsigned PY_LONG_LONG)1) << n`
inside a chain of range guards on n.  `ONE << n` equals 2**n exactly when 0 <= n <= bits(type of ONE) - 1 for an unsigned ONE and
0 <= n <= bits - 2 for a signed ONE (bits - 1 would be the sign bit: `1L << 63` is LONG_MIN / undefined behaviour).  Necessary condition
decided here for every site `ONE << v` (ONE a literal 1 with suffix or cast, v a local integer variable of the enclosing function) whose
enclosing if-conditions bound v from above:

    every value of v admitted by the enclosing conditions is a legal, value-preserving shift count for the type of ONE —
    on each of the data models ILP32, LP64 and LLP64.

Technique: the enclosing conditions (engine/cguard) are parsed (engine/cexpr) and evaluated with C's integer conversion rules (casts wrap,
sizeof from the data model, usual arithmetic conversions) on the COMPLETE boundary partition of v's range: every integer in [-4, 140]
plus the neighbourhoods of 2**15, 2**31, 2**32, 2**63 and of the limits of v's type — all thresholds that can be written with
sizeof(T) * 8 +- k lie inside.  This is a truth table of the extracted guard expressions, not a run of the helper.  Sites whose guards do
not bound v from above (the bound comes from somewhere else) are reported as info and not decided."""
import re

from ..core import Rule
from ..engine import cexpr
from ..engine.cutil import strip_c_comments
from ..engine.cguard import guards, function_at

RID = 'C07-SHIFT'
FILES = ('Cython/Utility/Optimize.c', 'Cython/Utility/CMath.c')
# data models: bits of long and of pointers/size_t (int = 32, long long = 64 everywhere)
MODELS = {'ILP32': (32, 32), 'LP64': (64, 64), 'LLP64': (32, 64)}
ONE = re.compile(r'(?<![\w.)])(?:\(\s*\(\s*(?P<c1>[A-Za-z_][\w ]*?)\s*\)\s*1\s*\)|\(\s*(?P<c2>[A-Za-z_][\w ]*?)\s*\)\s*1|1(?P<suf>[uUlL]{0,3}))\s*<<\s*(?P<var>[A-Za-z_]\w*)\b(?!\s*\()')
INT_TYPES = r'(?:unsigned\s+|signed\s+)?(?:Py_ssize_t|size_t|int|long\s+long|long|short|char|PY_LONG_LONG|Py_hash_t|Py_uhash_t)(?:\s+int)?|unsigned'


class Undecided(Exception):
    pass


def type_info(t, model):
    """(bits, signed) of a C integer type name, or None"""
    lbits, pbits = MODELS[model]
    t = ' '.join(t.replace('const', ' ').replace('PY_LONG_LONG', 'long long').split())
    t = re.sub(r'\bsigned\b', '', t).strip() or 'int'
    uns = t.startswith('unsigned')
    base = t[len('unsigned'):].strip() if uns else t
    base = re.sub(r'\s+int$', '', base) or 'int'
    bits = {'char': 8, 'short': 16, 'int': 32, 'long': lbits, 'long long': 64, 'size_t': pbits, 'Py_ssize_t': pbits,
            'Py_hash_t': pbits, 'Py_uhash_t': pbits}.get(base)
    if bits is None:
        return None
    if base in ('size_t', 'Py_uhash_t'):
        uns = True
    return bits, not uns


def wrap(v, bits, signed):
    v &= (1 << bits) - 1
    if signed and v >= 1 << (bits - 1):
        v -= 1 << bits
    return v


def _promote(x):
    v, bits, signed = x
    if bits < 32:
        return v, 32, True
    return x


def _usual(a, b):
    a, b = _promote(a), _promote(b)
    if a[2] == b[2]:
        bits, signed = max(a[1], b[1]), a[2]
    else:
        u, s = (a, b) if not a[2] else (b, a)
        if u[1] >= s[1]:
            bits, signed = u[1], False
        else:
            bits, signed = s[1], True
    return (wrap(a[0], bits, signed), bits, signed), (wrap(b[0], bits, signed), bits, signed)


def teval(e, env, model):
    """typed evaluation of a cexpr AST: (value, bits, signed); raises Undecided for anything outside integer arithmetic on known names"""
    k = e[0]
    if k in ('num', 'char'):
        v = e[1]
        for bits in (32, MODELS[model][0], 64):
            if v < 1 << (bits - 1):
                return v, bits, True
        return v, 64, False
    if k == 'id':
        if e[1] in env:
            return env[e[1]]
        raise Undecided('identifier %s' % e[1])
    if k == 'sizeof':
        ti = type_info(e[1], model)
        if ti is None:
            raise Undecided('sizeof(%s)' % e[1])
        return ti[0] // 8, MODELS[model][1], False
    if k == 'cast':
        ti = type_info(e[1], model)
        if ti is None:
            raise Undecided('cast to %s' % e[1])
        v = teval(e[2], env, model)
        return wrap(v[0], ti[0], ti[1]), ti[0], ti[1]
    if k == 'call':
        if e[1] in ('likely', 'unlikely') and len(e[2]) == 1:
            return teval(e[2][0], env, model)
        raise Undecided('call of %s' % e[1])
    if k == 'un':
        v = _promote(teval(e[2], env, model))
        if e[1] == '!':
            return int(not v[0]), 32, True
        if e[1] == '-':
            return wrap(-v[0], v[1], v[2]), v[1], v[2]
        if e[1] == '+':
            return v
        if e[1] == '~':
            return wrap(~v[0], v[1], v[2]), v[1], v[2]
        raise Undecided('unary ' + e[1])
    if k == 'tern':
        return teval(e[2], env, model) if teval(e[1], env, model)[0] else teval(e[3], env, model)
    if k == 'bin':
        op = e[1]
        if op == '&&':
            return int(bool(teval(e[2], env, model)[0]) and bool(teval(e[3], env, model)[0])), 32, True
        if op == '||':
            return int(bool(teval(e[2], env, model)[0]) or bool(teval(e[3], env, model)[0])), 32, True
        a, b = teval(e[2], env, model), teval(e[3], env, model)
        if op in ('<<', '>>'):
            a, b = _promote(a), _promote(b)
            if b[0] < 0 or b[0] >= a[1]:
                raise Undecided('shift count out of range inside a guard')
            r = a[0] << b[0] if op == '<<' else a[0] >> b[0]
            if a[2] and not (-(1 << (a[1] - 1)) <= r < (1 << (a[1] - 1))):
                raise Undecided('signed overflow inside a guard')
            return wrap(r, a[1], a[2]), a[1], a[2]
        a, b = _usual(a, b)
        if op in ('<', '>', '<=', '>=', '==', '!='):
            r = {'<': a[0] < b[0], '>': a[0] > b[0], '<=': a[0] <= b[0], '>=': a[0] >= b[0], '==': a[0] == b[0], '!=': a[0] != b[0]}[op]
            return int(r), 32, True
        if op in ('+', '-', '*', '&', '|', '^'):
            r = {'+': a[0] + b[0], '-': a[0] - b[0], '*': a[0] * b[0], '&': a[0] & b[0], '|': a[0] | b[0], '^': a[0] ^ b[0]}[op]
            if a[2] and not (-(1 << (a[1] - 1)) <= r < (1 << (a[1] - 1))):
                raise Undecided('signed overflow inside a guard')
            return wrap(r, a[1], a[2]), a[1], a[2]
        if op in ('/', '%'):
            if b[0] == 0:
                raise Undecided('division by zero inside a guard')
            q = abs(a[0]) // abs(b[0]) * (1 if (a[0] < 0) == (b[0] < 0) else -1)
            r = q if op == '/' else a[0] - q * b[0]
            return wrap(r, a[1], a[2]), a[1], a[2]
        raise Undecided('operator ' + op)
    raise Undecided('node ' + k)


def domain(bits, signed):
    s = set(range(-4, 141))
    for p in (15, 16, 31, 32, 63, 64):
        for d in (-2, -1, 0, 1, 2):
            s.add((1 << p) + d)
            s.add(-(1 << p) + d)
    lo, hi = (-(1 << (bits - 1)), (1 << (bits - 1)) - 1) if signed else (0, (1 << bits) - 1)
    return sorted(v for v in s | {lo, lo + 1, hi - 1, hi} if lo <= v <= hi), hi


def one_type(m, model):
    cast = m.group('c1') or m.group('c2')
    if cast:
        return type_info(cast, model), '(%s)1' % ' '.join(cast.split())
    suf = (m.group('suf') or '').upper()
    t = ('unsigned ' if 'U' in suf else '') + ('long long' if suf.count('L') == 2 else 'long' if 'L' in suf else 'int')
    return type_info(t, model), '1' + (m.group('suf') or '')


def declared_type(header, body, upto, var):
    """declared C integer type of a local variable / parameter, or None"""
    for text in (body[:upto], header):
        ms = list(re.finditer(r'(?<![\w])(%s)\s+(?:\w+\s*(?:=[^,;]*)?,\s*)*%s\b\s*(?=[;=,)])' % (INT_TYPES, re.escape(var)), text))
        if ms:
            return ' '.join(ms[-1].group(1).split())
    return None


def mentions(e, var):
    return any(x[0] == 'id' and x[1] == var for x in cexpr.walk(e))


def analyse_site(text, m):
    """-> ('skip', why) | ('undecided', why, desc) | ('ok'|'bad', desc, detail)"""
    var = m.group('var')
    f = function_at(text, m.start())
    if f is None:
        return 'skip', 'not inside a function body'
    header, b0, b1 = f
    body = text[b0:b1 + 1]
    pos = m.start() - b0
    vtype = declared_type(header, body, pos, var)
    if vtype is None:
        return 'skip', '%s is not a local integer variable (macro constant?)' % var
    fname = re.search(r'(\w+)\s*\([^()]*\)\s*\{\s*$', header)
    fname = fname.group(1) if fname else '?'
    conds = []
    for cond, pol in guards(body, pos):
        if not re.search(r'\b%s\b' % re.escape(var), cond):
            continue
        try:
            conds.append((cexpr.parse(cond), pol, cond))
        except cexpr.ParseError:
            return 'undecided', 'guard `%s` cannot be parsed' % cond[:60], fname
    lit = None
    worst = None
    for model in MODELS:
        ot, lit = one_type(m, model)
        vt = type_info(vtype, model)
        if ot is None or vt is None:
            return 'undecided', 'type of the shifted literal / of %s is not a plain C integer type' % var, fname
        limit = ot[0] - 1 - (1 if ot[1] else 0)
        dom, hi = domain(*vt)
        admitted = []
        for v in dom:
            try:
                if all(bool(teval(e, {var: (v, vt[0], vt[1]), 'CHAR_BIT': (8, 32, True)}, model)[0]) == pol for e, pol, _c in conds):
                    admitted.append(v)
            except Undecided as u:
                return 'undecided', 'guard on %s not evaluable (%s)' % (var, u), fname
        if hi in admitted:
            return 'undecided', 'the enclosing conditions do not bound %s from above (%s)' % (var, ', '.join(c for _e, _p, c in conds) or 'no condition on it'), fname
        bad = [v for v in admitted if v < 0 or v > limit]
        if bad and worst is None:
            worst = (model, bad, limit, ot, admitted)
    desc = '%s:%s << %s' % (fname, lit, var)
    if worst:
        return 'bad', desc, worst + ([(c, p) for _e, p, c in conds],)
    return 'ok', desc, None


def section_of(raw, line):
    heads = [hm.group(1) for hm in re.finditer(r'^/{5,}\s*([\w.]+)\s*/{5,}', '\n'.join(raw.split('\n')[:line]), re.M)]
    return heads[-1].split('.')[0] if heads else '?'


POSITIVE = '''
static PyObject* pow2(PyObject *exp) {
    Py_ssize_t shiftby = PyLong_AsSsize_t(exp);
    if (likely(shiftby >= 0)) {
        if ((size_t)shiftby < sizeof(long) * 8) {
            long value = 1L << shiftby;
            return PyLong_FromLong(value);
        } else if ((size_t)shiftby <= sizeof(unsigned PY_LONG_LONG) * 8 - 1) {
            unsigned PY_LONG_LONG value = ((unsigned PY_LONG_LONG)1) << shiftby;
            return PyLong_FromUnsignedLongLong(value);
        }
    }
    return NULL;
}
'''


def rule_shift(ctx, floor=2):
    r = Rule(RID, 'every `ONE << n` power of two in the pow helpers is built only for shift counts n that the enclosing range guards keep within the value bits '
                  'of the type of ONE (ILP32, LP64, LLP64)', floor)
    for rel in FILES:
        raw = ctx.read(rel)
        text = strip_c_comments(raw)
        fn = rel.rsplit('/', 1)[1]
        seen = {}
        for m in ONE.finditer(text):
            line = text.count('\n', 0, m.start()) + 1
            res = analyse_site(text, m)
            if res[0] == 'skip':
                continue
            sec = section_of(raw, line)
            if res[0] == 'undecided':
                r.info('%s:%s:%s line %d: `%s` not decided: %s' % (fn, sec, res[2], line, ' '.join(m.group(0).split()), res[1]))
                continue
            n = seen[(sec, res[1])] = seen.get((sec, res[1]), 0) + 1
            key = '%s:%s:%s%s' % (fn, sec, res[1], '' if n == 1 else '#%d' % n)
            r.inst(key, sample='%s (line %d)' % (key, line))
            if res[0] == 'bad':
                model, bad, limit, ot, admitted, conds = res[2]
                r.violate(key, rel, line,
                          '%s: the enclosing conditions (%s) admit the shift count%s %s on %s, but the shifted literal is a %d-bit %s value, for which only '
                          '0..%d give 2**n (%s): 2 ** %d computed through this path is wrong (e.g. 1L << 63 is LONG_MIN, so 2 ** 63 becomes -9223372036854775808) '
                          'instead of falling through to the next wider path'
                          % (key, ' && '.join(('%s' if p else '!(%s)') % c for c, p in conds), 's' if len(bad) > 1 else '', ', '.join(map(str, bad[:4])), model,
                             ot[0], 'signed' if ot[1] else 'unsigned', limit, 'the top bit is the sign bit' if ot[1] else 'larger counts are undefined', bad[0]))
    got = {}
    for m in ONE.finditer(POSITIVE):
        res = analyse_site(POSITIVE, m)
        got[res[1]] = res[0]
    r.positive_control(got == {'pow2:1L << shiftby': 'bad', 'pow2:(unsigned PY_LONG_LONG)1 << shiftby': 'ok'},
                       'signed 1L shifted by up to sizeof(long)*8 - 1 (fires) next to a correctly bounded unsigned shift (silent)')
    return r


# ====================================================================================================================================
# C07-POWLOOP: CMath.c::IntPow computes b ** e (algebraic witness) ; C07-POW2MODEL: the 2 ** n fast path ; C07-CPOW: the directive read
# ====================================================================================================================================
"""(C07-POWLOOP)  IntPow only multiplies: whatever it returns is a monomial b**k (times a constant).  The helper text is evaluated by the checker's C
interpreter (rules/pC03.py) for an unsigned 64-bit instance with the base b = 3, whose multiplicative order modulo 2**64 is 2**62: for every exponent
e < 2**62 the value 3**k mod 2**64 identifies k.  All exponents 0..255 (every bit pattern of eight exponent bits, i.e. every combination of "bit set /
clear" x "position" the square-and-multiply loop distinguishes) and 2**k, 2**k +- 1 up to 2**40 are evaluated: the result must be 3**e mod 2**64.  The
signed instance is evaluated for small operands (b in -3..3, e in -3..20) with wrapping arithmetic: b**e for e >= 0 whenever it fits, 0 for e < 0.

(C07-POW2MODEL)  __Pyx__PyNumber_PowerOf2 is evaluated on a model PyLong (documented contracts of the accessors / C-API calls, shared with C05-MODEL) for
LP64 and LLP64/ILP32 widths, with and without PyLong internals, for exponents -70..130, the neighbourhoods of 2**31, 2**32, 2**63, 2**64 and a non-int
object: the returned object must be 2 ** exp as Python computes it (1 << exp, or the result of the generic PyNumber_Power fallback), never NULL without
an exception.

(C07-CPOW)  PowNode decides between the two columns of the documented table from self.is_cpow.  The rule checks that is_cpow is assigned from the *scoped*
directive (a parameter's .directives['cpow'], a key Options defines, never Options' defaults), with the right polarity (truth table over the directive
value), and that every entry point through which type analysis reaches compute_c_result_type (infer_type, analyse_types) calls the method that assigns it
before delegating upwards, on every path."""
import ast

from ..core import AnalysisError
from ..engine import pyflow, tables
from ..engine.pyindex import walk_no_nested, is_self_attr
from . import pC03 as MC

POWLOOP_RID = 'C07-POWLOOP'


def _intpow_text(ctx, signed):
    d = ctx.cat.files.get('CMath.c', {}).get('IntPow', {}).get('impl')
    if d is None:
        raise AnalysisError('%s: CMath.c::IntPow vanished' % POWLOOP_RID)
    text = strip_c_comments(d.raw).replace('%(type)s', 'sa_t').replace('%(func_name)s', 'sa_pow').replace('%(signed)s', '1' if signed else '0')
    if re.search(r'%\(\w+\)s', text):
        raise AnalysisError('%s: IntPow has a substitution key the rule does not know' % POWLOOP_RID)
    return d, MC.select_variant(text, lambda c: bool(int(c)) if re.fullmatch(r'\d+', c.strip()) else (_ for _ in ()).throw(AnalysisError('%s: #if %s in IntPow' % (POWLOOP_RID, c))))


def powloop_problems(text, signed):
    funcs = MC.functions(text)
    if 'sa_pow' not in funcs:
        raise AnalysisError('%s: the instantiated IntPow does not define its function' % POWLOOP_RID)
    f = funcs['sa_pow']
    model = MC.Model({'char': (8, True), 'short': (16, True), 'int': (32, True), 'long': (64, True), 'long long': (64, True), 'size_t': (64, False), 'sa_t': (64, signed)}, 'LP64')
    it = MC.Interp(model, funcs, {}, {})
    it.signed_wraps = True
    n = 0
    try:
        if not signed:
            exps = set(range(0, 256))
            for k in range(8, 41):
                exps |= {(1 << k) - 1, 1 << k, (1 << k) + 1}
            for e in sorted(exps):
                n += 1
                it.steps = 0
                r = it.call_func(f, [(3, 64, False), (e, 64, False)])
                want = pow(3, e, 1 << 64)
                if r[0] != want:
                    # identify the monomial that was computed, if it is one
                    k = next((j for j in range(0, 600) if pow(3, j, 1 << 64) == r[0]), None)
                    return n, ('value', 'sa_pow(b, %d) computes %s instead of b**%d (witness b = 3 modulo 2**64: got %d, 3**%d is %d)'
                               % (e, 'b**%d' % k if k is not None else 'something that is not a power of b', e, r[0], e, want))
            for b, e, want in ((0, 0, 1), (0, 5, 0), (1, 77, 1), (2, 63, 1 << 63), (5, 0, 1)):
                n += 1
                r = it.call_func(f, [(b, 64, False), (e, 64, False)])
                if r[0] != want:
                    return n, ('value', 'sa_pow(%d, %d) returns %d instead of %d' % (b, e, r[0], want))
        else:
            for b in range(-3, 4):
                for e in range(-3, 21):
                    n += 1
                    it.steps = 0
                    r = it.call_func(f, [(b, 64, True), (e, 64, True)])
                    want = 0 if e < 0 else b ** e
                    if r[0] != want:
                        return n, ('value', 'the signed instance: sa_pow(%d, %d) returns %d instead of %d' % (b, e, r[0], want))
    except MC.CUndefined as u:
        return n, ('undefined', 'IntPow executes undefined behaviour: %s' % u)
    except MC.Unsupported as u:
        raise AnalysisError('%s: IntPow is outside the modelled C subset: %s' % (POWLOOP_RID, u))
    return n, None


POWLOOP_POSITIVE = '''
static CYTHON_INLINE sa_t sa_pow(sa_t b, sa_t e) {
    sa_t t = 1;
    while (likely(e)) {
        t *= (b * (e&1)) | ((~e)&1);
        e >>= 1;
    }
    return t;
}
'''


def rule_powloop(ctx, floor=2):
    r = Rule(POWLOOP_RID, 'CMath.c::IntPow returns b**e: for the witness base 3 (order 2**62 modulo 2**64) and every exponent bit pattern of 8 bits plus the powers of two up to 2**40 '
                          'the unsigned 64-bit instance yields 3**e mod 2**64; the signed instance yields b**e / 0 for negative exponents on small operands', floor)
    for signed in (False, True):
        d, text = _intpow_text(ctx, signed)
        key = 'CMath.c:IntPow:%s' % ('signed' if signed else 'unsigned')
        n, prob = powloop_problems(text, signed)
        r.inst(key, sample='%s: %d evaluations' % (key, n))
        if prob:
            r.violate('%s:%s' % (key, prob[0]), 'Cython/Utility/CMath.c', d.line, 'CMath.c::IntPow: ' + prob[1])
    n, prob = powloop_problems(POWLOOP_POSITIVE, False)
    r.positive_control(prob is not None and prob[0] == 'value', 'square-and-multiply loop without the squaring step')
    return r


# ------------------------------------------------------------------------------------------------------------------------------ POW2MODEL
POW2_RID = 'C07-POW2MODEL'
POW2_MACHINES = (('LP64', 64, 64, 64), ('LLP64 / ILP32-long', 32, 64, 64), ('ILP32', 32, 64, 32))      # long, long long, Py_ssize_t


class _Big:
    """a Python int too large to materialise: 1 << n or 2 ** n kept symbolically"""
    def __init__(self, kind, base, exp):
        self.kind, self.base, self.exp = kind, base, exp

    def power_of_two(self):
        """n if the value is 2**n, else None"""
        if (self.kind == 'shl1' and self.base == 1) or (self.kind == 'pow2' and self.base == 2):
            return self.exp
        return None

    def __eq__(self, o):
        return isinstance(o, _Big) and self.power_of_two() is not None and self.power_of_two() == o.power_of_two()

    __hash__ = None

    def __repr__(self):
        return '%d %s %d' % (self.base, '<<' if self.kind == 'shl1' else '**', self.exp)


def pow2_hooks(state, digit_bits, ssize_bits):
    from . import sC05
    sC05_digit = sC05.DIGIT_BITS

    def pyo(v):
        return MC.Opaque('pyobj', v)

    def obj(it, a, env):
        o = it.ev(a, env)
        if isinstance(o, MC.Opaque) and o.kind == 'null':
            raise MC.CUndefined('a NULL PyObject* is used')
        if not (isinstance(o, MC.Opaque) and o.kind == 'pyobj'):
            raise MC.Unsupported('PyObject* argument is not a model object')
        return o

    def ival(it, a, env):
        o = obj(it, a, env)
        if not isinstance(o.v, int):
            raise MC.CUndefined('a PyLong accessor is applied to an object that is not an int')
        return o.v

    def boolv(it, b):
        return (int(bool(b)), 32, True)

    def T(it, n):
        return it.model.ctype(n)

    def mk(v, t):
        return (MC.wrap(v, t[0], t[1]), t[0], t[1])

    def as_ssize(it, args, env):
        v = ival(it, args[0], env)
        t = T(it, 'Py_ssize_t')
        if not MC.fits(v, t[0], True):
            state.err = 'OverflowError'
            return mk(-1, t)
        return mk(v, t)

    def from_c(tname):
        def h(it, args, env):
            v = it._int(it.ev(args[0], env))
            t = T(it, tname)
            return pyo(MC.wrap(v[0], t[0], t[1]))
        return h

    def lshift(it, args, env):
        a, b = obj(it, args[0], env), obj(it, args[1], env)
        if not isinstance(a.v, int) or not isinstance(b.v, int) or b.v < 0:
            raise MC.CUndefined('PyNumber_Lshift(%r, %r)' % (a.v, b.v))
        if b.v > 4096:
            return pyo(_Big('shl1', a.v, b.v))
        return pyo(a.v << b.v)

    def power(it, args, env):
        a, b = obj(it, args[-3], env), obj(it, args[-2], env)
        if not isinstance(a.v, int):
            raise MC.CUndefined('PyNumber_Power of a non-int base')
        if not isinstance(b.v, int):
            return pyo(('generic-power', a.v, b.v))
        if b.v > 4096:
            return pyo(_Big('pow2', a.v, b.v))
        return pyo(a.v ** b.v)

    def occurred(it, args, env):
        return MC.Opaque('exc', state.err) if state.err else MC.NULL

    def ignore(it, args, env):
        e = it.ev(args[0], env)
        if not (isinstance(e, MC.Opaque) and e.kind == 'exc'):
            raise MC.CUndefined('__Pyx_IgnoreGivenException of a NULL error')
        # contract (Exceptions.c::IgnoreException): if the pending exception matches, clear it and return 1, else return 0.  Every exception the model raises is an Exception.
        state.err = None
        return boolv(it, True)

    def digits(v):
        v, out = abs(v), []
        while v:
            out.append(v & ((1 << digit_bits) - 1))
            v >>= digit_bits
        return out
    return {
        'PyLong_CheckExact': lambda it, a, e: boolv(it, isinstance(obj(it, a[0], e).v, int)),
        '__Pyx_PyLong_IsZero': lambda it, a, e: boolv(it, ival(it, a[0], e) == 0),
        '__Pyx_PyLong_IsNeg': lambda it, a, e: boolv(it, ival(it, a[0], e) < 0),
        '__Pyx_PyLong_IsCompact': lambda it, a, e: boolv(it, len(digits(ival(it, a[0], e))) <= 1),
        '__Pyx_PyLong_CompactValueUnsigned': lambda it, a, e: mk((digits(ival(it, a[0], e)) or [0])[0], T(it, 'size_t')),
        '__Pyx_PyLong_CompactValue': lambda it, a, e: mk(ival(it, a[0], e), T(it, 'Py_ssize_t')),
        'PyLong_AsSsize_t': as_ssize,
        'PyLong_FromLong': from_c('long'), 'PyLong_FromUnsignedLong': from_c('unsigned long'), 'PyLong_FromLongLong': from_c('long long'),
        'PyLong_FromUnsignedLongLong': from_c('unsigned long long'), 'PyLong_FromSsize_t': from_c('Py_ssize_t'),
        'PyNumber_Lshift': lshift, 'PyNumber_Power': power, 'PyNumber_InPlacePower': power, '__sa_power': power,
        'PyErr_Occurred': occurred, '__Pyx_IgnoreGivenException': ignore,
        'Py_DECREF': lambda it, a, e: None, 'Py_XDECREF': lambda it, a, e: None, 'Py_INCREF': lambda it, a, e: None,
    }


def _pow2_text(ctx, raw=None):
    if raw is None:
        d = ctx.cat.files.get('Optimize.c', {}).get('PyNumberPow2', {}).get('impl')
        if d is None:
            raise AnalysisError('%s: Optimize.c::PyNumberPow2 vanished' % POW2_RID)
        raw = d.raw
    text = strip_c_comments(raw)
    # typed integer literals (the expression parser drops the suffix): 1L -> ((long)1) ...
    text = re.sub(r'(?<![\w.])(\d+)[uU][lL][lL]\b', r'((unsigned long long)\1)', text)
    text = re.sub(r'(?<![\w.])(\d+)[lL][lL]\b', r'((long long)\1)', text)
    text = re.sub(r'(?<![\w.])(\d+)[uU][lL]\b', r'((unsigned long)\1)', text)
    text = re.sub(r'(?<![\w.])(\d+)[lL]\b', r'((long)\1)', text)
    text = re.sub(r'(?<![\w.])(\d+)[uU]\b', r'((unsigned int)\1)', text)
    # a call through a conditional function designator: (c ? f : g)(args) -> __sa_power(c, args): both designate the same model operation
    text = re.sub(r'\(\s*(\w+)\s*\?\s*PyNumber_InPlacePower\s*:\s*PyNumber_Power\s*\)\s*\(', r'__sa_power(\1, ', text)
    return text


def pow2_problems(text, variants=None):
    from . import sC05
    probs, notes, runs, seen = [], [], 0, set()
    exps = set(range(-70, 131)) | {-(1 << 31), -(1 << 63) - 1}
    for k in (29, 30, 31, 32, 59, 60, 61, 62, 63, 64, 65):
        exps |= {(1 << k) - 1, 1 << k, (1 << k) + 1}
    variants = variants or (('PyLong internals', dict(CYTHON_USE_PYLONG_INTERNALS=1, CYTHON_COMPILING_IN_PYPY=0)), ('no PyLong internals', dict(CYTHON_USE_PYLONG_INTERNALS=0, CYTHON_COMPILING_IN_PYPY=0)))
    for vname, cfg in variants:
        sel = MC.select_variant(text, sC05.pp_truth(cfg))
        funcs = MC.functions(sel)
        f = funcs.get('__Pyx__PyNumber_PowerOf2')
        if f is None:
            raise AnalysisError('%s: __Pyx__PyNumber_PowerOf2 vanished' % POW2_RID)
        if len(f.params) != 4:
            raise AnalysisError('%s: __Pyx__PyNumber_PowerOf2 no longer takes (two, exp, none, inplace)' % POW2_RID)
        cache = {}
        for mname, lbits, llbits, sbits in POW2_MACHINES:
            model = MC.Model({'char': (8, True), 'short': (16, True), 'int': (32, True), 'long': (lbits, True), 'long long': (llbits, True),
                              'size_t': (sbits, False), 'Py_ssize_t': (sbits, True)}, mname)
            state = sC05._State()
            it = MC.Interp(model, funcs, {}, pow2_hooks(state, 30 if sbits == 64 else 15, sbits), cache)
            it.globals = {'PyExc_Exception': MC.Opaque('exc', 'Exception')}
            objs = [(e, MC.Opaque('pyobj', e)) for e in sorted(exps)] + [('a float', MC.Opaque('pyobj', ('float', 0.5)))]
            for e, o in objs:
                for inplace in (0, 1):
                    runs += 1
                    state.err = None
                    it.steps, it.trace = 0, []
                    where = '2 ** %s (%s, %s%s)' % (e, mname, vname, ', in place' if inplace else '')
                    try:
                        r = it.call_func(f, [MC.Opaque('pyobj', 2), o, MC.Opaque('pyobj', None), (inplace, 32, True)])
                    except MC.CUndefined as u:
                        if ('undefined', vname) not in seen:
                            seen.add(('undefined', vname))
                            probs.append(('undefined', '%s executes undefined behaviour: %s' % (where, u)))
                        continue
                    except MC.Unsupported as u:
                        note = 'not decided: %s, %s: C text outside the modelled subset (%s)' % (mname, vname, u)
                        if note not in notes:
                            notes.append(note)
                        break
                    kind = msg = None
                    if isinstance(r, MC.Opaque) and r.kind == 'null':
                        if state.err is None:
                            kind, msg = 'null-without-error', '%s returns NULL without an exception being set (SystemError in the caller)' % where
                        else:
                            kind, msg = 'spurious-error', '%s raises %s; CPython computes the power' % (where, state.err)
                    elif not (isinstance(r, MC.Opaque) and r.kind == 'pyobj'):
                        kind, msg = 'not-an-object', '%s returns %r' % (where, r)
                    else:
                        if not isinstance(e, int):
                            ok = isinstance(r.v, tuple) and r.v[0] == 'generic-power'
                            want = 'the generic PyNumber_Power'
                        elif e > 4096:
                            ok = r.v == _Big('pow2', 2, e)
                            want = '2 ** %d' % e
                        else:
                            want = 2 ** e
                            ok = (r.v == want) and type(r.v) is type(want)
                        if not ok:
                            kind, msg = 'wrong-value', '%s yields %r, CPython yields %s' % (where, r.v, want)
                        elif state.err is not None:
                            kind, msg = 'error-left-set', '%s returns a result but leaves %s set' % (where, state.err)
                    if kind and (kind, vname) not in seen:
                        seen.add((kind, vname))
                        probs.append((kind, msg))
    return runs, probs, notes


POW2_POSITIVE = '''
static PyObject* __Pyx__PyNumber_PowerOf2(PyObject *two, PyObject *exp, PyObject *none, int inplace) {
    Py_ssize_t shiftby;
    if (likely(PyLong_CheckExact(exp))) {
        if (__Pyx_PyLong_IsCompact(exp)) {
            shiftby = __Pyx_PyLong_CompactValueUnsigned(exp);
        } else {
            shiftby = PyLong_AsSsize_t(exp);
        }
    } else {
        goto fallback;
    }
    if (likely(shiftby >= 0)) {
        if ((size_t)shiftby <= sizeof(long) * 8 - 2) {
            long value = ((long)1) << shiftby;
            return PyLong_FromLong(value);
        }
    }
fallback:
    return __sa_power(inplace, two, exp, none);
}
'''


def rule_pow2model(ctx, floor=5):
    r = Rule(POW2_RID, '__Pyx__PyNumber_PowerOf2 returns 2 ** exp as CPython computes it for every exponent of the boundary partition (negative, zero, each shift-width arm, '
                       'beyond Py_ssize_t, non-int), never NULL without an exception (model PyLong, LP64 / LLP64 / ILP32, with and without PyLong internals)', floor)
    text = _pow2_text(ctx)
    runs, probs, notes = pow2_problems(text)
    for vname in ('PyLong internals', 'no PyLong internals'):
        for m in POW2_MACHINES:
            r.inst('Optimize.c:PyNumberPow2:%s:%s' % (vname, m[0]), sample='PyNumberPow2: %s / %s' % (vname, m[0]))
    for n in notes:
        r.info(n)
    r.info('%d evaluations' % runs)
    d = ctx.cat.files.get('Optimize.c', {}).get('PyNumberPow2', {}).get('impl')
    for kind, msg in probs:
        r.violate('Optimize.c:PyNumberPow2:%s' % kind, 'Cython/Utility/Optimize.c', d.line, 'Optimize.c::PyNumberPow2: ' + msg)
    pr, pp, pn = pow2_problems(POW2_POSITIVE, variants=(('PyLong internals', dict(CYTHON_USE_PYLONG_INTERNALS=1, CYTHON_COMPILING_IN_PYPY=0)),))
    r.positive_control(any(k == 'wrong-value' for k, _m in pp), 'compact magnitude used as shift count without a negativity rejection (2 ** -3 == 8)')
    return r


# ------------------------------------------------------------------------------------------------------------------------------ CPOW
CPOW_RID = 'C07-CPOW'
ENTRY_POINTS = ('infer_type', 'analyse_types')


def cpow_assignments(cls):
    """[(method name, fn, assign stmt)] for `self.is_cpow = <expr>` with a non-constant value"""
    out = []
    for name, fn in cls.methods.items():
        for s in walk_no_nested(fn):
            if isinstance(s, ast.Assign) and any(is_self_attr(t) and t.attr == 'is_cpow' for t in s.targets) and not isinstance(s.value, ast.Constant):
                out.append((name, fn, s))
    return out


def cpow_value_problems(fn, stmt, okeys):
    from . import pC02 as P
    probs = []
    reads = []
    params = {a.arg for a in fn.args.args} - {'self'}
    env = {}
    for n in walk_no_nested(fn):
        if isinstance(n, ast.Assign) and len(n.targets) == 1 and isinstance(n.targets[0], ast.Name):
            env.setdefault(n.targets[0].id, []).append(n.value)

    def root_of(e):
        while isinstance(e, (ast.Attribute, ast.Subscript, ast.Call)):
            e = e.value if not isinstance(e, ast.Call) else e.func
        return e
    value = stmt.value
    for n in ast.walk(value):
        if isinstance(n, ast.Subscript) and isinstance(n.slice, ast.Constant) and isinstance(n.slice.value, str):
            base = n.value
            # a local that holds X.directives
            if isinstance(base, ast.Name) and len(env.get(base.id, [])) == 1:
                base = env[base.id][0]
            if isinstance(base, ast.Attribute) and base.attr in ('directives', 'current_directives'):
                reads.append((n, base, n.slice.value))
    for n in ast.walk(value):
        if isinstance(n, ast.Attribute) and n.attr in ('_directive_defaults', 'get_directive_defaults', 'directive_defaults'):
            probs.append(('defaults', 'reads %s: the global default replaces the cpow directive of the enclosing scope (`# cython: cpow=True`, @cython.cpow are ignored)' % ast.unparse(n)))
    if not reads:
        if not probs:
            probs.append(('no-directive', 'is computed without reading directives[...]'))
        return probs
    for n, base, key in reads:
        r0 = root_of(base)
        if not (isinstance(r0, ast.Name) and r0.id in params):
            probs.append(('unscoped', 'reads the directive from %s, which is not the scope handed to the method' % ast.unparse(base)))
        if key != 'cpow':
            probs.append(('key', 'reads directive %r instead of \'cpow\'' % key))
        elif key not in okeys:
            probs.append(('key', 'reads directive %r which Options._directive_defaults does not define' % key))
    if len(reads) == 1 and not probs:
        txt = ast.unparse(reads[0][0])
        import copy

        class Sub(ast.NodeTransformer):
            def visit_Subscript(self, n):
                if ast.unparse(n) == txt:
                    return ast.Name(id='__cpow__', ctx=ast.Load())
                return self.generic_visit(n)
        v2 = Sub().visit(copy.deepcopy(value))
        try:
            vals = {d: bool(P.Ev(subst={'__cpow__': d}).ev(v2)) for d in (False, True)}
        except P.Unknown:
            vals = None
        if vals is not None and vals != {False: False, True: True}:
            probs.append(('polarity', 'is %s when the directive is False and %s when it is True: the two columns of the documented cpow table are exchanged' % (vals[False], vals[True])))
    return probs


def cpow_reachable_when_unset(fn, stmt):
    """the assignment is executed on some path on which self.is_cpow is None"""
    from . import pC02 as P
    for t, pc in P.path_conditions(fn, lambda n: n is stmt.value):
        tests = [x for x, _ in pc]
        try:
            for subst, av, vals in P.truth_table(tests, {'self.is_cpow': [None]}):
                if P.conj_holds(pc, vals):
                    return True
        except P.Unknown:
            return True
        return False
    return True


def precedes_problems(fn, setter):
    """'missing' if some path of fn reaches its super()/Base delegation without calling self.<setter>(...) first"""
    def tr(node, state):
        s = set(state)
        for c in pyflow.calls_in(node):
            f = c.func
            if isinstance(f, ast.Attribute) and f.attr == setter and isinstance(f.value, ast.Name) and f.value.id == 'self':
                s.add('set')
            elif isinstance(f, ast.Attribute) and f.attr == fn.name and (
                    (isinstance(f.value, ast.Call) and isinstance(f.value.func, ast.Name) and f.value.func.id == 'super') or
                    (isinstance(f.value, ast.Name) and f.value.id != 'self' and c.args and isinstance(c.args[0], ast.Name) and c.args[0].id == 'self')):
                s.add('delegated' if 'set' in s else 'unset-delegation')
        return frozenset(s)
    o = pyflow.Flow(tr).run(fn)
    return any('unset-delegation' in st for st in (o.normal | o.returns))


def rule_cpow(ctx, floor=3):
    ix = ctx.index
    r = Rule(CPOW_RID, 'PowNode.is_cpow is assigned from the scoped directive directives[\'cpow\'] with the right polarity, and infer_type / analyse_types call the assigning method before '
                       'they delegate upwards', floor)
    cls = ix.cls('ExprNodes', 'PowNode')
    if cls is None:
        raise AnalysisError('%s: ExprNodes.PowNode vanished' % CPOW_RID)
    rel = cls.module.rel
    otree = ctx.parse('Cython/Compiler/Options.py')
    dflt = tables.module_assign(otree, '_directive_defaults')
    okeys = {tables.literal(k) for k in dflt.keys if k is not None} if isinstance(dflt, ast.Dict) else set()
    if 'cpow' not in okeys:
        raise AnalysisError('%s: Options._directive_defaults no longer defines cpow' % CPOW_RID)
    assigns = cpow_assignments(cls)
    if not assigns:
        raise AnalysisError('%s: PowNode no longer assigns self.is_cpow from an expression' % CPOW_RID)
    setters = set()
    for name, fn, st in assigns:
        if name == 'coerce_to':
            continue
        key = '%s.%s:is_cpow' % (cls.qual, name)
        r.inst(key, sample='%s = %s' % (key, ast.unparse(st.value)[:80]))
        setters.add(name)
        for k, msg in cpow_value_problems(fn, st, okeys):
            r.violate('%s:%s' % (key, k), rel, st.lineno, '%s %s' % (key, msg))
        if not cpow_reachable_when_unset(fn, st):
            r.violate('%s:unreachable' % key, rel, st.lineno, '%s is not reached while self.is_cpow is still None (the class default): the directive is never read, is_cpow stays None (falsy) '
                                                              'and `cpow=True` is ignored' % key)
    for ep in ENTRY_POINTS:
        key = '%s.%s:sets-is_cpow' % (cls.qual, ep)
        r.inst(key, sample=key)
        fn = cls.methods.get(ep)
        if fn is None:
            r.violate(key + ':missing', rel, cls.node.lineno if hasattr(cls, 'node') else 1,
                      '%s does not override %s: type analysis reaches compute_c_result_type with is_cpow still None, so the cpow directive is ignored (treated as cpow=False)' % (cls.qual, ep))
            continue
        if ep in setters:
            continue
        bad = [s for s in setters if s not in ENTRY_POINTS]
        calls = [c for c in walk_no_nested(fn) if isinstance(c, ast.Call) and isinstance(c.func, ast.Attribute)]
        if not any(not precedes_problems(fn, s) and any(c.func.attr == s for c in calls) for s in bad):
            r.violate(key, rel, fn.lineno, '%s.%s delegates to the base class without calling self.%s(env) first on some path: is_cpow is still None (falsy) when compute_c_result_type runs, '
                                           'so `cpow=True` is ignored for nodes analysed through this entry point' % (cls.qual, ep, '/'.join(sorted(bad)) or '<setter>'))
    pcf = ast.parse("def _check_cpow(self, env):\n    self.is_cpow = not Options.get_directive_defaults()['cpow']\n").body[0]
    pc = {k for k, _m in cpow_value_problems(pcf, pcf.body[0], okeys)}
    pcf2 = ast.parse("def analyse_types(self, env):\n    if env.x:\n        self._check_cpow(env)\n    return super().analyse_types(env)\n").body[0]
    r.positive_control('defaults' in pc and precedes_problems(pcf2, '_check_cpow'), 'directive read from Options defaults; setter skipped on one path')
    return r
