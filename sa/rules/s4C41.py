"""C41, sixth round: which mapping a directive is read from, and which mapping travels with code that is moved between modules.

  C41-ENVREAD  A tree transform (Visitor.CythonTransform and subclasses) tracks the directives in force at the node it visits in
               self.current_directives (every decorator / with-block CompilerDirectivesNode swaps it).  `<scope>.directives` is the mapping the
               scope was *created* with and is only switched temporarily while a node's analyse_*() method runs - inside a visitor method it
               does not know the with-blocks (and, for the scope that encloses a visited def, the decorators) between the scope and the node.
               A constant-key read through an *environment* (`self.current_env()`, `env_stack[-1]`, `self.module_scope`, an `env` parameter
               whose callers pass one of these ...) is therefore exact only for a directive that Options.directive_scopes confines to
               scopes without 'with statement'.  A read through the visited node's OWN scope (`node.scope`, `node.local_scope`) is exact:
               that scope is created inside every enclosing directives node.
  C41-MERGE    ModuleNode.merge_in() moves the code of a cimported .pxd / of a Cython utility module into the module being compiled.  On every
               path on which the foreign scope's directives may differ from the receiving module's, the tree that is appended to the receiving
               module is wrapped in a CompilerDirectivesNode whose `directives` is the FOREIGN scope's mapping (the side of the guard that comes from
               the parameters, not from `self`) and whose body is the foreign tree; the un-wrapped path lies behind the equality of the two
               mappings.  Callers hand merge_in() a tree and the scope *it was parsed into* (same origin), never the receiver's scope.
"""
import ast

from ..core import Rule, AnalysisError, node_src
from ..engine import tables
from ..engine.pyindex import walk_no_nested, is_self_attr

OPT = 'Cython/Compiler/Options.py'


def _u(n):
    return ast.unparse(n)


# ====================================================================================================== C41-ENVREAD
def scope_table(ctx):
    sc = tables.module_assign(ctx.parse(OPT), 'directive_scopes')
    table = tables.literal(sc) if sc is not None else None
    if not isinstance(table, dict) or len(table) < 30:
        raise AnalysisError('Options.directive_scopes is not a literal dict')
    return {k: ((v,) if isinstance(v, str) else tuple(v)) for k, v in table.items()}


def _single_defs(fn):
    defs = {}
    for n in walk_no_nested(fn):
        if isinstance(n, ast.Assign):
            for t in n.targets:
                if isinstance(t, ast.Name):
                    defs.setdefault(t.id, []).append(n.value)
        elif isinstance(n, (ast.AugAssign, ast.AnnAssign)) and isinstance(n.target, ast.Name):
            defs.setdefault(n.target.id, []).append(None)
        elif isinstance(n, (ast.For, ast.comprehension)):
            for x in ast.walk(n.target):
                if isinstance(x, ast.Name):
                    defs.setdefault(x.id, []).append(None)
        elif isinstance(n, ast.With):
            for it in n.items:
                if it.optional_vars is not None:
                    for x in ast.walk(it.optional_vars):
                        if isinstance(x, ast.Name):
                            defs.setdefault(x.id, []).append(None)
    return defs


def directive_reads(fn, mapping_param=None):
    """constant-key reads of a `<X>.directives` mapping with X != self (also through a local alias of the mapping) -> [(key, X expression, line)];
    with `mapping_param`: the reads of that parameter (a directives mapping handed in by the caller) instead, X = the parameter Name"""
    defs = _single_defs(fn)

    def const_key(e):
        if isinstance(e, ast.Constant) and isinstance(e.value, str):
            return e.value
        if isinstance(e, ast.Name) and len(defs.get(e.id, ())) == 1 and isinstance(defs[e.id][0], ast.Constant) and isinstance(defs[e.id][0].value, str):
            return defs[e.id][0].value
        return None

    def mapping_recv(e, depth=0):
        """e is an expression used as a directives mapping: -> the scope expression X, or None"""
        if mapping_param is not None:
            if isinstance(e, ast.Name) and e.id == mapping_param and e.id not in defs:
                return e
            if isinstance(e, ast.Name) and depth < 3 and len(defs.get(e.id, ())) == 1 and defs[e.id][0] is not None:
                return mapping_recv(defs[e.id][0], depth + 1)
            return None
        if isinstance(e, ast.Attribute) and e.attr == 'directives':
            if isinstance(e.value, ast.Name) and e.value.id == 'self':
                return None
            return e.value
        if isinstance(e, ast.Name) and depth < 3 and len(defs.get(e.id, ())) == 1 and defs[e.id][0] is not None:
            return mapping_recv(defs[e.id][0], depth + 1)
        return None
    out = []
    for n in walk_no_nested(fn):
        key = recv = None
        if isinstance(n, ast.Subscript) and isinstance(n.ctx, ast.Load) and const_key(n.slice) is not None:
            key, recv = const_key(n.slice), mapping_recv(n.value)
        elif isinstance(n, ast.Call) and isinstance(n.func, ast.Attribute) and n.func.attr == 'get' and n.args and const_key(n.args[0]) is not None:
            key, recv = const_key(n.args[0]), mapping_recv(n.func.value)
        elif isinstance(n, ast.Compare) and len(n.ops) == 1 and isinstance(n.ops[0], (ast.In, ast.NotIn)) and const_key(n.left) is not None:
            key, recv = const_key(n.left), mapping_recv(n.comparators[0])
        if key is not None and recv is not None:
            out.append((key, recv, n.lineno))
    return out


OWN_ATTRS = ('scope', 'local_scope')


def classify_scope(ix, cls, fn, e, depth=0):
    """-> ('own', text) the scope the visited node itself creates | ('node', text) the visited tree node (its own directives mapping) |
    ('env', text) an environment that encloses the position of the read"""
    defs = _single_defs(fn)
    params = [a.arg for a in fn.args.args]
    if isinstance(e, ast.Name):
        if e.id in defs and len(defs[e.id]) == 1 and defs[e.id][0] is not None and depth < 4:
            return classify_scope(ix, cls, fn, defs[e.id][0], depth + 1)
        if e.id in params and e.id != 'self' and e.id not in defs and depth < 4:
            pos = params.index(e.id)
            if pos == 1 and fn.name.startswith('visit_'):
                # the visited tree node: `node.directives` is the mapping a CompilerDirectivesNode / ModuleNode carries itself
                return ('node', e.id)
            kinds = []
            for caller_cls, caller, call in _call_sites(ix, cls, fn.name):
                off = 1 if isinstance(call.func, ast.Attribute) else 0
                arg = None
                if pos - off < len(call.args) and pos - off >= 0 and not any(isinstance(a, ast.Starred) for a in call.args):
                    arg = call.args[pos - off]
                for k in call.keywords:
                    if k.arg == e.id:
                        arg = k.value
                if arg is not None:
                    kinds.append(classify_scope(ix, caller_cls, caller, arg, depth + 2))
            if kinds and all(k[0] != 'env' for k in kinds):
                return kinds[0]
            if kinds:
                return [k for k in kinds if k[0] == 'env'][0]
            return ('env', 'parameter %s' % e.id)
        return ('env', _u(e))
    if isinstance(e, ast.Attribute) and isinstance(e.value, ast.Name) and e.value.id == 'self' and depth < 4:
        # visitor state set in this very method (`self.env = node.local_scope` ... `self.env.directives`)
        stores = [n.value for n in walk_no_nested(fn) if isinstance(n, ast.Assign) and any(is_self_attr(t) and t.attr == e.attr for t in n.targets)]
        if len(stores) == 1 and stores[0].lineno < getattr(e, 'lineno', 10 ** 9):
            return classify_scope(ix, cls, fn, stores[0], depth + 1)
        return ('env', _u(e))
    if isinstance(e, ast.Attribute) and e.attr in OWN_ATTRS and isinstance(e.value, ast.Name) and e.value.id != 'self':
        base = e.value.id
        if base in params or (base in defs and len(defs[base]) == 1):
            return ('own', _u(e))
    return ('env', _u(e))


def _call_sites(ix, cls, mname):
    """calls self.<mname>(...) in the methods of the class, its bases and subclasses -> [(class, FunctionDef, Call)]"""
    out = []
    seen = set()
    for k in ix.mro(cls) + ix.subclasses(cls):
        if id(k) in seen:
            continue
        seen.add(id(k))
        for fn in k.methods.values():
            for n in walk_no_nested(fn):
                if isinstance(n, ast.Call) and isinstance(n.func, ast.Attribute) and n.func.attr == mname and isinstance(n.func.value, ast.Name) and n.func.value.id == 'self':
                    out.append((k, fn, n))
    return out


def whole_mapping_uses(fn):
    """`<scope>.directives` (not self) passed on as a whole (argument of a call) -> [(text, line, Call, position or keyword, scope expression)]"""
    out = []
    for n in walk_no_nested(fn):
        if isinstance(n, ast.Call):
            for where, a in list(enumerate(n.args)) + [(k.arg, k.value) for k in n.keywords]:
                if isinstance(a, ast.Attribute) and a.attr == 'directives' and not (isinstance(a.value, ast.Name) and a.value.id == 'self'):
                    out.append((_u(a), n.lineno, n, where, a.value))
    return out


def _callee(ix, cls, call):
    """-> (FunctionDef, number of leading parameters bound implicitly) of a call to a module-level function / a method of self, or None"""
    f = call.func
    try:
        if isinstance(f, ast.Name):
            r = ix.resolve_name(cls.module, f.id)
            if r and r[0] == 'func':
                return r[2], 0
        elif isinstance(f, ast.Attribute) and isinstance(f.value, ast.Name):
            if f.value.id == 'self':
                m = ix.find_method(cls, f.attr)
                if m:
                    return m[1], 1
            else:
                r = ix.resolve_name(cls.module, f.value.id)
                if r and r[0] == 'module' and f.attr in r[1].functions:
                    return r[1].functions[f.attr], 0
    except Exception:
        return None
    return None


def passed_mapping_reads(ix, cls, call, where):
    """constant keys the callee reads from the mapping passed at `where` -> [(key, callee name, line)] | None when the callee is not resolved"""
    r = _callee(ix, cls, call)
    if r is None:
        return None
    fn, off = r
    params = [a.arg for a in fn.args.args] + [a.arg for a in fn.args.kwonlyargs]
    if isinstance(where, int):
        if where + off >= len(fn.args.args):
            return None
        pname = fn.args.args[where + off].arg
    elif where in params:
        pname = where
    else:
        return None
    return [(key, fn.name, line) for key, _, line in directive_reads(fn, mapping_param=pname)]


def envread_findings(ix, classes, scopes):
    """-> ([(key, class, method, directive, kind, receiver text, line, problem or None)], [info])"""
    rows, infos = [], []
    for c in classes:
        for mname, fn in c.methods.items():
            for key, recv, line in directive_reads(fn):
                kind, text = classify_scope(ix, c, fn, recv)
                problem = None
                if kind == 'env':
                    legal = scopes.get(key)
                    if not legal:
                        problem = 'may be set anywhere (Options.directive_scopes does not confine it)'
                    elif 'with statement' in legal:
                        problem = 'may be set by a with statement (Options.directive_scopes: %s)' % ', '.join(legal)
                rows.append(('%s.%s:%s' % (c.name, mname, key), c, mname, key, kind, text, line, problem))
            for text, line, call, where, recv in whole_mapping_uses(fn):
                kind, res = classify_scope(ix, c, fn, recv)
                if kind != 'env' or not ('env' in res or 'scope' in res):
                    continue
                reads = passed_mapping_reads(ix, c, call, where) if hasattr(ix, 'resolve_name') else None
                if not reads:
                    infos.append('%s.%s passes %s on as a whole to %s (line %d): %s' % (c.name, mname, text, _u(call.func), line,
                                 'the callee is not resolved' if reads is None else 'the callee reads no constant key of it; inheritance from the scope instead of the position is not decided'))
                    continue
                for key, callee, _ in reads:
                    legal = scopes.get(key)
                    problem = None
                    if not legal:
                        problem = 'may be set anywhere (Options.directive_scopes does not confine it)'
                    elif 'with statement' in legal:
                        problem = 'may be set by a with statement (Options.directive_scopes: %s)' % ', '.join(legal)
                    rows.append(('%s.%s:%s' % (c.name, mname, key), c, mname, key, kind, '%s (handed to %s, which reads it)' % (res, callee), line, problem))
    return rows, infos


_PC_ENV = ("class T(CythonTransform):\n"
           "    def visit_DefNode(self, node):\n"
           "        env = self.current_env()\n"
           "        self._make(node, env)\n"
           "        if node.local_scope.directives['binding']:\n            pass\n"
           "        if self.current_env().directives['language_level']:\n            pass\n"
           "        return node\n"
           "    def _make(self, node, env):\n"
           "        d = env.directives\n"
           "        return d.get('binding')\n")


def rule_ENVREAD(ctx, floor=14):
    r = Rule('C41-ENVREAD', 'a tree visitor / transform reads a directive through an enclosing environment (`env.directives[...]`) only if the directive cannot be set by a with statement '
                            '(Options.directive_scopes); anything else is read from self.current_directives, the mapping the transform tracks for the visited position, '
                            'or from the visited node\'s own scope', floor)
    ix = ctx.index
    ct = ix.cls('Visitor', 'CythonTransform')
    if 'visit_CompilerDirectivesMixin' not in ct.methods and 'visit_CompilerDirectivesNode' not in ct.methods:
        raise AnalysisError('Visitor.CythonTransform no longer tracks current_directives')
    base = ix.cls('Visitor', 'TreeVisitor')
    scopes = scope_table(ctx)
    rows, infos = envread_findings(ix, [base] + ix.subclasses(base), scopes)
    for i in infos:
        r.info(i)
    for key, c, mname, d, kind, text, line, problem in rows:
        r.inst(key, sample='%s.%s reads %r through %s (%s)' % (c.name, mname, d, text, kind), nontrivial=kind == 'env')
        if problem:
            r.violate(key, c.module.rel, line, '%s.%s reads the directive %r from %s.directives, the mapping that scope was created with; %r %s, so a decorator or '
                      '`with cython.%s(...)` block between that scope and the visited node is ignored here (the transform tracks the value in force in self.current_directives)'
                      % (c.name, mname, d, text, d, problem, d))
    # embedded control
    tree = ast.parse(_PC_ENV)
    pc = _pc_class(tree.body[0])
    prow, _ = envread_findings(_PCIndex(pc), [pc], scopes)
    got = {(m, d): (kind, bool(p)) for _, _, m, d, kind, _, _, p in prow}
    r.positive_control(got.get(('_make', 'binding')) == ('env', True) and got.get(('visit_DefNode', 'binding')) == ('own', False)
                       and got.get(('visit_DefNode', 'language_level')) == ('env', False), 'binding read through an env parameter / the own scope / a module-only directive')
    return r


class _PCClass:
    def __init__(self, node):
        self.name = node.name
        self.methods = {s.name: s for s in node.body if isinstance(s, ast.FunctionDef)}


def _pc_class(node):
    return _PCClass(node)


class _PCIndex:
    """the two index operations classify_scope needs, for the embedded one-class example"""
    def __init__(self, c):
        self.c = c

    def mro(self, c):
        return [c]

    def subclasses(self, c):
        return []


# ====================================================================================================== C41-MERGE
MN = 'Cython/Compiler/ModuleNode.py'
WRAPPER = 'CompilerDirectivesNode'
MAX_PATHS = 512


class _Ret(Exception):
    pass


def _root(v):
    """'self' | ('param', name) | None"""
    while True:
        if v[0] == 'self':
            return 'self'
        if v[0] == 'param':
            return v
        if v[0] in ('attr', 'sub'):
            v = v[1]
        elif v[0] == 'wrap':
            v = v[1]
        elif v[0] == 'ifexp':
            a, b = _root(v[1]), _root(v[2])
            return a if a == b else None
        elif v[0] == 'mcall':          # method call on an object: stays with the object (tree.with_compiler_directives(), d.copy())
            v = v[1]
        else:
            return None


def _side(v):
    r = _root(v)
    return 'self' if r == 'self' else 'foreign' if r is not None else None


def _show(v):
    if v[0] == 'self':
        return 'self'
    if v[0] == 'param':
        return v[1]
    if v[0] == 'attr':
        return '%s.%s' % (_show(v[1]), v[2])
    if v[0] == 'wrap':
        return '%s(body=%s, directives=%s)' % (WRAPPER, _show(v[1]), _show(v[2]))
    if v[0] == 'mcall':
        return '%s.%s(...)' % (_show(v[1]), v[2])
    if v[0] == 'ifexp':
        return '(%s | %s)' % (_show(v[1]), _show(v[2]))
    return v[1] if len(v) > 1 and isinstance(v[1], str) else '<%s>' % v[0]


class PathExec:
    """Path enumeration of one method over symbolic values (parameters, self, attribute chains, CompilerDirectivesNode constructions).
    Every `if` forks; a path carries the (test, truth) facts of the comparisons it passed and the values handed to .append / .extend / .insert."""

    def __init__(self, cls, fn, inline_depth=1):
        self.cls, self.fn, self.inline_depth = cls, fn, inline_depth
        self.paths = []

    def run(self, args=None):
        env = {}
        for i, a in enumerate(self.fn.args.args):
            env[a.arg] = ('self',) if i == 0 and a.arg == 'self' else (args[i] if args is not None and i < len(args) else ('param', a.arg))
        out = []
        self._block(list(self.fn.body), env, [], [], out, None)
        return out        # [(facts, appended, return value or None)]

    # -- statements: continuation-passing over the remaining statements so that an `if` forks the rest of the function
    def _block(self, stmts, env, facts, appended, out, ret):
        if len(out) > MAX_PATHS:
            raise AnalysisError('%s: more than %d paths' % (self.fn.name, MAX_PATHS))
        if not stmts:
            out.append((facts, appended, ret))
            return
        s, rest = stmts[0], stmts[1:]
        if isinstance(s, ast.Return):
            out.append((facts, appended, self._expr(s.value, env) if s.value is not None else ('const', None)))
            return
        if isinstance(s, ast.Raise):
            return
        if isinstance(s, ast.If):
            tf, ff = self._facts(s.test, env)
            self._block(list(s.body) + rest, dict(env), facts + tf, list(appended), out, ret)
            self._block(list(s.orelse) + rest, dict(env), facts + ff, list(appended), out, ret)
            return
        if isinstance(s, (ast.For, ast.While)):
            # the body is executed once for its effects on the tracked values, then the rest
            if isinstance(s, ast.For):
                for n in ast.walk(s.target):
                    if isinstance(n, ast.Name):
                        env[n.id] = ('item', _u(s.iter))
            self._block(list(s.body) + rest, env, facts, appended, out, ret)
            return
        if isinstance(s, (ast.With, ast.Try)):
            self._block(list(s.body) + list(getattr(s, 'finalbody', []) or []) + rest, env, facts, appended, out, ret)
            return
        call = s.value if isinstance(s, (ast.Assign, ast.Expr)) and isinstance(s.value, ast.Call) else None
        if call is not None and self._inlinable(call):
            # a helper method of the same class: its paths (facts, appended trees, returned value) continue the caller's path
            sub = PathExec(self.cls, self.cls.methods[call.func.attr], self.inline_depth - 1)
            for f2, a2, r2 in sub.run([('self',)] + [self._expr(a, env) for a in call.args]):
                env2 = dict(env)
                if isinstance(s, ast.Assign):
                    for t in s.targets:
                        self._assign(t, r2 if r2 is not None else ('const', None), env2)
                self._block(rest, env2, facts + f2, appended + a2, out, ret)
            return
        if isinstance(s, ast.Assign):
            v = self._expr(s.value, env)
            for t in s.targets:
                self._assign(t, v, env)
        elif isinstance(s, ast.AnnAssign) and s.value is not None:
            self._assign(s.target, self._expr(s.value, env), env)
        elif isinstance(s, ast.AugAssign):
            self._assign(s.target, ('opaque', _u(s)), env)
        elif isinstance(s, ast.Expr) and isinstance(s.value, ast.Call):
            c = s.value
            if isinstance(c.func, ast.Attribute) and c.func.attr in ('append', 'extend', 'insert') and c.args:
                tgt = self._expr(c.func.value, env)
                val = self._expr(c.args[-1], env)
                if c.func.attr == 'extend' and val[0] == 'attr' and val[2] == 'stats':
                    val = val[1]
                appended = appended + [(tgt, val, c.lineno)]
            else:
                self._expr(c, env)
        # assert / pass / nested def / anything else: no effect on the tracked values
        self._block(rest, env, facts, appended, out, ret)

    def _inlinable(self, e):
        f = e.func
        return isinstance(f, ast.Attribute) and isinstance(f.value, ast.Name) and f.value.id == 'self' and self.cls is not None and self.inline_depth > 0 \
            and f.attr in self.cls.methods and not any(isinstance(a, ast.Starred) for a in e.args) and not e.keywords

    def _assign(self, t, v, env):
        if isinstance(t, ast.Name):
            env[t.id] = v
        elif isinstance(t, ast.Attribute):
            env['@' + _u(t)] = v
        elif isinstance(t, (ast.Tuple, ast.List)):
            for x in t.elts:
                self._assign(x, ('opaque', _u(t)), env)

    def _expr(self, e, env):
        if isinstance(e, ast.Name):
            return env.get(e.id, ('global', e.id))
        if isinstance(e, ast.Constant):
            return ('const', repr(e.value))
        if isinstance(e, ast.Attribute):
            k = '@' + _u(e)
            if k in env:
                return env[k]
            return ('attr', self._expr(e.value, env), e.attr)
        if isinstance(e, ast.Subscript):
            return ('sub', self._expr(e.value, env), _u(e.slice))
        if isinstance(e, ast.IfExp):
            return ('ifexp', self._expr(e.body, env), self._expr(e.orelse, env))
        if isinstance(e, ast.Compare) and len(e.ops) == 1 and isinstance(e.ops[0], (ast.Eq, ast.NotEq, ast.Is, ast.IsNot)):
            return ('cmpv', self._expr(e.left, env), self._expr(e.comparators[0], env), isinstance(e.ops[0], (ast.Eq, ast.Is)))
        if isinstance(e, ast.UnaryOp) and isinstance(e.op, ast.Not):
            v = self._expr(e.operand, env)
            if v[0] == 'cmpv':
                return ('cmpv', v[1], v[2], not v[3])
            return ('opaque', _u(e))
        if isinstance(e, ast.Call):
            f = e.func
            nm = f.attr if isinstance(f, ast.Attribute) else f.id if isinstance(f, ast.Name) else None
            if nm == WRAPPER:
                kw = {k.arg: self._expr(k.value, env) for k in e.keywords if k.arg}
                pos = [self._expr(a, env) for a in e.args]
                body = kw.get('body', pos[1] if len(pos) > 1 else ('opaque', '<no body>'))
                d = kw.get('directives', pos[2] if len(pos) > 2 else ('opaque', '<no directives>'))
                return ('wrap', body, d, e.lineno)
            if self._inlinable(e):
                sub = PathExec(self.cls, self.cls.methods[nm], self.inline_depth - 1)
                rets = [r for _, _, r in sub.run([('self',)] + [self._expr(a, env) for a in e.args]) if r is not None]
                if rets and len({repr(r) for r in rets}) == 1:
                    return rets[0]
                if rets:
                    return ('either', rets)
            # a private copy of a mapping is, for this analysis, the mapping: dict(m), m.copy(), copy.copy(m), copy_inherited_directives(m) without overrides
            if nm == 'copy' and isinstance(f, ast.Attribute) and not e.args and not e.keywords:
                return self._expr(f.value, env)
            if nm in ('dict', 'copy', 'deepcopy', 'copy_inherited_directives') and len(e.args) == 1 and not e.keywords:
                return self._expr(e.args[0], env)
            if isinstance(f, ast.Attribute):
                return ('mcall', self._expr(f.value, env), nm)
            return ('opaque', _u(e))
        return ('opaque', _u(e))

    def _facts(self, test, env):
        """-> (facts if true, facts if false)"""
        if isinstance(test, ast.UnaryOp) and isinstance(test.op, ast.Not):
            t, f = self._facts(test.operand, env)
            return f, t
        if isinstance(test, ast.BoolOp):
            parts = [self._facts(v, env) for v in test.values]
            if isinstance(test.op, ast.And):
                return [x for t, _ in parts for x in t], []
            return [], [x for _, f in parts for x in f]
        v = self._expr(test, env)
        if v[0] == 'cmpv':
            return [('same', v[1], v[2], v[3])], [('same', v[1], v[2], not v[3])]
        return [], []


def _is_directives_of(v, side):
    return v[0] == 'attr' and v[2] == 'directives' and _side(v[1]) == side


def _equal_fact(facts):
    """a fact on the path saying: the foreign scope's directives equal the receiver's"""
    for f in facts:
        if f[0] == 'same' and f[3]:
            a, b = f[1], f[2]
            if (_is_directives_of(a, 'foreign') and _is_directives_of(b, 'self')) or (_is_directives_of(a, 'self') and _is_directives_of(b, 'foreign')):
                return True
    return False


def _alts(v):
    return list(v[1]) if v[0] == 'either' else [v]


def merge_findings(cls, fn):
    """-> ([(key, sample)], [(key, line, message)]) for a method that appends a foreign tree (a parameter) to statement lists of the receiver"""
    insts, bad = [], {}
    paths = PathExec(cls, fn).run()
    n_app = 0
    for facts, appended, _ in paths:
        for tgt, val0, line in appended:
            for val in _alts(val0):
                if not (tgt[0] == 'attr' and tgt[2] == 'stats') or _side(val) != 'foreign':
                    continue          # only what goes into a statement list (<StatListNode>.stats) is code
                n_app += 1
                if val[0] == 'wrap':
                    body, d = val[1], val[2]
                    key = '%s.%s:wrapper' % (cls.name, fn.name)
                    insts.append((key, 'path appends %s' % _show(val)))
                    if _side(body) != 'foreign':
                        bad.setdefault(key + ':body', (val[3], 'the %s built for the merged tree wraps %s, not the foreign tree' % (WRAPPER, _show(body))))
                    if not _is_directives_of(d, 'foreign'):
                        bad.setdefault(key + ':directives', (val[3], 'the %s wrapped around the merged (foreign) tree %s carries `%s`, not the directives of the scope the tree '
                                       'comes from: the `# cython:` header of the cimported .pxd / the directives of the utility module no longer govern its code, it is '
                                       'compiled under the directives of the cimporting module' % (WRAPPER, _show(body), _show(d))))
                else:
                    key = '%s.%s:unwrapped' % (cls.name, fn.name)
                    insts.append((key, 'path appends %s unwrapped, equality of the two mappings known: %s' % (_show(val), _equal_fact(facts))))
                    if not _equal_fact(facts):
                        bad.setdefault(key, (line, 'the foreign tree %s is appended to the receiving module without a %s on a path that does not establish that the '
                                             'foreign scope\'s directives equal the receiver\'s (the guard must compare <foreign scope>.directives with self.<scope>.directives): '
                                             'merged code loses the directives of its own file' % (_show(val), WRAPPER)))
    return insts, [(k, line, msg) for k, (line, msg) in sorted(bad.items())], n_app


def wrapper_sides(cls):
    """every CompilerDirectivesNode(...) construction in the methods of the class: (method, line, body value, directives value)"""
    out = []
    for mname, fn in cls.methods.items():
        if not any(isinstance(n, ast.Call) and (getattr(n.func, 'attr', None) or getattr(n.func, 'id', None)) == WRAPPER for n in walk_no_nested(fn)):
            continue
        px = PathExec(cls, fn, inline_depth=0)
        env = {a.arg: (('self',) if i == 0 and a.arg == 'self' else ('param', a.arg)) for i, a in enumerate(fn.args.args)}
        for n in walk_no_nested(fn):
            if isinstance(n, ast.Assign) and len(n.targets) == 1 and isinstance(n.targets[0], ast.Name) and not (
                    isinstance(n.value, ast.Call) and (getattr(n.value.func, 'attr', None) or getattr(n.value.func, 'id', None)) == WRAPPER):
                # straight def-use of simple aliases (d = scope.directives); rebinding to a wrapper is not an alias
                if sum(1 for m in walk_no_nested(fn) if isinstance(m, ast.Assign) and any(isinstance(t, ast.Name) and t.id == n.targets[0].id for t in m.targets)) == 1:
                    env[n.targets[0].id] = px._expr(n.value, env)
        for n in walk_no_nested(fn):
            if isinstance(n, ast.Call) and (getattr(n.func, 'attr', None) or getattr(n.func, 'id', None)) == WRAPPER:
                v = px._expr(n, env)
                out.append((mname, n.lineno, v[1], v[2]))
    return out


def merge_callers(ix, cls, mname):
    """calls <recv>.<mname>(tree, scope, ...) outside the class: is the scope the one the tree belongs to? -> [(key, line, module, ok, why)]"""
    out = []
    seen_calls = {}
    fn = cls.methods[mname]
    pnames = [a.arg for a in fn.args.args][1:]
    for m in ix.modules.values() if isinstance(ix.modules, dict) else ix.modules:
        if ('.%s(' % mname) not in (m.src or ''):
            continue
        for qn, owner, f in ix.functions_of(m):
            bound = {}           # name -> id of the binding construct (for-target tuple / assignment tuple)
            for n in ast.walk(f):
                tgts = []
                if isinstance(n, (ast.For, ast.comprehension)):
                    tgts = [n.target]
                elif isinstance(n, ast.Assign):
                    tgts = n.targets
                for t in tgts:
                    for tup in ast.walk(t):
                        if isinstance(tup, (ast.Tuple, ast.List)):
                            for x in tup.elts:
                                if isinstance(x, ast.Name):
                                    bound[x.id] = id(tup)
            for n in ast.walk(f):
                if not (isinstance(n, ast.Call) and isinstance(n.func, ast.Attribute) and n.func.attr == mname and len(n.args) + len(n.keywords) >= 2):
                    continue
                if isinstance(n.func.value, ast.Attribute) and n.func.value.attr == 'scope':
                    continue     # Scope.merge_in(other_scope): another method of the same name
                args = dict(zip(pnames, n.args))
                args.update({k.arg: k.value for k in n.keywords if k.arg})
                t, s = args.get(pnames[0]), args.get(pnames[1])
                if t is None or s is None:
                    continue
                if id(n) in seen_calls and len(seen_calls[id(n)]) >= len(qn):
                    continue          # the same call seen through the enclosing function
                if id(n) in seen_calls:
                    out[:] = [x for x in out if x[5] != id(n)]
                seen_calls[id(n)] = qn

                def base(e):
                    while isinstance(e, (ast.Attribute, ast.Call, ast.Subscript)):
                        e = e.func if isinstance(e, ast.Call) else e.value
                    return e.id if isinstance(e, ast.Name) else None
                bt, bs = base(t), base(s)
                key = '%s.%s:%s(%s, %s)' % (m.short, qn, mname, _u(t), _u(s))
                if bs is not None and bs == base(n.func.value):
                    out.append((key, n.lineno, m, False, 'passes the receiver\'s own scope `%s` as the scope of the merged tree `%s`' % (_u(s), _u(t)), id(n)))
                elif isinstance(t, ast.Name) and isinstance(s, ast.Name) and bt in bound and bound.get(bt) == bound.get(bs):
                    out.append((key, n.lineno, m, True, 'tree and scope are unpacked from the same tuple', id(n)))
                elif bt is not None and bt == bs and isinstance(s, ast.Attribute) and s.attr == 'scope':
                    out.append((key, n.lineno, m, True, 'scope of the same tree object', id(n)))
                else:
                    out.append((key, n.lineno, m, None, 'origin of `%s` and `%s` not related by this analysis' % (_u(t), _u(s)), id(n)))
    return [x[:5] for x in out]


_PC_MERGE = ("class ModuleNode:\n"
             "    def merge_in(self, tree, scope, stage):\n"
             "        if scope.directives != self.scope.directives:\n"
             "            tree = Nodes.CompilerDirectivesNode(tree.pos, body=tree, directives=self.scope.directives)\n"
             "        self.pxd_stats.stats.append(tree)\n"
             "    def merge_in2(self, tree, scope, stage):\n"
             "        if scope.directives != scope.directives:\n"
             "            tree = Nodes.CompilerDirectivesNode(tree.pos, body=tree, directives=scope.directives)\n"
             "        self.pxd_stats.stats.append(tree)\n"
             "    def merge_in3(self, tree, scope, stage):\n"
             "        theirs = scope.directives\n"
             "        if theirs == self.scope.directives:\n"
             "            self.pxd_stats.stats.extend(tree.stats)\n"
             "            return\n"
             "        self.pxd_stats.stats.append(Nodes.CompilerDirectivesNode(tree.pos, body=tree, directives=theirs))\n")


def rule_MERGE(ctx, floor=8):
    r = Rule('C41-MERGE', 'code merged into a module from a cimported .pxd / a utility module (ModuleNode.merge_in) is wrapped in a CompilerDirectivesNode carrying the directives of '
                          'the scope it comes from whenever they may differ from the receiving module\'s; every CompilerDirectivesNode built in ModuleNode takes body and directives '
                          'from the same side; callers pass a tree together with its own scope', floor)
    ix = ctx.index
    cls = ix.cls('ModuleNode', 'ModuleNode')
    fn = cls.methods.get('merge_in')
    if fn is None:
        raise AnalysisError('ModuleNode.merge_in vanished')
    insts, bad, n_app = merge_findings(cls, fn)
    if not n_app:
        raise AnalysisError('ModuleNode.merge_in: no path appends the merged tree to a statement list of the receiver (the analysis lost the tree)')
    for key, sample in insts:
        r.inst(key, sample=sample)
    for key, line, msg in bad:
        r.violate(key, MN, line, 'ModuleNode.merge_in: ' + msg)
    for mname, line, body, d in wrapper_sides(cls):
        if mname == 'merge_in':
            continue
        key = 'ModuleNode.%s:%s' % (mname, WRAPPER)
        r.inst(key, sample='%s: body=%s directives=%s' % (key, _show(body), _show(d)))
        sb, sd = _side(body), _side(d)
        if sb is not None and (sd != sb or not (d[0] == 'attr' and d[2] == 'directives')):
            r.violate(key, MN, line, 'ModuleNode.%s wraps %s (%s side) in a %s that carries `%s`: the wrapper exists to keep the code under the directives of the module it was '
                      'written in, so body and directives must come from the same module' % (mname, _show(body), sb, WRAPPER, _show(d)))
    callers = merge_callers(ix, cls, 'merge_in')
    if len(callers) < 2:
        raise AnalysisError('only %d callers of ModuleNode.merge_in found' % len(callers))
    for key, line, m, ok, why in callers:
        r.inst(key, sample='%s: %s' % (key, why), nontrivial=ok is not None)
        if ok is False:
            r.violate(key, m.rel, line, '%s: merge_in() then compares the receiver\'s directives with themselves and never wraps the merged code in its own directives' % why)
        elif ok is None:
            r.info('%s: %s' % (key, why))
    # embedded controls
    pc = ast.parse(_PC_MERGE).body[0]
    pcc = _PCClass(pc)
    b1 = [k for k, _, _ in merge_findings(pcc, pcc.methods['merge_in'])[1]]
    b2 = [k for k, _, _ in merge_findings(pcc, pcc.methods['merge_in2'])[1]]
    b3 = [k for k, _, _ in merge_findings(pcc, pcc.methods['merge_in3'])[1]]
    r.positive_control(any(k.endswith(':directives') for k in b1) and any(k.endswith(':unwrapped') for k in b2) and not b3,
                       'wrapper with the receiver\'s directives / guard comparing a mapping with itself / early-return form accepted')
    return r
