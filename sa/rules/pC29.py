"""Rules for C29 (auto-pickling of extension types).

The pickle support of a cdef class is *generated Cython source text* (AnalyseDeclarationsTransform._inject_pickle_methods
builds three TreeFragments from the member list).  The rules partially evaluate the expressions that build this text
on symbolic member lists (a small AST interpreter over str/list values; unknown compiler objects are opaque) and then
inspect the generated text: pack order vs. unpack indices vs. __dict__ slot, checksum arguments vs. the C helper,
extern declarations vs. the C prototypes, required utility sections, the *_cython__ method names vs. SetupReduce.
Nothing from /repo is imported or executed.
"""
import ast, re, textwrap, collections

from ..core import Rule, AnalysisError, node_src
from ..engine.pyindex import walk_no_nested
from .iface import LOADERS
from . import typed

PTT = 'Cython/Compiler/ParseTreeTransforms.py'
CHECK = '__Pyx_CheckUnpickleChecksum'
UPDATE = '__Pyx_UpdateUnpickledDict'
SUMFN = '_calculate_pickle_checksums'


class EvalError(Exception):
    pass


class Opaque:
    """A compiler object the evaluator knows nothing about."""

    def __init__(self, label):
        self.label = label

    def __str__(self):
        return 'OPQ_' + re.sub(r'\W+', '_', self.label).strip('_')

    __repr__ = __str__

    def __format__(self, spec):
        return str(self)


class Fake:
    """A symbol-table entry / type stand-in with the attributes given; anything else is opaque."""

    def __init__(self, label, **kw):
        self._label = label
        self._kw = kw

    def get(self, attr):
        if attr in self._kw:
            return self._kw[attr]
        return Opaque('%s.%s' % (self._label, attr))


SAFE_BUILTINS = {'len': len, 'enumerate': enumerate, 'str': str, 'repr': repr, 'sorted': sorted, 'reversed': reversed, 'list': list,
                 'tuple': tuple, 'range': range, 'zip': zip, 'int': int, 'bool': bool, 'any': any, 'all': all, 'min': min, 'max': max,
                 'set': set, 'dict': dict, 'sum': sum, 'hex': hex, 'bytes': bytes}
SAFE_TYPES = (str, bytes, list, tuple, dict, int, bool, set, frozenset, type(None), float)


class Ev:
    def __init__(self, env, hooks=None):
        self.env = dict(env)
        self.hooks = hooks or {}
        self.fragments = []        # (callee, text, lineno)
        self.skipped = []

    # ------------------------------------------------------------------ statements
    def block(self, stmts):
        for s in stmts:
            self.stmt(s)

    def stmt(self, s):
        if isinstance(s, ast.Assign):
            v = self.ev(s.value)
            for t in s.targets:
                self.bind(t, v)
        elif isinstance(s, ast.AugAssign) and isinstance(s.target, ast.Name):
            cur = self.ev(ast.Name(id=s.target.id, ctx=ast.Load()))
            self.env[s.target.id] = self.binop(s.op, cur, self.ev(s.value))
        elif isinstance(s, ast.Expr):
            self.ev(s.value)
        elif isinstance(s, ast.If):
            t = self.ev(s.test)
            if isinstance(t, (Opaque, Fake)):
                raise EvalError('test %r depends on an unknown value' % node_src(s.test, 60))
            self.block(s.body if t else s.orelse)
        elif isinstance(s, ast.For):
            it = self.ev(s.iter)
            if isinstance(it, Opaque):
                self.skipped.append(s.lineno)
                return
            for x in list(it):
                self.bind(s.target, x)
                self.block(s.body)
        elif isinstance(s, (ast.Pass, ast.Import, ast.ImportFrom)):
            pass
        else:
            raise EvalError('unsupported statement %s at line %d' % (type(s).__name__, s.lineno))

    def bind(self, t, v):
        if isinstance(t, ast.Name):
            self.env[t.id] = v
        elif isinstance(t, (ast.Tuple, ast.List)):
            vs = list(v)
            if len(vs) != len(t.elts):
                raise EvalError('cannot unpack')
            for a, b in zip(t.elts, vs):
                self.bind(a, b)
        elif isinstance(t, (ast.Attribute, ast.Subscript)):
            pass        # stores into compiler objects are irrelevant for the generated text
        else:
            raise EvalError('unsupported assignment target')

    # ------------------------------------------------------------------ expressions
    def binop(self, op, a, b):
        if isinstance(a, (Opaque, Fake)) or isinstance(b, (Opaque, Fake)):
            raise EvalError('arithmetic on an unknown value')
        if isinstance(op, ast.Add):
            return a + b
        if isinstance(op, ast.Mult):
            return a * b
        if isinstance(op, ast.Mod):
            if isinstance(a, (str, bytes)):
                return a % (tuple(str(x) if isinstance(x, Opaque) else x for x in b) if isinstance(b, tuple) else b)
            return a % b
        if isinstance(op, ast.Sub):
            return a - b
        raise EvalError('unsupported operator %s' % type(op).__name__)

    def ev(self, e):
        m = getattr(self, 'ev_' + type(e).__name__, None)
        if m is None:
            raise EvalError('unsupported expression %s (%s)' % (type(e).__name__, node_src(e, 60)))
        return m(e)

    def ev_Constant(self, e):
        return e.value

    def ev_Name(self, e):
        if e.id in self.env:
            return self.env[e.id]
        if e.id in SAFE_BUILTINS:
            return SAFE_BUILTINS[e.id]
        if e.id in ('True', 'False', 'None'):
            return {'True': True, 'False': False, 'None': None}[e.id]
        return Opaque(e.id)

    def ev_Attribute(self, e):
        v = self.ev(e.value)
        if isinstance(v, Opaque):
            return Opaque(v.label + '.' + e.attr)
        if isinstance(v, Fake):
            return v.get(e.attr)
        if isinstance(v, SAFE_TYPES) and not e.attr.startswith('_'):
            return getattr(v, e.attr)
        raise EvalError('attribute %s of %s' % (e.attr, type(v).__name__))

    def ev_JoinedStr(self, e):
        out = ''
        for v in e.values:
            if isinstance(v, ast.Constant):
                out += v.value
                continue
            x = self.ev(v.value)
            if v.conversion == ord('r'):
                x = repr(x)
            elif v.conversion == ord('s'):
                x = str(x)
            elif v.conversion == ord('a'):
                x = ascii(x)
            spec = self.ev(v.format_spec) if v.format_spec is not None else ''
            if isinstance(x, Fake):
                raise EvalError('formatting an entry object')
            out += format(x, spec) if not isinstance(x, Opaque) else str(x)
        return out

    def ev_FormattedValue(self, e):
        return self.ev_JoinedStr(ast.JoinedStr(values=[e]))

    def ev_BinOp(self, e):
        a, b = self.ev(e.left), self.ev(e.right)
        if isinstance(e.op, ast.Mod) and isinstance(a, str) and isinstance(b, dict):
            return a % {k: (str(v) if isinstance(v, Opaque) else v) for k, v in b.items()}
        if isinstance(e.op, ast.Mod) and isinstance(a, str) and isinstance(b, Opaque):
            return a % str(b)
        return self.binop(e.op, a, b)

    def ev_BoolOp(self, e):
        v = None
        for x in e.values:
            v = self.ev(x)
            if isinstance(v, (Opaque, Fake)):
                raise EvalError('boolean operator on an unknown value')
            if isinstance(e.op, ast.Or) and v:
                return v
            if isinstance(e.op, ast.And) and not v:
                return v
        return v

    def ev_UnaryOp(self, e):
        v = self.ev(e.operand)
        if isinstance(v, (Opaque, Fake)):
            raise EvalError('unary operator on an unknown value')
        if isinstance(e.op, ast.Not):
            return not v
        if isinstance(e.op, ast.USub):
            return -v
        raise EvalError('unsupported unary operator')

    def ev_Compare(self, e):
        left = self.ev(e.left)
        for op, c in zip(e.ops, e.comparators):
            right = self.ev(c)
            if isinstance(op, (ast.Is, ast.IsNot)) and (left is None or right is None or isinstance(left, bool) or isinstance(right, bool)):
                # `x is None`, `x is True`: decidable when the other side is a concrete value or a plain unknown object
                if isinstance(left, (Opaque, Fake)) or isinstance(right, (Opaque, Fake)):
                    raise EvalError('identity test on an unknown value')
                r = (left is right) if isinstance(op, ast.Is) else (left is not right)
            else:
                if isinstance(left, (Opaque, Fake)) or isinstance(right, (Opaque, Fake)):
                    raise EvalError('comparison with an unknown value')
                r = {ast.Eq: lambda: left == right, ast.NotEq: lambda: left != right, ast.Lt: lambda: left < right,
                     ast.LtE: lambda: left <= right, ast.Gt: lambda: left > right, ast.GtE: lambda: left >= right,
                     ast.In: lambda: left in right, ast.NotIn: lambda: left not in right,
                     ast.Is: lambda: left is right, ast.IsNot: lambda: left is not right}[type(op)]()
            if not r:
                return False
            left = right
        return True

    def ev_IfExp(self, e):
        t = self.ev(e.test)
        if isinstance(t, (Opaque, Fake)):
            raise EvalError('conditional expression on an unknown value')
        return self.ev(e.body if t else e.orelse)

    def ev_List(self, e):
        return [self.ev(x) for x in e.elts]

    def ev_Tuple(self, e):
        return tuple(self.ev(x) for x in e.elts)

    def ev_Dict(self, e):
        return {self.ev(k): self.ev(v) for k, v in zip(e.keys, e.values)}

    def ev_Subscript(self, e):
        v = self.ev(e.value)
        if isinstance(v, Opaque):
            return Opaque(v.label + '[]')
        if isinstance(e.slice, ast.Slice):
            lo = self.ev(e.slice.lower) if e.slice.lower is not None else None
            hi = self.ev(e.slice.upper) if e.slice.upper is not None else None
            st = self.ev(e.slice.step) if e.slice.step is not None else None
            return v[lo:hi:st]
        try:
            return v[self.ev(e.slice)]
        except (IndexError, KeyError, TypeError) as ex:
            raise EvalError('subscript fails: %s' % ex)

    def _comp(self, gens, i, emit):
        if i == len(gens):
            emit()
            return
        g = gens[i]
        it = self.ev(g.iter)
        if isinstance(it, (Opaque, Fake)):
            raise EvalError('iteration over an unknown value (%s)' % node_src(g.iter, 60))
        for x in list(it):
            self.bind(g.target, x)
            ok = True
            for c in g.ifs:
                t = self.ev(c)
                if isinstance(t, (Opaque, Fake)):
                    raise EvalError('comprehension filter on an unknown value')
                if not t:
                    ok = False
                    break
            if ok:
                self._comp(gens, i + 1, emit)

    def ev_ListComp(self, e):
        out = []
        saved = dict(self.env)
        self._comp(e.generators, 0, lambda: out.append(self.ev(e.elt)))
        self.env = saved
        return out

    ev_GeneratorExp = ev_ListComp

    def ev_Call(self, e):
        fname = e.func.id if isinstance(e.func, ast.Name) else (e.func.attr if isinstance(e.func, ast.Attribute) else None)
        if fname in self.hooks:
            return self.hooks[fname](self, e)
        f = self.ev(e.func)
        args = [self.ev(a) for a in e.args if not isinstance(a, ast.Starred)]
        if any(isinstance(a, ast.Starred) for a in e.args):
            raise EvalError('star arguments')
        kw = {k.arg: self.ev(k.value) for k in e.keywords if k.arg}
        if isinstance(f, Opaque):
            return Opaque(f.label + '()')
        if callable(f) and (f in SAFE_BUILTINS.values() or isinstance(getattr(f, '__self__', None), SAFE_TYPES)):
            if any(isinstance(a, Fake) for a in args):
                raise EvalError('entry object passed to a builtin')
            args = [str(a) if isinstance(a, Opaque) else a for a in args]
            try:
                r = f(*args, **kw)
            except Exception as ex:
                raise EvalError('%s(...) fails: %s' % (fname, ex))
            if isinstance(r, (enumerate, zip, reversed, range)) or hasattr(r, '__next__'):
                r = list(r)
            return r
        raise EvalError('call of %s' % node_src(e.func, 40))


# ===================================================================================== locating the generator
def find_generator(ctx):
    ix = ctx.index
    m = ix.mod('ParseTreeTransforms')
    fn = owner = None
    for qn, ow, f in ix.functions_of(m):
        if f.name == '_inject_pickle_methods':
            fn, owner = f, ow
    if fn is None:
        raise AnalysisError('ParseTreeTransforms._inject_pickle_methods vanished')

    def blocks(node):
        for fld in ('body', 'orelse', 'finalbody'):
            b = getattr(node, fld, None)
            if isinstance(b, list) and b and isinstance(b[0], ast.stmt):
                yield b
                for s in b:
                    if not isinstance(s, (ast.FunctionDef, ast.ClassDef)):
                        yield from blocks(s)
    target = None
    for b in blocks(fn):
        for s in b:
            if isinstance(s, ast.Assign) and any(isinstance(c, ast.Constant) and isinstance(c.value, str) and CHECK in c.value for c in ast.walk(s.value)):
                target = b
    if target is None:
        raise AnalysisError('_inject_pickle_methods: the block that builds the unpickle code (text mentioning %s) was not found' % CHECK)
    return m, fn, target


def free_iterated(block):
    """Names the block iterates over (comprehension / for / enumerate / len / join sources) without assigning them first."""
    assigned, out = set(), []
    for s in block:
        for n in ast.walk(s):
            its = []
            if isinstance(n, ast.comprehension):
                its.append(n.iter)
            elif isinstance(n, ast.For):
                its.append(n.iter)
            for it in its:
                while isinstance(it, ast.Call) and it.args:
                    it = it.args[0]
                if isinstance(it, ast.Name) and it.id not in assigned and it.id not in out:
                    out.append(it.id)
        for n in ast.walk(s):
            if isinstance(n, ast.Name) and isinstance(n.ctx, ast.Store):
                assigned.add(n.id)
    return out


def checksum_model(ctx, m):
    """(number of algorithms tried, may_skip) from the module-level checksum function."""
    fn = None
    for n in m.tree.body:
        if isinstance(n, ast.FunctionDef) and n.name == SUMFN:
            fn = n
    if fn is None:
        raise AnalysisError('ParseTreeTransforms.%s vanished' % SUMFN)
    algos, skip = None, False
    for n in ast.walk(fn):
        if isinstance(n, ast.For) and isinstance(n.iter, (ast.List, ast.Tuple)) and all(isinstance(e, ast.Constant) and isinstance(e.value, str) for e in n.iter.elts):
            algos = [e.value for e in n.iter.elts]
            for t in ast.walk(n):
                if isinstance(t, ast.ExceptHandler) and any(isinstance(x, ast.Continue) for x in ast.walk(t)):
                    skip = True
    if not algos:
        raise AnalysisError('%s: loop over the hash algorithm names not found' % SUMFN)
    return algos, skip


def generate(ctx, names, nsums, pyobject=None):
    """Partially evaluate the generator block for a class with members `names` when `nsums` checksum algorithms work.
    -> dict(fragments=[text], sum_arg=..., loads=[(file, section)])"""
    m, fn, block = find_generator(ctx)
    roots = free_iterated(block)
    if not roots:
        raise AnalysisError('_inject_pickle_methods: no member list is iterated in the code-building block')
    entries = [Fake('entry_' + nm, name=nm, type=Fake('type_' + nm, is_pyobject=(i % 2 == 0) if pyobject is None else pyobject,
                                                        is_struct_or_union=False)) for i, nm in enumerate(names)]
    rec = {'sum_arg': None, 'frags': []}

    def hook_sum(ev, call):
        a = ev.ev(call.args[0]) if call.args else None
        rec['sum_arg'] = a
        return ['0x%07x' % (0x1000001 + 0x111111 * i) for i in range(nsums)]

    def hook_fragment(ev, call):
        if call.args:
            t = ev.ev(call.args[0])
            if isinstance(t, str):
                rec['frags'].append((t, call.lineno))
        return Opaque('TreeFragment()')
    env = {r: list(entries) for r in roots}
    if 'node' not in env:
        # the class's own symbol table holds a subset of the members: with two or more members the first one is modelled as inherited
        # from a base type (all_members is collected over the whole base chain, node.scope.var_entries only has the class's own) - a
        # checksum or state computed from the own entries misses a layout change of the base (seed C29o)
        env['node'] = Fake('node', scope=Fake('node.scope', var_entries=list(entries[1:] if len(entries) > 1 else entries)))
    ev = Ev(env, hooks={SUMFN: hook_sum, 'TreeFragment': hook_fragment})
    try:
        ev.block(block)
    except EvalError as ex:
        raise AnalysisError('_inject_pickle_methods: cannot partially evaluate the code-building block (%s)' % ex)
    return rec, block, fn, m


def parsed_lines(text):
    """[(line text, ast statement list)] for every line of generated Cython text that is also a Python simple statement."""
    out = []
    for ln in textwrap.dedent(text).split('\n'):
        s = ln.strip()
        if not s:
            continue
        try:
            out.append((s, ast.parse(s).body))
        except SyntaxError:
            out.append((s, None))
    return out


def _is_self_attr(n, names):
    return isinstance(n, ast.Attribute) and isinstance(n.value, ast.Name) and n.value.id == 'self' and n.attr in names


class Layout:
    """What the generated text does with the members."""

    def __init__(self, frags, names):
        self.pack = []            # list of (kind, [names]) for every assignment of a display of self.<member>
        self.unpack = {}          # member -> state index
        self.unpack_dups = []
        self.dict_index = []
        self.check_calls = []     # (line text, args or None)
        self.reduce_sums = []     # constants passed back from __reduce_cython__
        self.unparsed_check = []
        self.defs, self.refs = set(), set()
        for text, _ in frags:
            for s, body in parsed_lines(text):
                dm = re.match(r'(?:def|cdef(?:\s+\w+)?)\s+(\w+)\s*\(', s)
                if dm:
                    self.defs.add(dm.group(1))
                if body is None:
                    if CHECK + '(' in s and not re.match(r'\s*int\b', s):
                        self.unparsed_check.append(s)
                    for mm in re.finditer(r'\b(__pyx_unpickle\w*)\s*\(', s):
                        if not dm:
                            self.refs.add(mm.group(1))
                    continue
                for st in body:
                    for n in ast.walk(st):
                        if isinstance(n, ast.Name) and n.id.startswith('__pyx_unpickle'):
                            self.refs.add(n.id)
                    if isinstance(st, ast.Assign) and len(st.targets) == 1:
                        t, v = st.targets[0], st.value
                        if isinstance(v, ast.Tuple) and v.elts and all(_is_self_attr(x, names) for x in v.elts):
                            self.pack.append(('tuple', [x.attr for x in v.elts]))
                        elif _is_self_attr(v, names):
                            self.pack.append(('scalar', [v.attr]))
                        if isinstance(t, ast.Attribute) and t.attr in names and isinstance(v, ast.Subscript) and \
                                isinstance(v.slice, ast.Constant) and isinstance(v.slice.value, int):
                            if t.attr in self.unpack:
                                self.unpack_dups.append(t.attr)
                            self.unpack[t.attr] = v.slice.value
                    for n in ast.walk(st):
                        if isinstance(n, ast.Call) and isinstance(n.func, ast.Name):
                            if n.func.id == UPDATE and len(n.args) >= 3 and isinstance(n.args[2], ast.Constant):
                                self.dict_index.append(n.args[2].value)
                            elif n.func.id == CHECK:
                                self.check_calls.append((s, n.args))
                    if isinstance(st, ast.Return) and isinstance(st.value, ast.Tuple) and len(st.value.elts) >= 2 and isinstance(st.value.elts[1], ast.Tuple):
                        for x in st.value.elts[1].elts:
                            if isinstance(x, ast.Constant) and isinstance(x.value, int) and not isinstance(x.value, bool):
                                self.reduce_sums.append(x.value)


# ===================================================================================== rules
def rule_layout(ctx):
    r = Rule('C29-SRC', 'in the generated pickle code the state tuple packed by __reduce_cython__, the indices read back by '
                        '__set_state, the __dict__ slot passed to __Pyx_UpdateUnpickledDict and the names hashed into the checksum all '
                        'describe the same member sequence (partial evaluation for classes with 1..3 members)', floor=15)
    _, fn, _ = find_generator(ctx)

    def check(names, rec):
        probs = []
        lay = Layout(rec['frags'], set(names))
        if len(lay.pack) != 1:
            probs.append(('pack', 'the generated code contains %d assignments of a display of the members (expected exactly the one state tuple)' % len(lay.pack)))
            return lay, probs
        kind, order = lay.pack[0]
        if kind != 'tuple':
            probs.append(('pack', 'for a class with the single member %r the packed state is `self.%s`, not a 1-tuple: `state += (_dict,)` / tuple unpacking fail' % (order[0], order[0])))
        if sorted(order) != sorted(names):
            probs.append(('pack', 'the packed state tuple holds %s, the class has members %s' % (order, list(names))))
        if set(lay.unpack) != set(names) or lay.unpack_dups:
            probs.append(('unpack', '__set_state assigns %s, the class has members %s' % (sorted(lay.unpack), list(names))))
        for i, nm in enumerate(order):
            if nm in lay.unpack and lay.unpack[nm] != i:
                probs.append(('unpack:%d' % i, 'member %r is packed at position %d of the state tuple but restored from __pyx_state[%d]: '
                                                'unpickling assigns the fields of another member' % (nm, i, lay.unpack[nm])))
        if len(lay.dict_index) != 1:
            probs.append(('dict', 'expected one call %s(obj, state, index), found %d' % (UPDATE, len(lay.dict_index))))
        elif lay.dict_index[0] != len(order):
            probs.append(('dict', 'the instance __dict__ is appended to the state tuple at position %d but %s reads position %d'
                          % (len(order), UPDATE, lay.dict_index[0])))
        sa = rec['sum_arg']
        if not isinstance(sa, (list, tuple)) or sorted(sa) != sorted(names):
            probs.append(('checksum', 'the layout checksum is computed from %r, not from the member names %s: a changed layout is not detected' % (sa, list(names))))
        undefined = sorted(x for x in lay.refs if x not in lay.defs)
        if undefined:
            probs.append(('names', 'the generated code refers to %s which no generated def/cdef defines (defined: %s)' % (undefined, sorted(lay.defs))))
        return lay, probs

    seen = set()
    for names in (['m_a'], ['m_a', 'm_b'], ['m_a', 'm_b', 'm_c']):
        rec, block, fn, m = generate(ctx, names, 3)
        if len(rec['frags']) < 2:
            raise AnalysisError('_inject_pickle_methods: fewer than two TreeFragments are built from the member list')
        lay, probs = check(names, rec)
        n = len(names)
        r.inst('pack/%d' % n, sample='%d members: state = (%s); restored from indices %s; __dict__ at %s' % (
            n, ', '.join(lay.pack[0][1]) if lay.pack else '?', [lay.unpack.get(x) for x in names], lay.dict_index))
        for nm in names:
            r.inst('unpack/%d/%s' % (n, nm))
        r.inst('dict/%d' % n)
        r.inst('checksum/%d' % n)
        r.inst('names/%d' % n, nontrivial=False)
        for k, msg in probs:
            key = '_inject_pickle_methods:' + k.split(':')[0]
            if key in seen:
                continue
            seen.add(key)
            r.violate(key, PTT, fn.lineno, 'auto-pickle code generated for a class with members %s: %s' % (names, msg))
    # positive control: an unpack template with swapped index/name is noticed
    lay = Layout([("state = (self.a, self.b)\n__pyx_result.a = __pyx_state[1]; __pyx_result.b = __pyx_state[0]\n", 0)], {'a', 'b'})
    r.positive_control(lay.pack == [('tuple', ['a', 'b'])] and lay.unpack == {'a': 1, 'b': 0}, 'pack order (a, b) restored from indices (1, 0)')
    return r


def rule_checksums(ctx):
    cat = ctx.cat
    r = Rule('C29-SUM', 'for every number of hash algorithms that %s can return, the generated call of %s passes one integer literal per '
                        'C checksum parameter, and the checksum __reduce_cython__ hands to pickle is one of them' % (SUMFN, CHECK), floor=1)
    decls = [d for d in cat.decls.get(CHECK, []) if d.kind in ('func', 'proto')]
    if not decls:
        raise AnalysisError('%s not found in Cython/Utility' % CHECK)
    nparams = {d.nparams for d in decls}
    if len(nparams) != 1:
        r.inst('prototype')
        r.violate(CHECK + ':prototype', 'Cython/Utility/ExtensionTypes.c', decls[0].line,
                  'the prototype and the definition of %s disagree on the number of parameters (%s): the generated module does not compile'
                  % (CHECK, sorted(nparams)))
    defs = [d for d in decls if d.kind == 'func'] or decls
    nparams = defs[0].nparams
    m, fn, block = find_generator(ctx)
    algos, skip = checksum_model(ctx, m)
    ks = list(range(len(algos), 0, -1)) if skip else [len(algos)]
    bad = {}
    for k in ks:
        key = 'checksums=%d' % k
        try:
            rec, _, _, _ = generate(ctx, ['m_a', 'm_b'], k)
        except AnalysisError as ex:
            r.inst(key, sample='%d working hash algorithm(s): %s' % (k, ex))
            bad.setdefault('pad', (k, 'the padding of the checksum list cannot be evaluated (%s)' % ex))
            continue
        lay = Layout(rec['frags'], {'m_a', 'm_b'})
        r.inst(key, sample='%d working hash algorithm(s): %s' % (k, (lay.check_calls or lay.unparsed_check or [('?',)])[0][0] if (lay.check_calls or lay.unparsed_check) else '?'))
        if lay.unparsed_check:
            bad.setdefault('pad', (k, 'the generated call `%s` is not valid source text (a checksum literal was repeated as a string instead of '
                                      'repeating the list element)' % lay.unparsed_check[0]))
            continue
        if len(lay.check_calls) != 1:
            bad.setdefault('call', (k, 'expected one call of %s in the generated unpickle function, found %d' % (CHECK, len(lay.check_calls))))
            continue
        line, args = lay.check_calls[0]
        if len(args) != nparams:
            bad.setdefault('pad', (k, 'the generated call `%s` passes %d argument(s), the C helper takes %d: the Cython compiler rejects the generated code'
                                      % (line, len(args), nparams)))
            continue
        sums = [a.value for a in args[1:-1] if isinstance(a, ast.Constant) and isinstance(a.value, int)]
        if len(sums) != nparams - 2:
            bad.setdefault('pad', (k, 'the generated call `%s` does not pass %d integer checksum literals' % (line, nparams - 2)))
            continue
        if not lay.reduce_sums:
            bad.setdefault('reduce', (k, '__reduce_cython__ does not return a checksum constant'))
        for c in lay.reduce_sums:
            if c not in sums:
                bad.setdefault('reduce', (k, '__reduce_cython__ pickles checksum %#x which the unpickle function does not accept (%s): every unpickle raises'
                                             % (c, [hex(x) for x in sums])))
    for what, (k, msg) in sorted(bad.items()):
        r.violate('_inject_pickle_methods:checksum-%s' % what, PTT, fn.lineno,
                  'when %d of the %d hash algorithms %s are available: %s' % (k, len(algos), algos, msg))
    ev = Ev({'c': ['0x1', '0x2']})
    v = ev.ev(ast.parse("(c + [c[-1] * 2])[:3]", mode='eval').body)
    r.positive_control(v[2] == '0x20x2', 'string repetition instead of list repetition in the padding')
    return r


CY_CAT = {'long': 'int', 'int': 'int', 'Py_ssize_t': 'int', 'bint': 'int', 'size_t': 'int', 'object': 'object', 'tuple': 'object',
          'dict': 'object', 'double': 'double', 'float': 'double'}


def _cy_category(t):
    t = ' '.join(t.replace('const ', '').split())
    if t.endswith('*'):
        return 'pointer'
    return CY_CAT.get(t.split()[0] if t else t)


def rule_extern(ctx):
    cat = ctx.cat
    r = Rule('C29-I7', 'the `cdef extern` declarations of __Pyx_ helpers in the generated unpickle code agree with the C prototypes '
                       '(parameter count and kinds, return kind, `except -1` iff the C function returns -1 on error), the generated calls '
                       'pass that many arguments, and the utility sections defining the helpers are requested next to the code that uses them', floor=5)
    rec, block, fn, m = generate(ctx, ['m_a', 'm_b'], 3)
    decl_re = re.compile(r'^\s*(?P<ret>\w[\w ]*?)\s+(?P<name>__Pyx_\w+)\s*\((?P<params>[^)]*)\)\s*(?:(?:except|noexcept)\s*(?P<exc>[-\w?*]+)?)?\s*$')
    loads = set()
    for s in block:
        if isinstance(s, ast.Expr):
            for a in ast.walk(s):
                if isinstance(a, ast.Call) and isinstance(a.func, ast.Attribute) and a.func.attr in LOADERS and len(a.args) >= 2 and \
                        all(isinstance(x, ast.Constant) for x in a.args[:2]) and \
                        any(isinstance(p, ast.Call) and isinstance(p.func, ast.Attribute) and p.func.attr == 'use_utility_code' for p in ast.walk(s)):
                    loads |= set(cat.closure(a.args[1].value, a.args[0].value))
    found = 0
    for text, _ in rec['frags']:
        calls = collections.defaultdict(list)
        for s, body in parsed_lines(text):
            for st in body or []:
                for n in ast.walk(st):
                    if isinstance(n, ast.Call) and isinstance(n.func, ast.Name) and n.func.id.startswith('__Pyx_'):
                        calls[n.func.id].append(len(n.args))
        for ln in text.split('\n'):
            mm = decl_re.match(ln)
            if not mm or '=' in ln:
                continue
            name = mm.group('name')
            if mm.group('ret').strip() in ('return', 'def', 'cdef', 'not', 'in', 'is', 'and', 'or'):
                continue
            found += 1
            key = 'extern:' + name
            params = [p.strip() for p in mm.group('params').split(',')] if mm.group('params').strip() else []
            cds = [d for d in cat.decls.get(name, []) if d.kind in ('func', 'proto')]
            r.inst(key, sample=ln.strip())
            if not cds:
                r.violate(key, PTT, fn.lineno, 'the generated unpickle code declares %s, which no utility section defines' % name)
                continue
            for d in cds:
                if d.nparams != len(params):
                    r.violate(key + ':arity', PTT, fn.lineno, 'generated declaration `%s` has %d parameter(s), the C function %s(%s) has %d'
                              % (ln.strip(), len(params), name, ', '.join(d.params), d.nparams))
                    break
                ct = [typed.c_category(t) for t in d.param_types()]
                mism = [(i, p, d.params[i]) for i, p in enumerate(params) if _cy_category(p) and ct[i] and _cy_category(p) != ct[i]]
                if mism:
                    i, p, cp = mism[0]
                    r.violate(key + ':type', PTT, fn.lineno, 'generated declaration `%s`: parameter %d is declared %r but the C parameter is %r' % (ln.strip(), i + 1, p, cp))
                    break
                cret = typed.c_category(d.ret)
                if _cy_category(mm.group('ret')) and cret and _cy_category(mm.group('ret')) != cret:
                    r.violate(key + ':ret', PTT, fn.lineno, 'generated declaration `%s` returns %r but the C function returns %r' % (ln.strip(), mm.group('ret'), d.ret))
                    break
            bodies = [d.body for d in cat.decls.get(name, []) if d.kind == 'func' and d.body]
            c_err = any(re.search(r'\breturn\s+-1\s*;', b) for b in bodies)
            if bodies and c_err and mm.group('exc') != '-1':
                r.violate(key + ':except', PTT, fn.lineno, 'the C function %s returns -1 after setting an exception but the generated declaration `%s` '
                          'has no `except -1`: the error is swallowed and unpickling continues' % (name, ln.strip()))
            for nargs in calls.get(name, []):
                r.inst(key + ':call', sample='%s called with %d argument(s)' % (name, nargs))
                if nargs != len(params):
                    r.violate(key + ':call', PTT, fn.lineno, 'the generated code calls %s with %d argument(s) but declares it with %d' % (name, nargs, len(params)))
            if not calls.get(name):
                r.violate(key + ':unused', PTT, fn.lineno, 'the generated unpickle code declares %s but never calls it (the layout check / __dict__ update is lost)' % name)
            prov = {(d.file, d.section.name) for d in cat.decls.get(name, [])}
            r.inst(key + ':section', sample='%s provided by %s' % (name, sorted(prov)))
            if not (prov & loads):
                r.violate(key + ':section', PTT, fn.lineno, 'the code-building block never requests a utility section providing %s (%s) with use_utility_code: '
                          'the generated C calls an undeclared function' % (name, ['%s::%s' % p for p in sorted(prov)]))
    if found < 2:
        raise AnalysisError('fewer than two __Pyx_ extern declarations found in the generated unpickle code')
    mm = decl_re.match('    int __Pyx_X(long, const char*) except -1')
    r.positive_control(bool(mm) and mm.group('exc') == '-1' and _cy_category('const char*') == 'pointer' and typed.c_category('long') == 'int',
                       'extern declaration parser')
    return r


def fragment_method_names(fn):
    """[(line, {*_cython__ method names})] for every TreeFragment(...) built in fn whose source text defines such methods."""
    env = {}
    for a in ast.walk(fn):
        if isinstance(a, ast.Assign) and len(a.targets) == 1 and isinstance(a.targets[0], ast.Name):
            env.setdefault(a.targets[0].id, []).append(a.value)
    groups = []
    for n in ast.walk(fn):
        if isinstance(n, ast.Call) and ((isinstance(n.func, ast.Name) and n.func.id == 'TreeFragment') or
                                        (isinstance(n.func, ast.Attribute) and n.func.attr == 'TreeFragment')) and n.args:
            consts, todo, seen = [], [n.args[0]], set()
            while todo:
                x = todo.pop()
                for c in ast.walk(x):
                    if isinstance(c, ast.Constant) and isinstance(c.value, str):
                        consts.append(c.value)
                    elif isinstance(c, ast.Name) and c.id in env and c.id not in seen:
                        seen.add(c.id)
                        todo.extend(env[c.id])
            names = set()
            for t in consts:
                names |= set(re.findall(r'\bdef\s+(__\w*cython\w*)\s*\(', t))
            if names:
                groups.append((n.lineno, names))
    return groups


def rule_names(ctx):
    cat, ix = ctx.cat, ctx.index
    r = Rule('C29-NAMES', 'the *_cython__ methods generated for a class (both the working and the TypeError variants) are exactly the '
                          'names __Pyx_setup_reduce looks up, and the class setup calls __Pyx_setup_reduce (checked, with its section) '
                          'when one of them exists', floor=6)
    m, fn, block = find_generator(ctx)
    groups = fragment_method_names(fn)
    if len(groups) < 2:
        raise AnalysisError('_inject_pickle_methods: fewer than two TreeFragments define *_cython__ methods')
    secs = cat.files.get('ExtensionTypes.c', {}).get('SetupReduce', {})
    if 'impl' not in secs:
        raise AnalysisError('ExtensionTypes.c::SetupReduce vanished')
    ctext = secs['impl'].text or secs['impl'].raw
    cnames = set(re.findall(r'PYIDENT\(\s*"(\w*cython\w*)"\s*\)', ctext))
    if not cnames:
        raise AnalysisError('SetupReduce looks up no *_cython__ name')
    allpy = set().union(*[g[1] for g in groups])
    for line, names in groups:
        key = 'fragment@%s' % '+'.join(sorted(names))
        r.inst(key, sample='TreeFragment at line %d defines %s' % (line, sorted(names)))
        if names != cnames:
            r.violate('_inject_pickle_methods:methods:%s' % '+'.join(sorted(names ^ cnames)), PTT, line,
                      'this pickle TreeFragment defines %s but __Pyx_setup_reduce installs %s as __reduce__/__setstate__: %s'
                      % (sorted(names), sorted(cnames), 'pickling silently falls back to object.__reduce__ / the helper raises "Unable to initialize pickling"'))
    for nm in sorted(cnames):
        r.inst('SetupReduce:' + nm, sample='__Pyx_setup_reduce looks up %s' % nm)
        if nm not in allpy:
            r.violate('SetupReduce:' + nm, 'Cython/Utility/ExtensionTypes.c', secs['impl'].line, '__Pyx_setup_reduce looks up %r which the compiler never generates' % nm)
    # emission of __Pyx_setup_reduce
    nodes = ix.mod('Nodes')
    site = None
    for qn, owner, f in ix.functions_of(nodes):
        for n in walk_no_nested(f):
            if isinstance(n, ast.Constant) and isinstance(n.value, str) and '__Pyx_setup_reduce(' in n.value:
                site = (qn, f, n)
    if site is None:
        raise AnalysisError('Nodes.py no longer emits __Pyx_setup_reduce')
    qn, f, cnode = site
    key = 'Nodes.%s:__Pyx_setup_reduce' % qn
    r.inst(key, sample='%s emits %s' % (qn, cnode.value))
    # the enclosing `if` must test one of the generated names, the call must be error-checked and its section loaded
    encl = None
    for n in walk_no_nested(f):
        if isinstance(n, ast.If) and any(x is cnode for b in n.body for x in ast.walk(b)):
            if encl is None or n.lineno > encl.lineno:
                encl = n
    tested = set()
    if encl is not None:
        tested = {c.value for c in ast.walk(encl.test) if isinstance(c, ast.Constant) and isinstance(c.value, str)}
    if encl is None or not (tested & cnames):
        r.violate(key + ':trigger', nodes.rel, cnode.lineno, 'the emission of __Pyx_setup_reduce is not guarded by a lookup of one of %s (tests %s): '
                  'classes with generated pickle methods never get __reduce__ installed' % (sorted(cnames), sorted(tested)))
    checked = loaded = False
    for n in ast.walk(encl) if encl is not None else []:
        if isinstance(n, ast.Call) and isinstance(n.func, ast.Attribute):
            if n.func.attr in ('put_error_if_neg', 'error_goto_if_neg', 'error_goto_if') and any(x is cnode for x in ast.walk(n)):
                checked = True
            if n.func.attr in LOADERS and len(n.args) >= 2 and all(isinstance(x, ast.Constant) for x in n.args[:2]):
                if ('ExtensionTypes.c', 'SetupReduce') in set(cat.closure(n.args[1].value, n.args[0].value)):
                    loaded = True
    r.inst(key + ':checked')
    if not checked:
        r.violate(key + ':checked', nodes.rel, cnode.lineno, 'the int result of __Pyx_setup_reduce (-1 with an exception set) is not checked with put_error_if_neg: '
                  'module init continues with an exception set')
    r.inst(key + ':section')
    if not loaded:
        r.violate(key + ':section', nodes.rel, cnode.lineno, 'ExtensionTypes.c::SetupReduce is not requested next to the emitted call')
    args = re.search(r'__Pyx_setup_reduce\((.*)\)', cnode.value)
    ar = cat.arities('__Pyx_setup_reduce')
    r.inst(key + ':arity')
    if args and ar and None not in ar:
        from ..engine.cutil import split_args
        n_args = len(split_args(args.group(1)))
        if {n_args} != ar:
            r.violate(key + ':arity', nodes.rel, cnode.lineno, 'emitted call passes %d argument(s), __Pyx_setup_reduce takes %s' % (n_args, sorted(ar)))
    pc = ast.parse("def f(self):\n    code = '''\n    def __reduce_cython__(self):\n        pass\n'''\n    x = TreeFragment(code, level='c_class')\n").body[0]
    got = fragment_method_names(pc)
    r.positive_control(len(got) == 1 and got[0][1] == {'__reduce_cython__'} and got[0][1] != cnames, 'a fragment defining only __reduce_cython__')
    return r
