"""Object-aware constant folder (ObjFolder) and the C25 rules of the fourth strengthening round.

ObjFolder extends the finite-domain evaluator of sa/rules/pC10.py (``Folder``) with a small object model so that
*methods* of repository classes can be folded on modelled instances:

* ``Inst``   - a modelled instance: the ClassInfo (sa/engine/pyindex) it belongs to and a dict of attributes.  Attribute
  reads go to the dict first, then along the class's MRO (methods become bound closures over their AST, class-level
  assignments are folded in the defining module, ``@property`` functions are called).
* constructing a repository class (``ExprNodes.IntNode(pos, value=...)``) yields an ``Inst`` whose attributes are the
  keyword arguments; ``__init__`` bodies are NOT run (documented assumption of every rule that relies on it).
* ``isinstance`` / ``type`` / ``getattr`` / ``hasattr`` understand ``Inst`` and class references.

Nothing of the repository is imported or executed: every step interprets an AST node with the checker's own
evaluator; unknown constructs raise ``Unfoldable`` (an AnalysisError).
"""
import ast, inspect, itertools, re

from ..core import Rule, AnalysisError, node_src
from ..engine import tables
from .pC10 import (Folder, Closure, Env, Opaque, ClassRef, ModuleRef, Unfoldable, SAFE_BUILTINS, _BINOPS, _Marker)


class Inst:
    """Modelled instance of a repository class."""

    def __init__(self, cls, attrs=None, label=None, flags_default=None):
        self.cls, self.attrs, self.label = cls, dict(attrs or {}), label
        self.flags_default = flags_default      # value of unknown `is_*` attributes (stand-ins for type objects: every unset type flag is False)

    def __repr__(self):
        return '<%s %s>' % (self.cls.name if self.cls is not None else 'object', self.label or '')


class Bound:
    def __init__(self, closure, owner):
        self.closure, self.owner = closure, owner
        self.__name__ = closure.__name__

    def __call__(self, *args, **kwargs):
        return self.closure(self.owner, *args, **kwargs)


class NoAttribute(Unfoldable):
    pass


class SuperStub:
    """`super()` inside a folded method: only `super().__init__(pos, **kw)` is modelled - as Cython's Node.__init__, which stores
    the position and the keyword arguments as attributes (a no-op when the instance is unknown)."""

    def __init__(self, inst=None):
        self.inst = inst

    def init(self, *args, **kw):
        if isinstance(self.inst, Inst):
            if args:
                self.inst.attrs['pos'] = args[0]
            self.inst.attrs.update(kw)


class ObjFolder(Folder):
    def __init__(self, ctx, overrides=None, construct=None):
        super().__init__(ctx, overrides)
        self.ix = ctx.index
        self._construct = construct
        self._cls_attr_cache = {}
        self._undefined = set()

    # ------------------------------------------------------------------ modules (star imports)
    def module_attr(self, rel, name):
        if (rel, name) in self._undefined:
            raise Unfoldable('module %s does not define %r' % (rel, name))
        try:
            return super().module_attr(rel, name)
        except Unfoldable as e:
            if 'does not define' not in str(e):
                raise
            for s in self._module_statements(rel):
                if isinstance(s, ast.ImportFrom) and any(a.name == '*' for a in s.names):
                    target = self._module_path(rel, s.level, s.module)
                    if isinstance(target, tuple):
                        continue
                    try:
                        v = self.module_attr(target, name)
                    except Unfoldable as e2:
                        if 'does not define' not in str(e2):
                            raise
                        continue
                    self._globals[(rel, name)] = v
                    return v
            self._undefined.add((rel, name))
            raise

    # ------------------------------------------------------------------ classes
    def classinfo(self, cref):
        m = self.ix.by_rel.get(cref.rel)
        if m is None or cref.node.name not in m.classes:
            raise Unfoldable('class %s of %s is not indexed' % (cref.node.name, cref.rel))
        return m.classes[cref.node.name]

    def classref(self, ci):
        return self.module_attr(ci.module.rel, ci.name)

    def _decorators(self, fn):
        out = set()
        for d in fn.decorator_list:
            if isinstance(d, ast.Name):
                out.add(d.id)
            elif isinstance(d, ast.Attribute):
                out.add(d.attr)
        return out

    def _class_member(self, ci, attr):
        """-> ('method', owner, fn) | ('value', v) | None along the MRO of ci."""
        for k in self.ix.mro(ci):
            if attr in k.methods:
                return ('method', k, k.methods[attr])
            if attr in k.attrs:
                node = k.attrs[attr]
                if node is True:
                    continue
                key = (id(k), attr)
                if key not in self._cls_attr_cache:
                    if isinstance(node, ast.ClassDef):
                        self._cls_attr_cache[key] = ClassRef(node, k.module.rel)
                    else:
                        env = Env({}, None, k.module.rel)
                        # names of the class body that were bound before this attribute
                        for a2, n2 in k.attrs.items():
                            if a2 == attr:
                                break
                            if n2 is not True and not isinstance(n2, ast.ClassDef) and (id(k), a2) in self._cls_attr_cache:
                                env.vars[a2] = self._cls_attr_cache[(id(k), a2)]
                        self._cls_attr_cache[key] = self.expr(node, env)
                return ('value', self._cls_attr_cache[key])
        return None

    def inst_attr(self, inst, attr):
        if attr in inst.attrs:
            return inst.attrs[attr]
        if inst.cls is None:
            if inst.flags_default is not None and attr.startswith('is_'):
                return inst.flags_default
            raise NoAttribute('modelled object %r has no attribute %r' % (inst, attr))
        r = self._class_member(inst.cls, attr)
        if r is None:
            raise NoAttribute('%r has no attribute %r' % (inst, attr))
        if r[0] == 'value':
            return r[1]
        _, owner, fn = r
        deco = self._decorators(fn)
        clo = Closure(self, fn, Env({}, None, owner.module.rel))
        if 'property' in deco:
            return clo(inst)
        if 'staticmethod' in deco:
            return clo
        if 'classmethod' in deco:
            return Bound(clo, self.classref(inst.cls))
        return Bound(clo, inst)

    def attribute(self, v, attr, node=None):
        if isinstance(v, Inst):
            return self.inst_attr(v, attr)
        if isinstance(v, SuperStub):
            if attr == '__init__':
                return v.init
            raise Unfoldable('super().%s is not modelled' % attr)
        if isinstance(v, ClassRef):
            ci = self.classinfo(v)
            r = self._class_member(ci, attr)
            if r is None:
                raise NoAttribute('class %s has no attribute %r' % (ci.name, attr))
            if r[0] == 'value':
                return r[1]
            _, owner, fn = r
            deco = self._decorators(fn)
            clo = Closure(self, fn, Env({}, None, owner.module.rel))
            if 'classmethod' in deco:
                return Bound(clo, v)
            return clo
        return super().attribute(v, attr, node)

    # ------------------------------------------------------------------ builtins that must understand Inst
    def _isinstance(self, obj, spec):
        specs = spec if isinstance(spec, tuple) else (spec,)
        for s in specs:
            if isinstance(s, ClassRef):
                if isinstance(obj, Inst) and obj.cls is not None:
                    target = self.classinfo(s)
                    if any(k is target for k in self.ix.mro(obj.cls)):
                        return True
            elif isinstance(s, type):
                if not isinstance(obj, (Inst, ClassRef, Bound, Closure)) and isinstance(obj, s):
                    return True
            else:
                raise Unfoldable('isinstance() against %r' % (s,))
        return False

    def _type(self, obj):
        if isinstance(obj, Inst):
            if obj.cls is None:
                raise Unfoldable('type() of an unclassified modelled object')
            return self.classref(obj.cls)
        return type(obj)

    def _getattr(self, obj, name, *default):
        try:
            return self.attribute(obj, name)
        except NoAttribute:
            if default:
                return default[0]
            raise

    def _hasattr(self, obj, name):
        try:
            self.attribute(obj, name)
            return True
        except NoAttribute:
            return False

    def name(self, ident, env):
        ok, v = env.lookup(ident)
        if ok:
            return v
        if ident == 'isinstance':
            return self._isinstance
        if ident == 'type':
            return self._type
        if ident == 'getattr':
            return self._getattr
        if ident == 'hasattr':
            return self._hasattr
        if ident == 'slice':
            return slice
        if ident == 'super':
            e, me = env, None
            while e is not None and me is None:
                me = next((v for v in e.vars.values() if isinstance(v, Inst)), None) if 'self' not in e.vars else e.vars['self']
                e = e.parent
            return lambda *a: SuperStub(me)
        return super().name(ident, env)

    # ------------------------------------------------------------------ calls / construction
    def construct(self, cref, args, kwargs):
        if self._construct is not None:
            r = self._construct(self, cref, args, kwargs)
            if r is not NotImplemented:
                return r
        ci = self.classinfo(cref)
        attrs = dict(kwargs)
        if args:
            attrs.setdefault('pos', args[0])
            if len(args) > 1:
                attrs['_args'] = tuple(args)
        return Inst(ci, attrs)

    def call_value(self, f, args, kwargs, node=None):
        if isinstance(f, Bound):
            return f(*args, **kwargs)
        if isinstance(f, ClassRef):
            return self.construct(f, args, kwargs)
        return super().call_value(f, args, kwargs, node)

    def expr(self, n, env):
        # calls with modelled objects as arguments to checker-side callables are allowed (Folder rejects Opaque only)
        return super().expr(n, env)

    # ------------------------------------------------------------------ statements
    def assign(self, target, value, env):
        if isinstance(target, ast.Attribute):
            obj = self.expr(target.value, env)
            if isinstance(obj, Inst):
                obj.attrs[target.attr] = value
                return
        super().assign(target, value, env)

    def stmt(self, s, env):
        if isinstance(s, ast.AugAssign) and not isinstance(s.target, ast.Name):
            op = _BINOPS.get(type(s.op))
            if op is None:
                raise Unfoldable('augmented assignment %s' % node_src(s, 60))
            load = ast.copy_location(type(s.target)(**{f: getattr(s.target, f) for f in s.target._fields if f != 'ctx'}, ctx=ast.Load()), s.target)
            cur = self.expr(load, env)
            val = self.expr(s.value, env)
            if isinstance(cur, Opaque) or isinstance(val, Opaque):
                raise Unfoldable('arithmetic on an opaque value: %s' % node_src(s, 60))
            self.assign(s.target, op(cur, val), env)
            return
        if isinstance(s, ast.Raise):
            exc = self.expr(s.exc, env) if s.exc is not None else None
            if isinstance(exc, BaseException):
                raise exc
            if isinstance(exc, type) and issubclass(exc, BaseException):
                raise exc()
            raise Unfoldable('raise %s' % node_src(s, 60))
        super().stmt(s, env)

    def method(self, ci, name):
        """unbound closure for ci.name (along the MRO)."""
        r = self._class_member(ci, name)
        if r is None or r[0] != 'method':
            raise AnalysisError('%s.%s vanished' % (ci.qual, name))
        return Closure(self, r[2], Env({}, None, r[1].module.rel))


# =====================================================================================================
# C25-RT: the expression printer round-trips (ExpressionWriter folded on all expression trees of depth <= 2)
# =====================================================================================================

CW = 'Cython/CodeWriter.py'
CMP_OPS = ('in', 'not_in', 'is', 'is_not', '<', '<=', '>', '>=', '!=', '==')


class PrinterModel:
    """ExpressionWriter (or a subclass) folded on modelled expression trees."""

    def __init__(self, ctx, writer=('CodeWriter', 'ExpressionWriter'), writer_tree=None, init_kwargs=None):
        self.ctx, self.ix = ctx, ctx.index
        self.f = ObjFolder(ctx)
        self.wci = self.ix.cls(*writer)
        self.init_kwargs = dict(init_kwargs or {'allow_unknown_nodes': True})
        en = self.ix.mod('ExprNodes')
        self.en = en
        self.binop_classes = self._class_table('binop_node_classes')
        self.unop_classes = self._class_table('unop_node_classes')

    def _class_table(self, name):
        node = self.en.bindings.get(name)
        if not isinstance(node, ast.Dict):
            raise AnalysisError('ExprNodes.%s is not a literal dict any more' % name)
        out = {}
        for k, v in zip(node.keys, node.values):
            if isinstance(k, ast.Constant) and isinstance(v, ast.Name) and v.id in self.en.classes:
                out[k.value] = self.en.classes[v.id]
        if not out:
            raise AnalysisError('ExprNodes.%s: no operator -> class rows found' % name)
        return out

    def cls(self, name):
        if name not in self.en.classes:
            raise AnalysisError('ExprNodes.%s vanished' % name)
        return self.en.classes[name]

    # ---- model trees: tuples (kind, ...) ---------------------------------------------------------------
    def build(self, t):
        """model tree -> Inst"""
        k = t[0]
        N = lambda cname, **a: Inst(self.cls(cname), a, label=cname)
        if k == 'name':
            return N('NameNode', name=t[1])
        if k == 'int':
            return N('IntNode', value=t[1])
        if k == 'float':
            return N('FloatNode', value=t[1])
        if k == 'imag':
            return N('ImagNode', value=t[1])
        if k == 'none':
            return N('NoneNode')
        if k == 'bool':
            return N('BoolNode', value=t[1])
        if k == 'ellipsis':
            return N('EllipsisNode')
        if k == 'str':
            return N('UnicodeNode', value=t[1])
        if k == 'bytes':
            return N('BytesNode', value=t[1])
        if k == 'binop':
            op = t[1]
            a, b = self.build(t[2]), self.build(t[3])
            if op in CMP_OPS:
                return N('PrimaryCmpNode', operator=op, operand1=a, operand2=b, cascade=None)
            if op not in self.binop_classes:
                raise AnalysisError('operator %r has no node class in ExprNodes.binop_node_classes' % op)
            return Inst(self.binop_classes[op], dict(operator=op, operand1=a, operand2=b), label=op)
        if k == 'unop':
            op = t[1]
            if op == 'not':
                return N('NotNode', operand=self.build(t[2]), operator='!')
            return Inst(self.unop_classes[op], dict(operator=op, operand=self.build(t[2])), label=op)
        if k == 'cond':
            return N('CondExprNode', condition=self.build(t[1]), true_val=self.build(t[2]), false_val=self.build(t[3]))
        if k in ('tuple', 'list', 'set'):
            return N({'tuple': 'TupleNode', 'list': 'ListNode', 'set': 'SetNode'}[k], args=[self.build(x) for x in t[1]], mult_factor=None)
        if k == 'dict':
            items = [N('DictItemNode', key=self.build(a), value=self.build(b)) for a, b in t[1]]
            return N('DictNode', key_value_pairs=items)
        if k == 'index':
            return N('IndexNode', base=self.build(t[1]), index=self.build(t[2]))
        if k == 'sliceindex':
            return N('SliceIndexNode', base=self.build(t[1]), start=self.build(t[2]) if t[2] else None,
                     stop=self.build(t[3]) if t[3] else None, slice=None)
        if k == 'slice':
            return N('SliceNode', start=self.build(t[1] or ('none',)), stop=self.build(t[2] or ('none',)), step=self.build(t[3] or ('none',)))
        if k == 'attr':
            return N('AttributeNode', obj=self.build(t[1]), attribute=t[2])
        if k == 'call':
            return N('SimpleCallNode', function=self.build(t[1]), args=[self.build(x) for x in t[2]])
        if k == 'gcall':
            kw = N('DictNode', key_value_pairs=[N('DictItemNode', key=N('IdentifierStringNode', value=a), value=self.build(b)) for a, b in t[3]])
            return N('GeneralCallNode', function=self.build(t[1]), positional_args=N('TupleNode', args=[self.build(x) for x in t[2]], mult_factor=None),
                     keyword_args=kw)
        if k == 'cmpchain':     # a < b <= c : PrimaryCmpNode with a CascadedCmpNode
            return N('PrimaryCmpNode', operator=t[1], operand1=self.build(t[2]), operand2=self.build(t[3]),
                     cascade=N('CascadedCmpNode', operator=t[4], operand2=self.build(t[5]), cascade=None))
        if k == 'gcallx':       # f(a, *b, k=c, **d) as Parsing.p_call_build_packed_args builds it
            pos = Inst(self.binop_classes['+'], dict(operator='+', operand1=N('TupleNode', args=[self.build(t[2])], mult_factor=None), operand2=N('AsTupleNode', arg=self.build(t[3]))), label='+')
            kw = N('MergedDictNode', keyword_args=[
                N('DictNode', key_value_pairs=[N('DictItemNode', key=N('IdentifierStringNode', value='k'), value=self.build(t[4]))]), self.build(t[5])])
            return N('GeneralCallNode', function=self.build(t[1]), positional_args=pos, keyword_args=kw)
        raise AnalysisError('model kind %r' % (k,))

    @staticmethod
    def source(t):
        """fully parenthesised Python source of the model tree (the reference reading)."""
        S = PrinterModel.source
        P = lambda x: '(%s)' % S(x)
        k = t[0]
        if k in ('name', 'int', 'float'):
            return t[1]
        if k == 'imag':
            return t[1] + 'j'
        if k == 'none':
            return 'None'
        if k == 'bool':
            return str(t[1])
        if k == 'ellipsis':
            return '...'
        if k in ('str', 'bytes'):
            return repr(t[1])
        if k == 'binop':
            return '%s %s %s' % (P(t[2]), t[1].replace('_', ' '), P(t[3]))
        if k == 'unop':
            return '%s %s' % (t[1], P(t[2]))
        if k == 'cond':
            return '%s if %s else %s' % (P(t[2]), P(t[1]), P(t[3]))
        if k == 'tuple':
            return '(%s)' % ''.join(P(x) + ', ' for x in t[1])
        if k == 'list':
            return '[%s]' % ', '.join(P(x) for x in t[1])
        if k == 'set':
            return '{%s}' % ', '.join(P(x) for x in t[1]) if t[1] else 'set()'
        if k == 'dict':
            return '{%s}' % ', '.join('%s: %s' % (P(a), P(b)) for a, b in t[1])
        if k == 'index':
            if t[2][0] == 'tuple' and t[2][1]:
                return '%s[%s]' % (P(t[1]), ''.join((S(x) if x[0] == 'slice' else P(x)) + ', ' for x in t[2][1]))
            return '%s[%s]' % (P(t[1]), S(t[2]) if t[2][0] == 'slice' else P(t[2]))
        if k == 'sliceindex':
            return '%s[%s:%s]' % (P(t[1]), P(t[2]) if t[2] else '', P(t[3]) if t[3] else '')
        if k == 'slice':
            return '%s:%s%s' % (P(t[1]) if t[1] else '', P(t[2]) if t[2] else '', (':' + P(t[3])) if t[3] else '')
        if k == 'attr':
            return '%s.%s' % (P(t[1]), t[2])
        if k == 'call':
            return '%s(%s)' % (P(t[1]), ', '.join(P(x) for x in t[2]))
        if k == 'gcall':
            return '%s(%s)' % (P(t[1]), ', '.join([P(x) for x in t[2]] + ['%s=%s' % (a, P(b)) for a, b in t[3]]))
        if k == 'gcallx':
            return '%s(%s, *%s, k=%s, **%s)' % (P(t[1]), P(t[2]), P(t[3]), P(t[4]), P(t[5]))
        if k == 'cmpchain':
            return '%s %s %s %s %s' % (P(t[2]), t[1].replace('_', ' '), P(t[3]), t[4].replace('_', ' '), P(t[5]))
        raise AnalysisError('model kind %r' % (k,))

    # ---- folding ---------------------------------------------------------------------------------------
    def new_writer(self):
        w = Inst(self.wci, {}, label='writer')
        w.attrs['visit'] = lambda node: self.dispatch(w, node)
        w.attrs['_visit'] = w.attrs['visit']
        init = self.f._class_member(self.wci, '__init__')
        if init is None or init[0] != 'method':
            raise AnalysisError('%s.__init__ vanished' % self.wci.qual)
        Closure(self.f, init[2], Env({}, None, init[1].module.rel))(w, **self.init_kwargs)
        return w

    def dispatch(self, w, node):
        if not isinstance(node, Inst) or node.cls is None:
            raise Unfoldable('visit() of a non-node value %r' % (node,))
        h = self.ix.visitor_handler(self.wci, node.cls)
        if h is None:
            raise Unfoldable('no visit_ handler for %s in %s' % (node.cls.name, self.wci.qual))
        _, owner, fn = h
        return Closure(self.f, fn, Env({}, None, owner.module.rel))(w, node)

    def write(self, t):
        """-> (text, None) or (None, exception) - an exception of the reference builtins means the printer crashes."""
        w = self.new_writer()
        try:
            wr = self.f.inst_attr(w, 'write')
            return wr(self.build(t)), None
        except AnalysisError:
            raise
        except Exception as e:
            return None, e


class _FlattenBool(ast.NodeTransformer):
    """`(a and b) and c` and `a and b and c` are the same value and evaluation order: compare them as equal."""

    def visit_BoolOp(self, node):
        self.generic_visit(node)
        vals = []
        for v in node.values:
            if isinstance(v, ast.BoolOp) and type(v.op) is type(node.op):
                vals.extend(v.values)
            else:
                vals.append(v)
        node.values = vals
        return node


def _norm_dump(src):
    try:
        tree = ast.parse(src.strip(), mode='eval')
    except (SyntaxError, ValueError):
        return None
    return ast.dump(_FlattenBool().visit(tree))


LEAVES = [('name', 'a'), ('name', 'b'), ('name', 'c'), ('name', 'd'), ('name', 'e')]
INNER_LEAVES = [('name', 'p'), ('name', 'q'), ('name', 'r'), ('name', 's'), ('name', 't')]
CONTAINER_KINDS = [
    # label, builder, slots, slots in which the child is the *primary* of a trailer (needs parentheses around operators)
    ('cond', lambda ch: ('cond', ch[0], ch[1], ch[2]), 3, ()),          # slots: test, true value, false value
    ('tuple1', lambda ch: ('tuple', [ch[0]]), 1, ()),
    ('tuple2', lambda ch: ('tuple', [ch[0], ch[1]]), 2, ()),
    ('list2', lambda ch: ('list', [ch[0], ch[1]]), 2, ()),
    ('set2', lambda ch: ('set', [ch[0], ch[1]]), 2, ()),
    ('dict1', lambda ch: ('dict', [(ch[0], ch[1])]), 2, ()),
    ('index', lambda ch: ('index', ch[0], ch[1]), 2, (0,)),
    ('index2', lambda ch: ('index', ch[0], ('tuple', [ch[1], ch[2]])), 3, (0,)),
    ('sliceindex', lambda ch: ('sliceindex', ch[0], ch[1], ch[2]), 3, (0,)),
    ('slicestep', lambda ch: ('index', ch[0], ('slice', ch[1], ch[2], ch[3])), 4, (0,)),
    ('attr', lambda ch: ('attr', ch[0], 'x'), 1, (0,)),
    ('call2', lambda ch: ('call', ch[0], [ch[1], ch[2]]), 3, (0,)),
    ('gcall', lambda ch: ('gcall', ch[0], [ch[1]], [('k', ch[2])]), 3, (0,)),
    ('gcallx', lambda ch: ('gcallx', ch[0], ch[1], ch[2], ch[3], ch[4]), 5, (0,)),
]
ATOMS = [('atom:int', ('int', '1')), ('atom:negint', ('int', '-1')), ('atom:float', ('float', '1.5')), ('atom:imag', ('imag', '2')), ('atom:none', ('none',)),
         ('atom:true', ('bool', True)), ('atom:ellipsis', ('ellipsis',)), ('atom:str', ('str', "it's")), ('atom:bytes', ('bytes', b'a\n')),
         ('atom:tuple0', ('tuple', [])), ('atom:list0', ('list', [])), ('atom:set0', ('set', [])), ('atom:dict0', ('dict', [])),
         ('atom:index0', ('index', ('name', 'a'), ('tuple', []))), ('atom:call0', ('call', ('name', 'a'), []))]


def printer_domain(bt, ut, special_ops=()):
    """The expression trees the printer is folded on: every operator once with plain operands; every atom; and every
    nesting outer[slot] <- inner of depth 2 where operators are represented by one member per precedence level plus the
    operators the printer's handlers mention by name.  Yields (key, defect class or None, tree); the defect class tags the
    sub-domains that are decided by separate rules (see rule_printer_pending)."""
    by_level = {}
    for op in sorted(bt):
        by_level.setdefault(bt[op], op)
    reps = sorted(set(by_level.values()) | {op for op in special_ops if op in bt})
    unops = sorted(u for u in ut if u != '!')
    op_kinds = [('binop:' + op, (lambda op: lambda ch: ('binop', op, ch[0], ch[1]))(op), 2, ()) for op in reps] + \
               [('unop:' + op, (lambda op: lambda ch: ('unop', op, ch[0]))(op), 1, ()) for op in unops]
    few = [k for k in op_kinds if k[0] in ('binop:or', 'binop:+', 'binop:**', 'binop:==', 'unop:-', 'unop:not')]
    for label, tree in ATOMS:
        yield label, None, tree
    for op in sorted(bt):
        yield 'binop:' + op, None, ('binop', op, LEAVES[0], LEAVES[1])
    for label, mk, n, prim in op_kinds[len(reps):] + CONTAINER_KINDS:
        yield label, ('tuple1' if label == 'tuple1' else None), mk(LEAVES[:n])
    for a, b in (('<', '<='), ('==', 'in'), ('is_not', '!=')):
        yield 'cmpchain:%s:%s' % (a, b), 'cascade', ('cmpchain', a, LEAVES[0], LEAVES[1], b, LEAVES[2])
        yield 'cmpchain:%s:%s[1]<-binop:+' % (a, b), 'cascade', ('cmpchain', a, LEAVES[0], ('binop', '+', INNER_LEAVES[0], INNER_LEAVES[1]), b, LEAVES[2])
        yield 'binop:+[0]<-cmpchain:%s:%s' % (a, b), 'cascade', ('binop', '+', ('cmpchain', a, INNER_LEAVES[0], INNER_LEAVES[1], b, INNER_LEAVES[2]), LEAVES[1])
    negint = ('negint', lambda ch: ('int', '-1'), 0, ())
    levels = sorted(by_level)
    for label, mk, n, prim in op_kinds + CONTAINER_KINDS:
        is_op = label.startswith(('binop:', 'unop:'))
        if label.startswith('binop:'):
            # the printer compares precedence numbers only: relative to the outer level the inner operators fall into the classes
            # lowest / next lower / same / next higher / highest (plus the operators its handlers name, plus every unary operator)
            li = levels.index(bt[label[6:]])
            near = {by_level[levels[j]] for j in (0, li - 1, li, li + 1, len(levels) - 1) if 0 <= j < len(levels)} | {op for op in special_ops if op in bt}
            ops_in = [k for k in op_kinds if not k[0].startswith('binop:') or k[0][6:] in near]
        else:
            ops_in = op_kinds if is_op else few
        inners = ops_in + [k for k in CONTAINER_KINDS if k[0] in ('cond', 'tuple1', 'tuple2', 'call2', 'attr', 'index')] + [negint]
        for slot in range(n):
            for ilabel, imk, m, _ in inners:
                ch = list(LEAVES[:n])
                ch[slot] = imk(INNER_LEAVES[:m])
                i_op = ilabel.startswith(('binop:', 'unop:'))
                cls = None
                if 'tuple1' in (label, ilabel):
                    cls = 'tuple1'
                elif ilabel == 'cond' and (is_op or slot in prim or (label == 'cond' and slot in (0, 1))):
                    cls = 'cond-operand'
                elif i_op and slot in prim:
                    cls = 'operator-primary'
                elif ilabel == 'negint' and (slot in prim or (label == 'binop:**' and slot == 0)):
                    cls = 'negative-literal'
                yield '%s[%d]<-%s' % (label, slot, ilabel), cls, mk(ch)


def printer_findings(pm, domain, want_cls):
    """-> (instances [(key, sample)], findings {construct: message}) for the part of the domain tagged want_cls."""
    inst, bad = [], {}
    for key, cls, tree in domain:
        if cls != want_cls:
            continue
        text, exc = pm.write(tree)
        want_src = PrinterModel.source(tree)
        inst.append((key, '%s -> %r' % (want_src, text if exc is None else exc)))
        if exc is not None:
            bad.setdefault(key + ':crash', 'printing `%s` raises %s: %s' % (want_src, type(exc).__name__, exc))
            continue
        got, want = _norm_dump(text), _norm_dump(want_src)
        if want is None:
            raise AnalysisError('reference source does not parse: %r' % want_src)
        if got != want:
            bad.setdefault(key, 'the expression `%s` is written as `%s`, which %s: the embedded signature shows a different default value / annotation' % (
                want_src, text, 'is not a Python expression' if got is None else 'Python reads as a different expression'))
    return inst, bad


def _printer_setup(ctx):
    def build():
        ix = ctx.index
        ew = ix.cls('CodeWriter', 'ExpressionWriter')
        b, u = ix.find_class_attr(ew, 'binop_precedence'), ix.find_class_attr(ew, 'unop_precedence')
        if b is None or u is None:
            raise AnalysisError('ExpressionWriter.binop_precedence / unop_precedence vanished')
        bt, ut = tables.literal(b[1]), tables.literal(u[1])
        if not isinstance(bt, dict) or not isinstance(ut, dict):
            raise AnalysisError('precedence tables are not literal dicts any more')
        special = set()
        for name in ('visit_BinopNode', 'visit_UnopNode', 'visit_NotNode', 'operator_enter', 'operator_exit'):
            m = ix.find_method(ew, name)
            if m is None:
                raise AnalysisError('ExpressionWriter.%s vanished' % name)
            special |= {c.value for c in ast.walk(m[1]) if isinstance(c, ast.Constant) and isinstance(c.value, str) and c.value in bt}
        pm = PrinterModel(ctx)
        return pm, list(printer_domain(bt, ut, special)), b[1].lineno
    return ctx.memo('sC25.printer', build)


_MERGE = re.compile(r'^(binop|unop):[^\[]*')


def _report(r, bad, prefix='CodeWriter.ExpressionWriter:'):
    """one finding per construct class (operator names merged) so that the key is stable and the output short."""
    seen = {}
    for key, msg in sorted(bad.items()):
        ck = re.sub(r'(binop|unop):[^\[<]*', lambda m: m.group(1), key)
        seen.setdefault(ck, (key, msg))
    for ck, (key, msg) in sorted(seen.items()):
        r.violate(prefix + ck, CW, 0, '%s [instance %s]' % (msg, key))


def rule_printer(ctx):
    r = Rule('C25-RT', 'ExpressionWriter folded on every operator, atom and depth-2 nesting of expression node kinds: the text parses back (checker\'s own ast) to the tree it was '
             'printed from (parenthesisation, operand order, separators, stack discipline of operator_enter/operator_exit)', floor=640)
    pm, domain, line = _printer_setup(ctx)
    inst, bad = printer_findings(pm, domain, None)
    for key, sample in inst:
        r.inst(key, sample=sample)
    _report(r, bad)
    # positive control: a printer whose unary handler forgets operator_exit()
    # (the control reuses the repository's other handlers; a tree on which the rule already reports is proof enough that the rule is alive)
    r.positive_control(bool(r.findings) or _pc_printer(ctx), 'an ExpressionWriter whose visit_UnopNode does not call operator_exit()')
    return r


PENDING_CLASSES = {
    'tuple1': 'a one-element tuple is written without its trailing comma',
    'cond-operand': 'a conditional expression used as an operand, as the primary of a trailer or as test / true value of another conditional is written without parentheses',
    'operator-primary': 'an operator expression used as the primary of an attribute access, call or subscript is written without parentheses',
    'negative-literal': 'a negative integer literal (folded by the parser) used as left operand of ** or as the primary of a trailer is written without parentheses',
    'cascade': 'a chained comparison (a < b < c) is written without its second and later comparisons',
}


def rule_printer_pending(ctx, cls):
    """The sub-domains of C25-RT on which the unmodified tree violates the property (FINDING_1..4 of session G11)."""
    r = Rule('C25-RT-' + cls.upper(), 'ExpressionWriter round trip, sub-domain: ' + PENDING_CLASSES[cls], floor=1)
    pm, domain, line = _printer_setup(ctx)
    inst, bad = printer_findings(pm, domain, cls)
    for key, sample in inst:
        r.inst(key, sample=sample)
    _report(r, bad)
    return r


_PC_UNOP = """
def visit_UnopNode(self, node):
    op = node.operator
    prec = self.unop_precedence[op]
    self.operator_enter(prec)
    self.put("%s" % node.operator)
    self.visit(node.operand)
"""


def _pc_printer(ctx):
    """embedded positive example: the repository's printer with a unary handler that forgets operator_exit()."""
    pm = PrinterModel(ctx)
    pc_fn = ast.parse(_PC_UNOP).body[0]
    orig = pm.dispatch

    def dispatch(w, node):
        h = pm.ix.visitor_handler(pm.wci, node.cls) if isinstance(node, Inst) and node.cls is not None else None
        if h is not None and h[2].name == 'visit_UnopNode':
            return Closure(pm.f, pc_fn, Env({}, None, h[1].module.rel))(w, node)
        return orig(w, node)
    pm.dispatch = dispatch
    t = ('binop', '**', ('unop', '-', ('name', 'a')), ('name', 'b'))
    text, exc = pm.write(t)
    return exc is not None or _norm_dump(text) != _norm_dump(PrinterModel.source(t))


# =====================================================================================================
# C25-SIG: EmbedSignature folded on every parameter-list shape
# =====================================================================================================

AD = 'Cython/Compiler/AutoDocTransforms.py'
from . import pC10 as _pC10
_pC10.STDLIB.setdefault('inspect', {'cleandoc': inspect.cleandoc})


def _construct_plain(folder, cref, args, kwargs):
    """EncodedString(x) is the text x (a str subclass that only adds an encoding attribute)."""
    if cref.node.name == 'EncodedString' and len(args) == 1 and not kwargs and isinstance(args[0], str):
        return args[0]
    return NotImplemented


class SigModel:
    def __init__(self, ctx):
        self.ctx, self.ix = ctx, ctx.index
        self.f = ObjFolder(ctx, construct=_construct_plain)
        self.es = self.ix.cls('AutoDocTransforms', 'EmbedSignature')
        nodes = self.ix.mod('Nodes')
        for c in ('DefNode', 'CArgDeclNode', 'PyArgDeclNode'):
            if c not in nodes.classes:
                raise AnalysisError('Nodes.%s vanished' % c)
        self.nodes = nodes
        self.pyobj = self.f.module_attr('Cython/Compiler/PyrexTypes.py', 'py_object_type')

    def run_constructor(self, fmt):
        """__init__(self, a, b=D) of a class C  -> (doc stored on the function entry, doc stored on the class scope)"""
        mk = lambda text: Inst(None, {'text': text}, label=text)
        args = []
        for n, dflt, is_self in (('self', None, True), ('a', None, False), ('b', 'D_b', False)):
            args.append(Inst(self.nodes.classes['CArgDeclNode'], dict(name=n, type=self.pyobj, default=mk(dflt) if dflt else None, annotation=None, is_self_arg=is_self,
                                                                      entry=Inst(None, {'is_self_arg': is_self}))))
        entry = Inst(None, dict(is_special=True, doc=None, wrapperbase_cname='wrapperbase', is_self_arg=False))
        node = Inst(self.nodes.classes['DefNode'], dict(name='__init__', args=args, num_posonly_args=0, num_kwonly_args=0, star_arg=None, starstar_arg=None,
                                                       return_type_annotation=None, entry=entry, py_func=None))
        cscope = Inst(None, dict(doc=None), label='class scope')
        cnode = Inst(None, dict(entry=Inst(None, dict(type=Inst(None, dict(scope=cscope))))), label='class node')
        me = Inst(self.es, dict(current_directives={'embedsignature': True, 'embedsignature.format': fmt, 'binding': fmt != 'clinic', 'c_string_type': 'bytes'},
                                class_name='C', class_node=cnode))
        me.attrs['_fmt_expr'] = lambda n: n.attrs['text']
        me.attrs['_fmt_annotation'] = lambda n: n.attrs['text']
        self.f.inst_attr(me, 'visit_DefNode')(node)
        return entry.attrs.get('doc'), cscope.attrs.get('doc')

    def run(self, npo, np_, nk, star, starstar, with_defaults, with_ann, fmt, doc, binding=True, with_ret=False):
        """-> (doc text stored on the entry, model) ; model = dict of the expected parameter structure."""
        mk = lambda text: Inst(None, {'text': text}, label=text)
        names = ['po%d' % i for i in range(npo)] + ['p%d' % i for i in range(np_)] + ['k%d' % i for i in range(nk)]
        defaults, anns = {}, {}
        if with_defaults:
            if npo + np_:
                defaults[names[npo + np_ - 1]] = 'D_pos'
            if nk:
                defaults[names[-1]] = 'D_kw'
        if with_ann and names:
            anns[names[0]] = 'A_first'
        args = []
        for n in names:
            args.append(Inst(self.nodes.classes['CArgDeclNode'], dict(
                name=n, type=self.pyobj, default=mk(defaults[n]) if n in defaults else None,
                annotation=mk(anns[n]) if n in anns else None, entry=Inst(None, {'is_self_arg': False}))))
        sa = Inst(self.nodes.classes['PyArgDeclNode'], dict(name='va', annotation=mk('A_star') if with_ann else None)) if star else None
        ssa = Inst(self.nodes.classes['PyArgDeclNode'], dict(name='kw', annotation=None)) if starstar else None
        entry = Inst(None, dict(is_special=False, doc=doc, wrapperbase_cname=None, is_self_arg=False))
        node = Inst(self.nodes.classes['DefNode'], dict(name='f', args=args, num_posonly_args=npo, num_kwonly_args=nk, star_arg=sa, starstar_arg=ssa,
                                                       return_type_annotation=mk('A_ret') if with_ret else None, entry=entry, py_func=None))
        me = Inst(self.es, dict(current_directives={'embedsignature': True, 'embedsignature.format': fmt, 'binding': binding, 'c_string_type': 'bytes'},
                                class_name=None, class_node=None))
        me.attrs['_fmt_expr'] = lambda n: n.attrs['text']
        me.attrs['_fmt_annotation'] = lambda n: n.attrs['text']
        self.f.inst_attr(me, 'visit_DefNode')(node)
        model = dict(posonly=names[:npo], args=names[npo:npo + np_], kwonly=names[npo + np_:], vararg='va' if star else None, kwarg='kw' if starstar else None,
                     defaults=defaults, anns=dict(anns, **({'va': 'A_star'} if (star and with_ann) else {})), returns='A_ret' if with_ret else None)
        return entry.attrs.get('doc'), model


def _parse_sigline(line):
    try:
        fn = ast.parse('def %s: pass' % line).body[0]
    except SyntaxError:
        return None
    a = fn.args
    txt = lambda n: ast.unparse(n) if n is not None else None
    pos = a.posonlyargs + a.args
    defaults = {}
    for p, d in zip(pos[len(pos) - len(a.defaults):], a.defaults):
        defaults[p.arg] = txt(d)
    for p, d in zip(a.kwonlyargs, a.kw_defaults):
        if d is not None:
            defaults[p.arg] = txt(d)
    anns = {p.arg: txt(p.annotation) for p in pos + a.kwonlyargs + [x for x in (a.vararg, a.kwarg) if x is not None] if p.annotation is not None}
    return dict(returns=txt(fn.returns), posonly=[p.arg for p in a.posonlyargs], args=[p.arg for p in a.args], kwonly=[p.arg for p in a.kwonlyargs],
                vararg=a.vararg.arg if a.vararg else None, kwarg=a.kwarg.arg if a.kwarg else None, defaults=defaults, anns=anns), fn.name


def sig_findings(sm, only_fast=False):
    inst, bad = [], {}
    for fmt in ('python', 'c', 'clinic'):
        for npo, np_, nk, star, starstar in itertools.product(range(3), range(3), range(3), (0, 1), (0, 1)):
            for with_defaults, with_ann in ((0, 0), (1, 0), (0, 1), (1, 1)):
                if fmt != 'python' and (with_ann or max(npo, np_, nk) == 2):
                    continue
                for doc in ((None, 'Doc line.') if (npo, np_, nk) in ((1, 1, 1), (0, 0, 0)) else (None,)):
                    binding = fmt != 'clinic'
                    key = 'sig:%s:po%d:p%d:k%d:%s%s%s%s%s' % (fmt, npo, np_, nk, '*' if star else '', '**' if starstar else '', ':defaults' if with_defaults else '',
                                                               ':annotated' if with_ann else '', ':doc' if doc else '')
                    try:
                        text, model = sm.run(npo, np_, nk, star, starstar, with_defaults, with_ann, fmt, doc, binding=binding, with_ret=bool(with_ann))
                    except AnalysisError:
                        raise
                    except Exception as e:
                        inst.append((key, 'crash %r' % e))
                        bad.setdefault('EmbedSignature:crash', (key, 'EmbedSignature.visit_DefNode raises %s: %s for a def with %s' % (type(e).__name__, e, key)))
                        continue
                    inst.append((key, repr(text)))
                    if not isinstance(text, str):
                        bad.setdefault('EmbedSignature:no-doc', (key, 'no signature is stored on the function entry (doc=%r)' % (text,)))
                        continue
                    lines = text.split('\n')
                    parsed = _parse_sigline(lines[0])
                    if parsed is None:
                        cls = 'syntax'
                        bad.setdefault('EmbedSignature:signature:' + cls, (key, 'the embedded signature line %r does not parse as a Python parameter list' % lines[0]))
                        continue
                    got, fname = parsed
                    if fname != 'f':
                        bad.setdefault('EmbedSignature:name', (key, 'the embedded signature names the function %r instead of %r' % (fname, 'f')))
                    want = dict(model)
                    if fmt == 'clinic':
                        want['anns'] = {}
                        want['returns'] = None
                    for fld in ('posonly', 'args', 'kwonly', 'vararg', 'kwarg', 'defaults', 'anns', 'returns'):
                        if got[fld] != want[fld]:
                            bad.setdefault('EmbedSignature:signature:' + fld, (key, 'embedded signature %r: %s is %r, the function has %r (format %s)' % (lines[0], fld, got[fld], want[fld], fmt)))
                    if fmt == 'clinic' and not binding and not text.startswith(lines[0] + CLINIC_END):
                        bad.setdefault('EmbedSignature:clinic-marker', (key, 'the clinic-format docstring %r does not continue the signature line with %r: CPython only turns the first '
                                                                          'docstring line into __text_signature__ when that marker follows' % (text, CLINIC_END)))
                    if doc:
                        rest = [l for l in lines[1:] if l.strip() and l.strip() != '--']
                        if rest != [doc]:
                            bad.setdefault('EmbedSignature:doc-order', (key, 'the docstring %r does not follow the signature line: %r' % (doc, text)))
    # constructors of extension types: format 'c' documents them on the class as  C(a, b=D)  without self, the other formats as __init__(self, a, b=D)
    for fmt in ('python', 'c', 'clinic'):
        key = 'sig:%s:constructor' % fmt
        try:
            fdoc, cdoc = sm.run_constructor(fmt)
        except AnalysisError:
            raise
        except Exception as e:
            inst.append((key, 'crash %r' % e))
            bad.setdefault('EmbedSignature:constructor:crash', (key, 'EmbedSignature.visit_DefNode raises %s: %s for __init__ of an extension type' % (type(e).__name__, e)))
            continue
        inst.append((key, 'function doc %r, class doc %r' % (fdoc, cdoc)))
        text = cdoc if fmt == 'c' else fdoc
        want_name, want_args = ('C', ['a', 'b']) if fmt == 'c' else ('__init__', ['self', 'a', 'b'])
        line = text.split('\n')[0].replace('$self', 'self') if isinstance(text, str) else None
        parsed = _parse_sigline(line) if line else None
        if parsed is None or parsed[1] != want_name or parsed[0]['args'] != want_args or parsed[0]['defaults'] != {'b': 'D_b'}:
            bad.setdefault('EmbedSignature:constructor', (key, 'the signature embedded for __init__(self, a, b=D_b) of an extension type C (format %s) is %r; expected %s(%s)' % (
                fmt, text, want_name, ', '.join(want_args[:-1] + ['b=D_b']))))
    return inst, bad


# CPython Objects/typeobject.c:  #define SIGNATURE_END_MARKER ")\n--\n\n"  (find_signature / skip_signature)
CLINIC_END = '\n--\n\n'

_PC_ARGLIST = '''
def _fmt_arglist(self, args, npoargs=0, npargs=0, pargs=None, nkargs=0, kargs=None, hide_self=False):
    arglist = []
    for arg in args:
        arglist.append(self._fmt_arg(arg))
    if npoargs:
        arglist.insert(npoargs, '/')
    if pargs:
        arglist.insert(npargs + npoargs, '*%s' % self._fmt_star_arg(pargs))
    elif nkargs:
        arglist.insert(npargs + npoargs, '*')
    if kargs:
        arglist.append('**%s' % self._fmt_star_arg(kargs))
    return arglist
'''


def rule_signature(ctx):
    r = Rule('C25-SIG', 'EmbedSignature.visit_DefNode folded on every parameter-list shape (0..2 positional-only, positional, keyword-only parameters, *args, **kwargs, '
             'defaults, annotations, three formats): the embedded first line parses to the same parameters, kinds, defaults and annotations; the docstring follows it', floor=530)
    sm = SigModel(ctx)
    inst, bad = sig_findings(sm)
    for key, sample in inst:
        r.inst(key, sample=sample)
    for ck, (key, msg) in sorted(bad.items()):
        r.violate('AutoDocTransforms.' + ck, AD, 0, '%s [%s]' % (msg, key))
    # positive control (self-contained): an _fmt_arglist that inserts '/' before '*', folded with stubbed argument formatters
    pcf = ObjFolder(ctx)
    me = Inst(None, {'_fmt_arg': lambda a: a, '_fmt_star_arg': lambda a: a}, label='pc')
    got = Closure(pcf, ast.parse(_PC_ARGLIST).body[0], Env({}, None, AD))(me, ['po0', 'p0', 'k0'], npoargs=1, npargs=1, nkargs=1)
    r.positive_control(got != ['po0', '/', 'p0', '*', 'k0'], "an _fmt_arglist that inserts '/' before '*': %r" % (got,))
    return r


# =====================================================================================================
# C25-QUAL: CalculateQualifiedNamesTransform folded on nesting structures, compared with CPython's co_qualname
# =====================================================================================================

PTT = 'Cython/Compiler/ParseTreeTransforms.py'


def _qual_scenarios():
    """nesting structures: chains of def / class / lambda of depth <= 3, each also with a following sibling def at every level >= 1."""
    kinds = ('def', 'class', 'lambda')
    out = []
    for depth in (1, 2, 3):
        for chain in itertools.product(kinds, repeat=depth):
            if 'lambda' in chain[:-1]:
                continue        # a lambda body has no statements to nest further definitions in
            out.append((chain, None))
            for sib in range(1, depth):
                out.append((chain, sib))
    return out


def _scenario_tree(chain, sib):
    """-> nested spec [(kind, name, children)] ; names are unique."""
    def build(i):
        kind = chain[i]
        name = '%s%d' % ({'def': 'f', 'class': 'C', 'lambda': 'l'}[kind], i)
        children = build(i + 1) if i + 1 < len(chain) else []
        items = [(kind, name, children)]
        if sib is not None and sib == i:
            items.append(('def', 'g%d' % i, []))
        return items
    return build(0)


def _scenario_source(items, indent=0):
    pad = '    ' * indent
    lines = []
    for kind, name, children in items:
        if kind == 'def':
            lines.append('%sdef %s():' % (pad, name))
            lines += _scenario_source(children, indent + 1) or ['%s    pass' % pad]
        elif kind == 'class':
            lines.append('%sclass %s:' % (pad, name))
            lines += _scenario_source(children, indent + 1) or ['%s    pass' % pad]
        else:
            lines.append('%s%s = lambda: 0' % (pad, name))
    return lines


def _reference_qualnames(items):
    """co_qualname of every definition as the checker's own CPython compiles the equivalent source (lambdas keyed by the assigned name)."""
    src = '\n'.join(_scenario_source(items)) + '\n'
    code = compile(src, '<scenario>', 'exec')
    out = {}

    def walk(co, lam_names):
        lam = iter(lam_names)
        for c in co.co_consts:
            if hasattr(c, 'co_qualname'):
                if c.co_name == '<lambda>':
                    out[next(lam)] = c.co_qualname
                else:
                    out[c.co_name] = c.co_qualname
                walk(c, _lambda_names_of(c.co_name, items))
    walk(code, [n for k, n, ch in items if k == 'lambda'])
    return out


def _lambda_names_of(owner, items):
    for kind, name, children in items:
        if name == owner:
            return [n for k, n, ch in children if k == 'lambda']
        r = _lambda_names_of(owner, children)
        if r:
            return r
    return []


class QualModel:
    def __init__(self, ctx):
        self.ctx, self.ix = ctx, ctx.index
        self.f = ObjFolder(ctx, construct=_construct_plain)
        self.tr = self.ix.cls('ParseTreeTransforms', 'CalculateQualifiedNamesTransform')
        self.nodes, self.en = self.ix.mod('Nodes'), self.ix.mod('ExprNodes')
        for m, c in ((self.nodes, 'DefNode'), (self.nodes, 'PyClassDefNode'), (self.en, 'PyCFunctionNode'), (self.en, 'LambdaNode'), (self.en, 'PyClassNamespaceNode')):
            if c not in m.classes:
                raise AnalysisError('%s.%s vanished' % (m.short, c))
        own = set(self.tr.methods)
        if not {'visit_DefNode', 'visit_FuncDefNode', 'visit_ClassDefNode', 'visit_PyCFunctionNode', '_set_qualname', '_append_entry'} <= own:
            raise AnalysisError('CalculateQualifiedNamesTransform lost one of its handlers: %s' % sorted(own))

    def build(self, items, parent_kind):
        out = []
        for kind, name, children in items:
            entry = Inst(None, dict(name=name, is_pyglobal=parent_kind in ('module', 'class'), is_pyclass_attr=parent_kind == 'class'), label='entry ' + name)
            if kind == 'def':
                d = Inst(self.nodes.classes['DefNode'], dict(name=name, entry=entry, is_wrapper=False, _children=self.build(children, 'def'), _key=name), label=name)
                out.append(Inst(self.en.classes['PyCFunctionNode'], dict(def_node=d, _children=[], _key=name), label='pycfunc ' + name))
                out.append(d)
            elif kind == 'class':
                ns = Inst(self.en.classes['PyClassNamespaceNode'], dict(_children=[], _key=name), label='namespace ' + name)
                out.append(Inst(self.nodes.classes['PyClassDefNode'], dict(name=name, entry=entry, _children=[ns] + self.build(children, 'class'), _key=None), label=name))
            else:
                d = Inst(self.nodes.classes['DefNode'], dict(name='<lambda>', entry=entry, is_wrapper=False, _children=[], _key=None), label='lambda def')
                out.append(Inst(self.en.classes['LambdaNode'], dict(def_node=d, _children=[d], _key=name), label='lambda ' + name))
        return out

    def run(self, items):
        """-> {name: qualname assigned to the function object / class namespace node}"""
        nodes = self.build(items, 'module')
        me = Inst(self.tr, dict(qualified_name=[], module_name='mod'), label='transform')
        result = {}

        def children(node, *a, **k):
            for c in node.attrs['_children']:
                dispatch(c)
            return node

        def dispatch(node):
            h = self.ix.visitor_handler(self.tr, node.cls)
            if h is not None and h[1] is self.tr:
                Closure(self.f, h[2], Env({}, None, h[1].module.rel))(me, node)
            else:
                children(node)
            return node
        me.attrs.update(visitchildren=children, _super_visit_FuncDefNode=children, _super_visit_ClassDefNode=children, visit=dispatch)
        for n in nodes:
            dispatch(n)

        def collect(ns):
            for n in ns:
                if n.attrs.get('_key') and n.cls.name in ('PyCFunctionNode', 'LambdaNode', 'PyClassNamespaceNode'):
                    result[n.attrs['_key']] = n.attrs.get('qualname')
                if n.cls.name == 'DefNode' and n.attrs.get('_key'):
                    result['def:' + n.attrs['_key']] = n.attrs.get('qualname')
                collect(n.attrs['_children'])
        collect(nodes)
        return result, me


_PC_FUNCDEF = '''
def visit_FuncDefNode(self, node):
    orig_qualified_name = self.qualified_name[:]
    if getattr(node, 'name', None) == '<lambda>':
        self.qualified_name.append('<lambda>')
    else:
        self._append_entry(node.entry)
    self._super_visit_FuncDefNode(node)
    self.qualified_name = orig_qualified_name
    return node
'''


def qual_findings(qm):
    inst, bad = [], {}
    for chain, sib in _qual_scenarios():
        items = _scenario_tree(chain, sib)
        key = 'nest:%s%s' % ('>'.join(chain), ('+sibling@%d' % sib) if sib is not None else '')
        want = _reference_qualnames(items)
        try:
            got, me = qm.run(items)
        except AnalysisError:
            raise
        except Exception as e:
            inst.append((key, 'crash %r' % e))
            bad.setdefault('CalculateQualifiedNamesTransform:crash', (key, 'the transform raises %s: %s on the nesting %s' % (type(e).__name__, e, key)))
            continue
        inst.append((key, ', '.join('%s=%s' % kv for kv in sorted(got.items()) if not kv[0].startswith('def:'))))
        for name, q in sorted(want.items()):
            g = got.get(name)
            if g != q:
                kind = 'class' if name.startswith('C') else 'lambda' if name.startswith('l') else 'function'
                after = ' defined after a nested %s' % chain[int(name[1:])] if name.startswith('g') else ''
                bad.setdefault('CalculateQualifiedNamesTransform:%s%s' % (kind, ':after-sibling' if after else ''),
                               (key, '__qualname__ of %s %r%s in the nesting %s is %r, CPython gives %r' % (kind, name, after, '/'.join(chain), g, q)))
            if name[0] in 'fg' and got.get('def:' + name) != q:
                bad.setdefault('CalculateQualifiedNamesTransform:defnode', (key, 'DefNode.qualname of %r in the nesting %s is %r, CPython gives %r' % (name, '/'.join(chain), got.get('def:' + name), q)))
        if me.attrs.get('qualified_name') != []:
            bad.setdefault('CalculateQualifiedNamesTransform:stack-not-restored', (key, 'after the module body the qualified-name stack is %r instead of empty' % (me.attrs.get('qualified_name'),)))
    return inst, bad


def rule_qualnames(ctx):
    r = Rule('C25-QUAL', 'CalculateQualifiedNamesTransform folded on every nesting of def / class / lambda up to depth 3 (with following siblings): the qualified names stored on the '
             'function-object, class-namespace and def nodes equal co_qualname of the same structure compiled by the checker\'s CPython', floor=43)
    qm = QualModel(ctx)
    inst, bad = qual_findings(qm)
    for key, sample in inst:
        r.inst(key, sample=sample)
    for ck, (key, msg) in sorted(bad.items()):
        r.violate('ParseTreeTransforms.' + ck, PTT, 0, '%s [%s]' % (msg, key))
    pc = QualModel(ctx)
    fn = ast.parse(_PC_FUNCDEF).body[0]
    orig = pc.f.inst_attr

    def inst_attr(inst_, attr):
        if attr == 'visit_FuncDefNode' and inst_.cls is pc.tr and attr not in inst_.attrs:
            return Bound(Closure(pc.f, fn, Env({}, None, PTT)), inst_)
        return orig(inst_, attr)
    pc.f.inst_attr = inst_attr
    if r.findings:
        r.positive_control(True, 'the rule reports on this tree')
        return r
    got, _ = pc.run(_scenario_tree(('def', 'def'), None))
    r.positive_control(got.get('f1') != 'f0.<locals>.f1', "a visit_FuncDefNode that does not append '<locals>': %r" % got.get('f1'))
    return r


# =====================================================================================================
# C25-CODEOBJ / C25-FUNCATTR: code-object description, constructor roles, defaults routing, C getset table
# =====================================================================================================

EXN = 'Cython/Compiler/ExprNodes.py'
CODE = 'Cython/Compiler/Code.py'
CFC = 'Cython/Utility/CythonFunction.c'
MSC = 'Cython/Utility/ModuleSetupCode.c'

# Meaning of the code flags, CPython Doc/library/inspect.rst "Code Objects Bit Flags": CO_VARARGS "The code object has a variable
# positional parameter (*args-like)", CO_VARKEYWORDS "... a variable keyword parameter (**kwargs-like)", CO_GENERATOR "... is a generator
# function", CO_COROUTINE "... is a coroutine function (async def)", CO_ASYNC_GENERATOR "... is an asynchronous generator function".
CO_FLAG_OF_ATTR = {'star_arg': 'CO_VARARGS', 'starstar_arg': 'CO_VARKEYWORDS', 'is_generator': 'CO_GENERATOR',
                   'is_coroutine': 'CO_COROUTINE', 'is_asyncgen': 'CO_ASYNC_GENERATOR'}


def _single_assignments(fn):
    out = {}
    for n in ast.walk(fn):
        if isinstance(n, ast.Assign) and len(n.targets) == 1 and isinstance(n.targets[0], ast.Name):
            out.setdefault(n.targets[0].id, []).append(n.value)
        elif isinstance(n, ast.AnnAssign) and isinstance(n.target, ast.Name) and n.value is not None:
            out.setdefault(n.target.id, []).append(n.value)
    return out


def _linform(expr, defs, recv, depth=0):
    """Linear form {atom text: coefficient} of an integer expression over attributes of the def node / code-object node.
    `recv`: local names that denote the def node ('D') or the code object node ('N').  None when not linear."""
    if depth > 6:
        return None
    if isinstance(expr, ast.Constant) and isinstance(expr.value, int) and not isinstance(expr.value, bool):
        return {'1': expr.value} if expr.value else {}
    if isinstance(expr, ast.BinOp) and isinstance(expr.op, (ast.Add, ast.Sub)):
        a, b = _linform(expr.left, defs, recv, depth + 1), _linform(expr.right, defs, recv, depth + 1)
        if a is None or b is None:
            return None
        out = dict(a)
        for k, v in b.items():
            out[k] = out.get(k, 0) + (v if isinstance(expr.op, ast.Add) else -v)
        return {k: v for k, v in out.items() if v}
    if isinstance(expr, ast.Name):
        vals = defs.get(expr.id, [])
        forms = []
        for v in vals:
            f = _linform(v, defs, recv, depth + 1)
            if f is None:
                return None
            forms.append(f)
        # a name assigned on alternative branches (argcount = 0 for generator expressions / len(func.args)): take the non-constant one
        nonconst = [f for f in forms if any(k != '1' for k in f)]
        if len(nonconst) == 1:
            return nonconst[0]
        if len(forms) == 1:
            return forms[0]
        return None
    atom = _atom(expr, recv)
    if atom is not None:
        return {atom: 1}
    return None


def _atom(expr, recv):
    """canonical text of  <recv>.attr  /  len(<recv>.attr)  /  <recv>.pos[1]"""
    if isinstance(expr, ast.Call) and isinstance(expr.func, ast.Name) and expr.func.id == 'len' and len(expr.args) == 1:
        a = _atom(expr.args[0], recv)
        return 'len(%s)' % a if a else None
    if isinstance(expr, ast.Subscript) and isinstance(expr.slice, ast.Constant):
        a = _atom(expr.value, recv)
        return '%s[%r]' % (a, expr.slice.value) if a else None
    if isinstance(expr, ast.Attribute) and isinstance(expr.value, ast.Name) and expr.value.id in recv:
        if expr.attr == 'pos':
            return 'pos'           # CodeObjectNode is constructed at def_node.pos
        return '%s.%s' % (recv[expr.value.id], expr.attr)
    return None


def _fstring_parts(node):
    """flatten an implicit concatenation of str / f-string constants -> list of str | ast expr"""
    if isinstance(node, ast.Constant) and isinstance(node.value, str):
        return [node.value]
    if isinstance(node, ast.JoinedStr):
        out = []
        for p in node.values:
            if isinstance(p, ast.Constant):
                out.append(p.value)
            elif isinstance(p, ast.FormattedValue):
                out.append(p.value)
        return out
    if isinstance(node, ast.BinOp) and isinstance(node.op, ast.Add):
        a, b = _fstring_parts(node.left), _fstring_parts(node.right)
        return None if a is None or b is None else a + b
    return None


def rule_codeobject(ctx):
    r = Rule('C25-CODEOBJ', 'code objects behind inspect.signature: each field of the description struct is initialised with the quantity its bit width is computed from '
             '(linear forms over def-node attributes), the C side passes the fields to the code constructor in CPython\'s parameter order, CO_* flags follow the '
             'parameter kinds, co_varnames starts with the arguments', floor=15)
    ix = ctx.index
    con = ix.cls('ExprNodes', 'CodeObjectNode')
    gen = con.methods.get('generate_codeobj')
    init = con.methods.get('__init__')
    gs = ix.cls('Code', 'GlobalState').methods.get('generate_codeobject_constants')
    if gen is None or init is None or gs is None:
        raise AnalysisError('CodeObjectNode.generate_codeobj / __init__ or GlobalState.generate_codeobject_constants vanished')
    # ---- (1) initialiser of the description struct
    inits = None
    for n in ast.walk(gen):
        if isinstance(n, ast.Call) and isinstance(n.func, ast.Attribute) and n.func.attr in ('putln', 'put') and n.args:
            parts = _fstring_parts(n.args[0])
            if parts and isinstance(parts[0], str) and 'function_description' in parts[0] and '{' in parts[0]:
                inits = [p for p in parts if not isinstance(p, str)]
    if not inits:
        raise AnalysisError('generate_codeobj: the initialiser of __Pyx_PyCode_New_function_description was not found')
    gdefs = _single_assignments(gen)
    recv_g = {'self': 'N'}
    for nm, vals in gdefs.items():
        if len(vals) == 1 and isinstance(vals[0], ast.Attribute) and isinstance(vals[0].value, ast.Name) and vals[0].value.id == 'self' and vals[0].attr == 'def_node':
            recv_g[nm] = 'D'
    # ---- (2) struct fields and the accumulators that size them
    fields = []
    for n in ast.walk(gs):
        if isinstance(n, ast.JoinedStr):
            parts = n.values
            for i, p in enumerate(parts):
                if isinstance(p, ast.FormattedValue) and i > 0 and isinstance(parts[i - 1], ast.Constant) and isinstance(parts[i - 1].value, str):
                    # `name : {<width expression>}` - the width expression names the maximum it is computed from (the form of the expression is checked by C25-COVER)
                    m = re.search(r'(\w+)\s*:\s*$', parts[i - 1].value)
                    names = [x.id for x in ast.walk(p.value) if isinstance(x, ast.Name) and x.id not in ('max', 'min', 'int', 'len')]
                    if m and names:
                        fields.append((m.group(1), names[0]))
    if len(fields) < 5:
        raise AnalysisError('generate_codeobject_constants: only %d bit-fields found' % len(fields))
    if len(fields) != len(inits):
        r.inst('descr:arity')
        r.violate('ExprNodes.CodeObjectNode.generate_codeobj:descr:arity', EXN, gen.lineno,
                  'the description struct has %d fields (%s) but generate_codeobj initialises %d values' % (len(fields), [f for f, _ in fields], len(inits)))
        return r
    sdefs = _single_assignments(gs)
    recv_s = {}
    for n in ast.walk(gs):
        if isinstance(n, ast.For) and isinstance(n.target, ast.Name):
            recv_s[n.target.id] = 'N'
    for nm, vals in sdefs.items():
        if len(vals) == 1 and isinstance(vals[0], ast.Attribute) and isinstance(vals[0].value, ast.Name) and vals[0].value.id in recv_s and vals[0].attr == 'def_node':
            recv_s[nm] = 'D'
    # accumulator -> accumulated expression (max(acc, e)  or  `if e > acc: acc = e`)
    acc_expr = {}
    for n in ast.walk(gs):
        if isinstance(n, ast.Assign) and len(n.targets) == 1 and isinstance(n.targets[0], ast.Name):
            t = n.targets[0].id
            v = n.value
            if isinstance(v, ast.Call) and isinstance(v.func, ast.Name) and v.func.id == 'max' and len(v.args) == 2:
                others = [a for a in v.args if not (isinstance(a, ast.Name) and a.id == t)]
                if len(others) == 1:
                    acc_expr.setdefault(t, []).append(others[0])
        if isinstance(n, ast.If) and isinstance(n.test, ast.Compare) and len(n.test.ops) == 1 and len(n.body) == 1 and isinstance(n.body[0], ast.Assign):
            a = n.body[0]
            if len(a.targets) == 1 and isinstance(a.targets[0], ast.Name):
                t = a.targets[0].id
                sides = [n.test.left, n.test.comparators[0]]
                if any(isinstance(s, ast.Name) and s.id == t for s in sides) and any(ast.dump(s) == ast.dump(a.value) for s in sides):
                    acc_expr.setdefault(t, []).append(a.value)
    for i, ((field, acc), e) in enumerate(zip(fields, inits)):
        key = 'descr:%s' % field
        lf = _linform(e, gdefs, recv_g)
        r.inst(key, sample='field %d %s <- %s ; width from %s' % (i, field, node_src(e, 40), acc))
        if acc not in acc_expr:
            continue        # sized from a constant (flags)
        want = [_linform(x, {}, recv_s) for x in acc_expr[acc]]
        if lf is None or any(w is None for w in want):
            r.info('descr field %s: initialiser %s or accumulated expression not linear over node attributes' % (field, node_src(e, 40)))
            continue
        def covered(small, big):
            # every atom is a non-negative count: small <= big when big - small has no negative coefficient (a wider field stores the same value)
            d = dict(big)
            for k, v in small.items():
                d[k] = d.get(k, 0) - v
            return all(v >= 0 for v in d.values())
        if not any(covered(lf, w) for w in want):
            def show(f):
                return ' '.join('%+d*%s' % (v, k) for k, v in sorted(f.items())) or '0'
            r.violate('ExprNodes.CodeObjectNode.generate_codeobj:descr:%s' % field, EXN, gen.lineno,
                      'field %d (%s) of the code-object description is initialised with %s = [%s] but its bit width is computed in generate_codeobject_constants from the maximum of [%s]: '
                      'a different quantity is stored there (inspect.signature reads co_argcount / co_posonlyargcount / co_kwonlyargcount from these fields)' % (
                          i, field, node_src(e, 40), show(lf), show(want[0])))
    # ---- (3) C side: fields passed in CPython's constructor order
    import types
    try:
        ref = list(inspect.signature(types.CodeType).parameters)      # the checker's own CPython: code(argcount, posonlyargcount, kwonlyargcount, nlocals, stacksize, flags, ...)
    except (TypeError, ValueError):
        ref = []

    def canon(s):
        s = s.lower().replace('_', '')
        for t in ('posonly', 'kwonly', 'nlocals', 'flags', 'stacksize'):
            if t in s:
                return t
        if 'first' in s and 'line' in s:
            return 'firstline'
        if 'argcount' in s:
            return 'argcount'
        return None
    decl = [d for d in ctx.cat.decls.get('__Pyx_PyCode_New', []) if d.kind == 'func' and d.body]
    if not decl:
        raise AnalysisError('__Pyx_PyCode_New not found in the utility catalogue')
    mo = re.search(r'__Pyx__PyCode_New\s*\(', decl[0].body)
    if not mo or len(ref) < 6:
        raise AnalysisError('__Pyx_PyCode_New: inner constructor call / reference signature not found')
    depth, i, args, cur = 1, mo.end(), [], ''
    body = decl[0].body
    while i < len(body) and depth:
        ch = body[i]
        if ch == '(':
            depth += 1
        elif ch == ')':
            depth -= 1
            if depth == 0:
                break
        if ch == ',' and depth == 1:
            args.append(cur.strip())
            cur = ''
        else:
            cur += ch
        i += 1
    args.append(cur.strip())
    inner = [d for d in ctx.cat.decls.get('__Pyx__PyCode_New', []) if d.params and len(d.params) == len(args)]
    inner_names = [re.search(r'(\w+)\s*$', p).group(1) if re.search(r'(\w+)\s*$', p) else None for p in inner[0].params] if inner else []
    for pos, a in enumerate(args):
        mf = re.search(r'descr\.(\w+)', a)
        if not mf:
            continue
        fld = mf.group(1)
        key = 'c-order:%s' % fld
        r.inst(key, sample='__Pyx_PyCode_New passes descr.%s as argument %d' % (fld, pos))
        want = canon(ref[pos]) if pos < 6 else (canon('first_line') if pos < len(inner_names) and inner_names[pos] and 'line' in inner_names[pos] else None)
        if canon(fld) and want and canon(fld) != want:
            r.violate('ModuleSetupCode.__Pyx_PyCode_New:order:%s' % fld, MSC, decl[0].line,
                      '__Pyx_PyCode_New passes descr.%s in position %d of the code constructor, where CPython expects %s' % (fld, pos, ref[pos] if pos < len(ref) else inner_names[pos]))
    # ---- (3b) the emitted __Pyx_PyCode_New(...) call: name-carrying arguments in the parameters they are named after
    pdecl = [d for d in ctx.cat.decls.get('__Pyx_PyCode_New', []) if d.params]
    for n in ast.walk(gen):
        if isinstance(n, ast.Call) and isinstance(n.func, ast.Attribute) and n.func.attr in ('putln', 'put') and n.args:
            parts = _fstring_parts(n.args[0])
            if not parts or not any(isinstance(p, str) and '__Pyx_PyCode_New(' in p for p in parts):
                continue
            # split the argument list of the emitted call at top-level commas
            flat, phs = '', []
            for p in parts:
                if isinstance(p, str):
                    flat += p
                else:
                    flat += '\x00%d\x00' % len(phs)
                    phs.append(p)
            mo = re.search(r'__Pyx_PyCode_New\(([^;]*?)\)\s*;', flat)
            if not mo or not pdecl:
                raise AnalysisError('generate_codeobj: emitted __Pyx_PyCode_New call not understood')
            cargs = [a.strip() for a in mo.group(1).split(',')]
            pn = pdecl[0].param_names()
            if len(cargs) != len(pn):
                r.inst('pycode-new:arity')
                r.violate('ExprNodes.CodeObjectNode.generate_codeobj:__Pyx_PyCode_New:arity', EXN, n.lineno, '__Pyx_PyCode_New is emitted with %d arguments, the C function takes %d' % (len(cargs), len(pn)))
                continue

            def toks(s_):
                return {t for t in re.split(r'[_\W]+|(?<=[a-z])(?=[A-Z])', s_.lower()) if len(t) >= 4 and t not in ('result', 'cname')}

            def score(role, param):
                if not role or not param:
                    return 0
                p = param.lower().replace('_', '')
                return sum(len(t) for t in toks(role) if t in p)
            roles = []
            for a in cargs:
                m2 = re.fullmatch(r'\x00(\d+)\x00', a)
                e = phs[int(m2.group(1))] if m2 else None
                roles.append(e.id if isinstance(e, ast.Name) else e.attr if isinstance(e, ast.Attribute) else (a if re.fullmatch(r'\w+', a) else None))
            r.inst('pycode-new:roles', sample='__Pyx_PyCode_New(%s) <- %s' % (', '.join(str(p) for p in pn), roles))
            best = []
            for i, role in enumerate(roles):
                sc = [score(role, p) for p in pn]
                best.append(sc.index(max(sc)) if role and max(sc) > 0 and sc.count(max(sc)) == 1 else None)
            for i in range(len(roles)):
                j = best[i]
                if j is not None and j != i and best[j] == i:
                    if i < j:
                        r.violate('ExprNodes.CodeObjectNode.generate_codeobj:__Pyx_PyCode_New:%s<->%s' % (pn[i], pn[j]), EXN, n.lineno,
                                  'the emitted call of __Pyx_PyCode_New passes %s as C parameter %r and %s as %r: the two code-object attributes are exchanged' % (roles[i], pn[i], roles[j], pn[j]))
    # ---- (4) CO_* flags
    func_names = {nm for nm, role in recv_g.items() if role == 'D'}

    def flag_guards(stmts, guards):
        for s in stmts:
            if isinstance(s, ast.If):
                attr = None
                t = s.test
                if isinstance(t, ast.Attribute) and isinstance(t.value, ast.Name) and t.value.id in func_names:
                    attr = t.attr
                yield from flag_guards(s.body, guards + [attr])
                yield from flag_guards(s.orelse, guards)
            elif isinstance(s, ast.Expr) and isinstance(s.value, ast.Call) and isinstance(s.value.func, ast.Attribute) and s.value.func.attr == 'append' \
                    and isinstance(s.value.func.value, ast.Name) and s.value.args and isinstance(s.value.args[0], ast.Constant) and str(s.value.args[0].value).startswith('CO_'):
                yield (s.value.args[0].value, guards[-1] if guards else None, s.lineno)
    seen = 0
    for flag, attr, line in flag_guards(gen.body, []):
        if attr is None:
            continue
        seen += 1
        key = 'flag:%s' % attr
        r.inst(key, sample='%s when func.%s' % (flag, attr))
        if attr in CO_FLAG_OF_ATTR and CO_FLAG_OF_ATTR[attr] != flag:
            r.violate('ExprNodes.CodeObjectNode.generate_codeobj:flag:%s' % attr, EXN, line,
                      'the code flag %s is set when the function has %s; CPython\'s meaning of that parameter kind is %s (inspect.signature derives *args / **kwargs from these flags)' % (
                          flag, attr, CO_FLAG_OF_ATTR[attr]))
    if seen < 4:
        raise AnalysisError('generate_codeobj: only %d guarded CO_* flags found' % seen)
    # ---- (5) co_varnames starts with the arguments
    r.inst('varnames:args-first')
    ok = None
    idefs = _single_assignments(init)
    for n in ast.walk(init):
        if isinstance(n, ast.Assign) and any(isinstance(t, ast.Attribute) and t.attr == 'varnames' for t in n.targets):
            comp = n.value
            if isinstance(comp, ast.ListComp) and len(comp.generators) == 1:
                it = comp.generators[0].iter
                while isinstance(it, ast.BinOp) and isinstance(it.op, ast.Add):
                    it = it.left
                src = it
                for _ in range(3):
                    if isinstance(src, ast.Name) and len(idefs.get(src.id, [])) == 1:
                        src = idefs[src.id][0]
                if isinstance(src, ast.Call) and isinstance(src.func, ast.Name) and src.func.id in ('list', 'tuple') and src.args:
                    src = src.args[0]
                ok = isinstance(src, ast.Attribute) and src.attr == 'args'
    if ok is None:
        raise AnalysisError('CodeObjectNode.__init__: the construction of self.varnames was not recognised')
    if not ok:
        r.violate('ExprNodes.CodeObjectNode.__init__:varnames-order', EXN, init.lineno,
                  'co_varnames does not start with the function arguments (def_node.args): inspect.signature takes the parameter names from the first co_argcount entries')
    return r


def _role_of(expr, cls_ci, ix, depth=0):
    """attribute / method name that carries the meaning of an emitted argument expression (follows one level of self.helper())."""
    if isinstance(expr, ast.Call) and isinstance(expr.func, ast.Attribute):
        if isinstance(expr.func.value, ast.Name) and expr.func.value.id == 'self' and depth < 2:
            m = ix.find_method(cls_ci, expr.func.attr)
            if m is not None:
                rets = [n.value for n in ast.walk(m[1]) if isinstance(n, ast.Return) and n.value is not None]
                if len(rets) == 1:
                    attrs = [a.attr for a in ast.walk(rets[0]) if isinstance(a, ast.Attribute) and isinstance(a.value, ast.Name) and a.value.id == 'self']
                    if len(attrs) == 1:
                        return attrs[0]
            return expr.func.attr
        return _role_of(expr.func.value, cls_ci, ix, depth + 1)
    if isinstance(expr, ast.Attribute):
        return expr.attr
    if isinstance(expr, ast.Name):
        return expr.id
    return None


def rule_funcattrs(ctx):
    r = Rule('C25-FUNCATTR', 'function attributes: the CyFunction constructor receives qualname / module / code in the parameters of that name; keyword-only defaults flow into the '
             'dict, positional defaults into the tuple; the defaults getter result is unpacked by the C side in the same order; getset rows pair the getter and setter of their '
             'attribute; the C setters used at function creation write distinct fields', floor=34)
    ix, cat = ctx.index, ctx.cat
    pcf = ix.cls('ExprNodes', 'PyCFunctionNode')
    # ---- (1) constructor argument roles
    gen = ix.find_method(pcf, 'generate_cyfunction_code')
    if gen is None:
        raise AnalysisError('PyCFunctionNode.generate_cyfunction_code vanished')
    gen = gen[1]
    ctor_names = set()
    for n in ast.walk(gen):
        if isinstance(n, ast.Assign) and any(isinstance(t, ast.Name) and t.id == 'constructor' for t in n.targets) and isinstance(n.value, ast.Constant):
            ctor_names.add(n.value.value)
    call = None
    for n in ast.walk(gen):
        if isinstance(n, ast.BinOp) and isinstance(n.op, ast.Mod) and isinstance(n.left, ast.Constant) and isinstance(n.left.value, str) and isinstance(n.right, ast.Tuple):
            mo = re.search(r'%s\s*=\s*%s\(([^)]*)\)', n.left.value)
            if mo and any(isinstance(e, ast.Name) and e.id == 'constructor' for e in n.right.elts):
                call = (n, mo.group(1))
    if call is None or not ctor_names:
        raise AnalysisError('generate_cyfunction_code: the emitted constructor call `%s = %s(...)` was not found')
    n, argtext = call
    nargs = argtext.count('%s')
    argexprs = n.right.elts[2:2 + nargs]
    roles = [_role_of(e, pcf, ix) for e in argexprs]
    for cname in sorted(ctor_names):
        decls = [d for d in cat.lookup(cname) if d.params and len(d.params) == nargs]
        if not decls:
            raise AnalysisError('constructor %s with %d parameters not found in the utility catalogue' % (cname, nargs))
        pn = decls[0].param_names()
        key = 'ctor:%s' % cname
        r.inst(key, sample='%s(%s) <- %s' % (cname, ', '.join(str(p) for p in pn), roles))

        def fits(role, param):
            if not role or not param:
                return False
            a, b = role.lower().replace('_', ''), param.lower().replace('_', '')
            return a == b or (len(b) >= 4 and b in a) or (len(a) >= 4 and a in b)
        exact = lambda role, param: bool(role and param) and role.lower().replace('_', '') == param.lower().replace('_', '')
        for i in range(nargs):
            for j in range(nargs):
                # an attribute named exactly like another parameter, passed where a parameter of a different name is expected, while that other
                # parameter receives it as well (e.g. self.qualname for both `qualname` and `module`)
                if i != j and exact(roles[i], pn[j]) and exact(roles[j], pn[j]) and not fits(roles[i], pn[i]):
                    r.violate('ExprNodes.PyCFunctionNode.generate_cyfunction_code:%s:%s' % (cname, pn[i]), EXN, n.lineno,
                              'the emitted call of %s passes self.%s as C parameter %r (and again as %r): the function attribute behind %r is filled with the wrong value' % (
                                  cname, roles[i], pn[i], pn[j], pn[i]))
        for i in range(nargs):
            for j in range(i + 1, nargs):
                if fits(roles[i], pn[j]) and fits(roles[j], pn[i]) and not fits(roles[i], pn[i]) and not fits(roles[j], pn[j]):
                    r.violate('ExprNodes.PyCFunctionNode.generate_cyfunction_code:%s:%s<->%s' % (cname, pn[i], pn[j]), EXN, n.lineno,
                              'the emitted call of %s passes self.%s as C parameter %r and self.%s as %r: the two attributes of the function object are exchanged' % (
                                  cname, roles[i], pn[i], roles[j], pn[j]))
    # ---- (2) routing of defaults by kw_only
    ada = ix.find_method(pcf, 'analyse_default_args')
    if ada is None:
        raise AnalysisError('PyCFunctionNode.analyse_default_args vanished')
    ada = ada[1]
    routed = {}
    for s in ast.walk(ada):
        if isinstance(s, ast.If):
            t, neg = s.test, False
            if isinstance(t, ast.UnaryOp) and isinstance(t.op, ast.Not):
                t, neg = t.operand, True
            if isinstance(t, ast.Attribute) and t.attr == 'kw_only':
                for branch, kw in ((s.body, not neg), (s.orelse, neg)):
                    for b in branch:
                        for c in ast.walk(b):
                            if isinstance(c, ast.Call) and isinstance(c.func, ast.Attribute) and c.func.attr == 'append' and isinstance(c.func.value, ast.Name):
                                routed[c.func.value.id] = kw
    if len(routed) < 2:
        raise AnalysisError('analyse_default_args: the kw_only routing of default arguments was not found')
    for lst, kw in sorted(routed.items()):
        users = set()
        for c in ast.walk(ada):
            if isinstance(c, ast.Call):
                nm = c.func.attr if isinstance(c.func, ast.Attribute) else c.func.id if isinstance(c.func, ast.Name) else None
                if nm and re.search(r'Tuple|Dict', nm) and not nm.startswith('DictItem'):
                    direct = [a for a in list(c.args) + [k.value for k in c.keywords]]
                    uses = any(isinstance(a, ast.Name) and a.id == lst for a in direct) or \
                        any(isinstance(g.iter, ast.Name) and g.iter.id == lst for a in direct for x in ast.walk(a) if isinstance(x, ast.comprehension) for g in [x])
                    if uses:
                        users.add(nm)
        key = 'defaults:%s' % ('kw_only' if kw else 'positional')
        r.inst(key, sample='%s defaults collected in %s, consumed by %s' % ('keyword-only' if kw else 'positional', lst, sorted(users)))
        wrong = [u for u in users if ('Dict' in u) != kw]
        if wrong:
            r.violate('ExprNodes.PyCFunctionNode.analyse_default_args:routing:%s' % ('kw_only' if kw else 'positional'), EXN, ada.lineno,
                      'the defaults of %s arguments are collected in %r, which is turned into %s: __defaults__ must be the tuple of positional defaults and __kwdefaults__ the dict of '
                      'keyword-only defaults' % ('keyword-only' if kw else 'positional', lst, sorted(wrong)))
    # ---- (3) defaults getter result order  <->  __Pyx_CyFunction_init_defaults
    getter_order = None
    for c in ast.walk(ada):
        if isinstance(c, ast.Call) and (getattr(c.func, 'attr', None) or getattr(c.func, 'id', None)) == 'ReturnStatNode':
            for k in c.keywords:
                if k.arg == 'value' and isinstance(k.value, ast.Call):
                    for k2 in k.value.keywords:
                        if k2.arg == 'args' and isinstance(k2.value, ast.List) and all(isinstance(e, ast.Name) for e in k2.value.elts):
                            getter_order = [e.id for e in k2.value.elts]
    idecl = [d for d in cat.decls.get('__Pyx_CyFunction_init_defaults', []) if d.kind == 'func' and d.body]
    if getter_order is None or not idecl:
        raise AnalysisError('defaults getter (ReturnStatNode(value=TupleNode(args=[...]))) or __Pyx_CyFunction_init_defaults not found')
    for mo in re.finditer(r'op->(\w+)\s*=\s*\w+\s*\(\s*res\s*,\s*(\d+)\s*\)', idecl[0].body):
        fld, idx = mo.group(1), int(mo.group(2))
        key = 'init_defaults:%s:%d' % (fld, idx)
        r.inst(key, sample='op->%s = item %d of the getter result %s' % (fld, idx, getter_order))
        if idx < len(getter_order) and fld in getter_order and getter_order[idx] != fld:
            r.violate('CythonFunction.__Pyx_CyFunction_init_defaults:%s' % fld, CFC, idecl[0].line,
                      '__Pyx_CyFunction_init_defaults stores item %d of the defaults getter result in op->%s, but the getter returns (%s): __defaults__ and __kwdefaults__ are exchanged' % (
                          idx, fld, ', '.join(getter_order)))
    # ---- (4) getset table
    src = ctx.read(CFC)
    tab = re.search(r'__pyx_CyFunction_getsets\[\]\s*=\s*\{(.*?)\n\};', src, re.S)
    if not tab:
        raise AnalysisError('__pyx_CyFunction_getsets[] not found')
    rows = re.findall(r'\{\s*"(\w+)"\s*,\s*(?:\(getter\))?\s*(\w+)\s*,\s*(?:\(setter\))?\s*(\w+)', re.sub(r'//[^\n]*', '', tab.group(1)))
    if len(rows) < 15:
        raise AnalysisError('only %d rows parsed from __pyx_CyFunction_getsets' % len(rows))
    norm = lambda s: re.sub(r'^func', '', s.strip('_').replace('_', '').lower())
    line = src[:tab.start()].count('\n') + 1
    for name, g, s in rows:
        key = 'getset:%s' % name
        r.inst(key, sample='%s: %s / %s' % (name, g, s))
        mg = re.match(r'__Pyx_CyFunction_get_(\w+)$', g)
        ms = re.match(r'__Pyx_CyFunction_set_(\w+)$', s)
        if mg and norm(mg.group(1)) != norm(name):
            r.violate('CythonFunction.__pyx_CyFunction_getsets:%s:getter' % name, CFC, line,
                      'the getset entry %r uses the getter %s: reading f.%s returns the value of a different attribute' % (name, g, name))
        if mg and ms and norm(mg.group(1)) != norm(ms.group(1)):
            r.violate('CythonFunction.__pyx_CyFunction_getsets:%s:setter' % name, CFC, line,
                      'the getset entry %r pairs the getter %s with the setter %s of a different attribute' % (name, g, s))
    # getter/setter pairs operate on the same struct field
    pairs = {(g, s) for _, g, s in rows if re.match(r'__Pyx_CyFunction_set_', s)}
    for g, s in sorted(pairs):
        gd = [d for d in cat.decls.get(g, []) if d.kind == 'func' and d.body]
        sd = [d for d in cat.decls.get(s, []) if d.kind == 'func' and d.body]
        if not gd or not sd:
            continue
        gbody = gd[0].body
        ml = re.search(r'(%s_locked)\s*\(' % re.escape(g), gbody)
        if ml:
            ld = [d for d in cat.decls.get(ml.group(1), []) if d.kind == 'func' and d.body]
            if ld:
                gbody = ld[0].body
        read = set(re.findall(r'(?:result\s*=|return)\s*op->(\w+)', gbody)) | set(re.findall(r'Py_INCREF\(op->(\w+)\)', gbody))
        written = set(re.findall(r'__Pyx_Py_XDECREF_SET\(\s*op->(\w+)', sd[0].body)) | set(re.findall(r'op->(\w+)\s*=\s*value', sd[0].body))
        if not read or not written:
            continue
        key = 'field:%s' % g
        r.inst(key, sample='%s reads %s, %s writes %s' % (g, sorted(read), s, sorted(written)))
        if not (read & written):
            r.violate('CythonFunction.%s:field' % s, CFC, sd[0].line, '%s writes op->%s but %s returns op->%s: assigning the attribute has no effect on what is read back' % (
                s, '/'.join(sorted(written)), g, '/'.join(sorted(read))))
    # lazily initialised attributes: func_X is filled from the ml_X member of the method definition
    for g in sorted({g for _, g, _ in rows}):
        gd = [d for d in cat.decls.get(g + '_locked', []) + cat.decls.get(g, []) if d.kind == 'func' and d.body]
        for d in gd:
            body = d.body
            fields = set(re.findall(r'op->func_(\w+)\s*=\s*Py\w+\(\s*(\w+)\s*\)', body))
            for fld, var in sorted(fields):
                src = set(re.findall(r'\b%s\s*=\s*[^;]*?->\s*ml_(\w+)\s*;' % re.escape(var), body))
                if not src:
                    continue
                key = 'lazy:%s' % fld
                r.inst(key, sample='%s: op->func_%s initialised from ml_%s' % (d.name, fld, '/'.join(sorted(src))))
                if src != {fld}:
                    r.violate('CythonFunction.%s:lazy-init' % d.name, CFC, d.line,
                              '%s initialises op->func_%s from the ml_%s member of the method definition: f.__%s__ shows the %s' % (d.name, fld, '/'.join(sorted(src)), fld, '/'.join(sorted(src))))
    # creation-time setters write distinct fields
    wr = {}
    for nm in ('__Pyx_CyFunction_SetDefaultsTuple', '__Pyx_CyFunction_SetDefaultsKwDict', '__Pyx_CyFunction_SetAnnotationsDict'):
        d = [x for x in cat.decls.get(nm, []) if x.kind == 'func' and x.body]
        if not d:
            raise AnalysisError('%s not found' % nm)
        f = re.findall(r'\bm->(\w+)\s*=', d[0].body)
        r.inst('setter:%s' % nm, sample='%s writes %s' % (nm, f))
        for x in f:
            wr.setdefault(x, []).append((nm, d[0].line))
    for fld, lst in sorted(wr.items()):
        if len(lst) > 1:
            r.violate('CythonFunction.%s:field' % lst[-1][0], CFC, lst[-1][1], 'the creation-time setters %s all store into op->%s: one of __defaults__ / __kwdefaults__ / __annotations__ overwrites the other' % (
                ' and '.join(n for n, _ in lst), fld))
    return r
