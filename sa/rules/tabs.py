"""TAB rule family: agreements between writer/reader, Python/C and repo/reference tables (compared as maps/sets)."""
import ast, re

from ..core import Rule, AnalysisError, node_src
from ..engine import tables
from ..engine.pyindex import walk_no_nested


def rule_compression_algorithms(ctx):
    r = Rule('C12-ALG', 'string-table compression: algorithm numbers of Code.compression_algorithms agree with the module selection chain in __Pyx_DecompressString and with the special cases of the generator', floor=4)
    rel = 'Cython/Compiler/Code.py'
    tree = ctx.parse(rel)
    tab = tables.module_assign(tree, 'compression_algorithms')
    if not isinstance(tab, ast.List):
        raise AnalysisError('Code.compression_algorithms not found')
    algos = {}
    for e in tab.elts:
        if isinstance(e, ast.Tuple) and len(e.elts) >= 2:
            n, name = tables.literal(e.elts[0]), tables.literal(e.elts[1])
            if isinstance(n, int) and isinstance(name, str):
                if n in algos:
                    r.violate('Code.compression_algorithms:dup:%d' % n, rel, e.lineno, 'algorithm number %d used twice' % n)
                algos[n] = name
    if len(algos) < 3:
        raise AnalysisError('compression_algorithms has %d rows' % len(algos))
    dec = [d for d in ctx.cat.decls.get('__Pyx_DecompressString', []) if d.kind == 'func']
    if not dec:
        raise AnalysisError('__Pyx_DecompressString not found')
    body = dec[0].body
    m = re.search(r'module_name\s*=\s*([^;]+);', body)
    if not m:
        raise AnalysisError('module selection chain not found in __Pyx_DecompressString')
    chain = m.group(1)
    cmap = {int(n): s for n, s in re.findall(r'algo\s*==\s*(\d+)\s*\?\s*"([^"]+)"', chain)}
    dflt = re.search(r':\s*"([^"]+)"\s*$', chain.strip())
    dflt = dflt.group(1) if dflt else None
    own = {n: nm for n, nm in algos.items() if nm == 'lzss'}
    for n, nm in sorted(algos.items()):
        key = 'compression:%d:%s' % (n, nm)
        if nm == 'lzss':
            r.inst(key, sample='%d -> lzss (own decompressor)' % n)
            continue
        target = cmap.get(n, dflt)
        r.inst(key, sample='%d -> %s ; C imports %r' % (n, nm, target))
        if target is None or target.split('.')[-1] != nm:
            r.violate(key, 'Cython/Utility/StringTools.c', dec[0].line,
                      'algorithm %d is %r in Code.compression_algorithms but __Pyx_DecompressString imports %r for it: the module string table is decompressed with the wrong codec' % (n, nm, target))
    for n, s in cmap.items():
        if n not in algos:
            r.violate('compression:C-only:%d' % n, 'Cython/Utility/StringTools.c', dec[0].line, '__Pyx_DecompressString handles algorithm %d (%s) which Code.py never emits' % (n, s))
    # special cases in the generator refer to existing rows
    fn = None
    for n in ast.walk(tree):
        if isinstance(n, ast.FunctionDef) and n.name == 'generate_pystring_constants':
            fn = n
    if fn is None:
        raise AnalysisError('generate_pystring_constants vanished')
    for n in walk_no_nested(fn):
        if isinstance(n, ast.Compare) and isinstance(n.left, ast.Name) and n.left.id in ('algo_number', 'algo_name') and isinstance(n.comparators[0], ast.Constant):
            v = n.comparators[0].value
            key = 'generator:%s==%r' % (n.left.id, v)
            r.inst(key, sample=key)
            if n.left.id == 'algo_number' and v not in algos:
                r.violate(key, rel, n.lineno, 'generator special-cases algorithm number %r, which is not in compression_algorithms' % v)
            if n.left.id == 'algo_number' and v in algos and algos[v] != 'lzss':
                r.violate(key, rel, n.lineno, 'generator treats algorithm number %r as the default LZSS compression but the table maps it to %r' % (v, algos[v]))
            if n.left.id == 'algo_name' and v not in algos.values():
                r.violate(key, rel, n.lineno, 'generator special-cases algorithm name %r, which is not in compression_algorithms' % v)
    return r
