"""KEY rule family: cache-key completeness (C48), dependency-merge discipline (C46/C48)."""
import ast, re

from ..core import Rule, AnalysisError, node_src
from ..engine import pyflow, tables
from ..engine.pyindex import walk_no_nested


_OPAQUE = set()


def names_in(node):
    """Names an expression reads.  For calls to functions listed in _OPAQUE (type mappers such as get_type(value, ctx))
    only the first argument counts: the result identifies the value's type, not the context it was looked up in."""
    if not _OPAQUE:
        return {n.id for n in ast.walk(node) if isinstance(n, ast.Name)}
    out = set()
    todo = [node]
    while todo:
        n = todo.pop()
        if isinstance(n, ast.Call) and isinstance(n.func, ast.Name) and n.func.id in _OPAQUE:
            todo.extend(n.args[:1])
            continue
        if isinstance(n, ast.Name):
            out.add(n.id)
        todo.extend(ast.iter_child_nodes(n))
    return out


def param_closure(fn):
    """Flow-insensitive def-use closure: local name -> set of function parameters it (transitively) depends on.
    Subscript/attribute stores and mutating method calls on a name count as (weak) definitions of that name."""
    params = {a.arg for a in fn.args.args + fn.args.kwonlyargs + fn.args.posonlyargs}
    if fn.args.vararg:
        params.add(fn.args.vararg.arg)
    if fn.args.kwarg:
        params.add(fn.args.kwarg.arg)
    deps = {p: {p} for p in params}
    edges = []   # (target name, set of source names)
    # weak updates (x[k] = v, x.a = v, x.append(v)) only define *local* names; module globals such as caches are
    # not tracked (they would connect unrelated calls flow-insensitively)
    local_names = set(params)
    for n in walk_no_nested(fn):
        if isinstance(n, ast.Name) and isinstance(n.ctx, ast.Store):
            local_names.add(n.id)
    for n in walk_no_nested(fn):
        if isinstance(n, ast.Assign):
            src = names_in(n.value)
            for t in n.targets:
                for x in ast.walk(t):
                    if isinstance(x, ast.Name) and isinstance(x.ctx, ast.Store):
                        edges.append((x.id, src))
                    elif isinstance(x, (ast.Subscript, ast.Attribute)) and isinstance(x.ctx, ast.Store):
                        base = x
                        while isinstance(base, (ast.Subscript, ast.Attribute)):
                            base = base.value
                        if isinstance(base, ast.Name):
                            edges.append((base.id, src | names_in(x)))
        elif isinstance(n, ast.AugAssign) and isinstance(n.target, ast.Name):
            edges.append((n.target.id, names_in(n.value) | {n.target.id}))
        elif isinstance(n, (ast.For, ast.comprehension)):
            src = names_in(n.iter)
            for x in ast.walk(n.target):
                if isinstance(x, ast.Name):
                    edges.append((x.id, src))
        elif isinstance(n, ast.Call) and isinstance(n.func, ast.Attribute) and isinstance(n.func.value, ast.Name) and \
                n.func.attr in ('append', 'extend', 'update', 'add', 'insert', 'setdefault'):
            src = set()
            for a in n.args:
                src |= names_in(a)
            edges.append((n.func.value.id, src))
        elif isinstance(n, ast.Call) and isinstance(n.func, ast.Name) and n.func.id.startswith('_populate'):
            # helper that fills its first argument from the others
            if n.args and isinstance(n.args[0], ast.Name):
                src = set()
                for a in n.args[1:]:
                    src |= names_in(a)
                edges.append((n.args[0].id, src))
        elif isinstance(n, ast.withitem) and n.optional_vars is not None:
            for x in ast.walk(n.optional_vars):
                if isinstance(x, ast.Name):
                    edges.append((x.id, names_in(n.context_expr)))
    edges = [(t, s2) for t, s2 in edges if t in local_names]
    changed = True
    while changed:
        changed = False
        for tgt, src in edges:
            cur = deps.setdefault(tgt, set())
            add = set()
            for s in src:
                add |= deps.get(s, set())
            if not add <= cur:
                cur |= add
                changed = True
    return deps, params


def expr_params(expr, deps):
    out = set()
    for n in names_in(expr):
        out |= deps.get(n, set())
    return out


# ------------------------------------------------------------------------------------ K1
OUTPUT_NEUTRAL = {
    # option -> why excluding it from the fingerprint cannot make a cache hit return different output
    'show_version': 'reporting only', 'errors_to_stderr': 'reporting only', 'verbose': 'reporting only', 'quiet': 'reporting only',
    'output_file': 'name of the output, not its content', 'output_dir': 'location of the output, not its content',
    'depfile': 'build-system dependency file, separate output', 'timestamps': 'the cache is content based',
    'cache': 'the cache location itself', 'include_path': 'search path; the contents of every file found are hashed as dependencies',
    'working_path': 'search path; contents of files found are hashed', 'create_extension': 'callback already applied to the metadata that is hashed',
    'build_dir': 'temporary directory',
}


def rule_K1(ctx):
    r = Rule('K1', 'every compilation option is classified by CompilationOptions.get_fingerprint as included (or rejected), or is excluded AND output-neutral; unknown options default to included', floor=30)
    tree = ctx.parse('Cython/Compiler/Options.py')
    rel = 'Cython/Compiler/Options.py'
    dflt = tables.module_assign(tree, 'default_options')
    if not (isinstance(dflt, ast.Call) and isinstance(dflt.func, ast.Name) and dflt.func.id == 'dict'):
        raise AnalysisError('Options.default_options is not a dict(...) call any more')
    keys = [k.arg for k in dflt.keywords if k.arg]
    fn = tables.find_function(tree, 'get_fingerprint', 'CompilationOptions')
    # the classification chain
    loop = None
    for n in walk_no_nested(fn):
        if isinstance(n, ast.For) and isinstance(n.iter, ast.Call) and 'items' in ast.unparse(n.iter) and '__dict__' in ast.unparse(n.iter):
            loop = n
    if loop is None:
        raise AnalysisError('get_fingerprint no longer iterates over self.__dict__.items()')
    keyvar = loop.target.elts[0].id
    valvar = loop.target.elts[1].id
    classes = {}
    default = None

    def classify(body):
        kinds = set()
        for s in body:
            for x in ast.walk(s):
                if isinstance(x, ast.Continue):
                    kinds.add('excluded')
                if isinstance(x, ast.Raise):
                    kinds.add('rejected')
                if isinstance(x, ast.Assign) and isinstance(x.targets[0], ast.Subscript) and isinstance(x.targets[0].slice, ast.Name) \
                        and x.targets[0].slice.id == keyvar and any(isinstance(v, ast.Name) and v.id == valvar for v in ast.walk(x.value)):
                    kinds.add('included')
        if 'included' in kinds:
            return 'included'
        if 'rejected' in kinds:
            return 'rejected'
        if 'excluded' in kinds:
            return 'excluded'
        return 'dropped'
    node = loop.body[0] if loop.body and isinstance(loop.body[0], ast.If) else None
    if node is None:
        raise AnalysisError('get_fingerprint classification chain not found')
    while node is not None:
        t = node.test
        ks = None
        if isinstance(t, ast.Compare) and isinstance(t.left, ast.Name) and t.left.id == keyvar and isinstance(t.ops[0], (ast.In, ast.Eq)):
            v = tables.literal(t.comparators[0])
            ks = [v] if isinstance(v, str) else list(v) if isinstance(v, (list, tuple, set)) else None
        if ks is None:
            raise AnalysisError('unrecognised test in get_fingerprint chain: %s' % node_src(t))
        kind = classify(node.body)
        for k in ks:
            classes[k] = (kind, node.lineno)
        if len(node.orelse) == 1 and isinstance(node.orelse[0], ast.If):
            node = node.orelse[0]
        else:
            default = classify(node.orelse) if node.orelse else 'dropped'
            node = None
    r.inst('get_fingerprint:else', sample='unlisted options -> %s' % default)
    if default != 'included':
        r.violate('Options.CompilationOptions.get_fingerprint:else', rel, fn.lineno,
                  'options not named in the classification chain are %s instead of included: a new output-affecting option would not invalidate the cache' % default)
    # data must be returned
    for k in sorted(set(keys) | set(classes)):
        kind, line = classes.get(k, (default, fn.lineno))
        r.inst('option:' + k, sample='%s -> %s' % (k, kind))
        if kind in ('excluded', 'dropped') and k not in OUTPUT_NEUTRAL:
            r.violate('Options.CompilationOptions.get_fingerprint:%s' % k, rel, line,
                      'option %r is %s from the cache fingerprint but is not output-neutral (it influences the generated C): '
                      'two compilations that differ only in %r share one cache entry and the second gets the stale result' % (k, kind, k))
    # the returned value is built from `data`
    rets = sorted([n for n in walk_no_nested(fn) if isinstance(n, ast.Return) and n.value is not None], key=lambda n: n.lineno)
    r.inst('get_fingerprint:return')
    if not rets or not any(isinstance(x, ast.Name) and x.id == 'data' for x in ast.walk(rets[-1].value)):
        r.violate('Options.CompilationOptions.get_fingerprint:return', rel, fn.lineno, 'get_fingerprint does not return a digest of the collected data')
    return r


# ------------------------------------------------------------------------------------ K2
def rule_K2(ctx):
    r = Rule('K2', 'every parameter of cython_inline that flows into the cythonize()/Extension() build also flows into every _inline_key(); the key text is the unstripped source', floor=4)
    rel = 'Cython/Build/Inline.py'
    tree = ctx.parse(rel)
    fn = tables.find_function(tree, 'cython_inline')
    keyfn = tables.find_function(tree, '_inline_key')
    _OPAQUE.add('get_type')
    try:
        deps, params = param_closure(fn)
    finally:
        _OPAQUE.clear()
    NEUTRAL = {'quiet': 'reporting only', 'force': 'forces a rebuild, never a hit', 'lib_dir': 'the cache directory itself',
               'locals': 'only supplies values of unbound names, whose types are in the key', 'globals': 'same as locals',
               'get_type': 'type mapper; its results (arg_sigs) are in the key', 'kwds': 'values; their types/names are in the key as arg_sigs'}
    sinks = [n for n in walk_no_nested(fn) if isinstance(n, ast.Call) and isinstance(n.func, ast.Name) and n.func.id in ('cythonize', 'Extension')]
    keys = [n for n in walk_no_nested(fn) if isinstance(n, ast.Call) and isinstance(n.func, ast.Name) and n.func.id == '_inline_key']
    if not sinks or not keys:
        raise AnalysisError('cython_inline: cythonize()/Extension()/_inline_key() call sites not found')
    sink_params = set()
    for s in sinks:
        for a in list(s.args) + [k.value for k in s.keywords]:
            sink_params |= expr_params(a, deps)
    # the key function must hash all of its parameters
    kp = [a.arg for a in keyfn.args.args]
    used = names_in(keyfn)
    for p in kp:
        r.inst('_inline_key:param:' + p, sample='_inline_key hashes parameter %s' % p)
        if sum(1 for n in ast.walk(keyfn) if isinstance(n, ast.Name) and n.id == p) < 1:
            r.violate('Inline._inline_key:unused:%s' % p, rel, keyfn.lineno, '_inline_key ignores its parameter %r' % p)
    for kc in keys:
        kparams = set()
        for a in list(kc.args) + [k.value for k in kc.keywords]:
            kparams |= expr_params(a, deps)
        for p in sorted(sink_params - set(NEUTRAL)):
            key = 'Inline.cython_inline:%s@key%d' % (p, keys.index(kc))
            r.inst(key, sample='parameter %s flows into the build; in key: %s' % (p, p in kparams))
            if p not in kparams:
                r.violate('Inline.cython_inline:%s' % p, rel, kc.lineno,
                          'parameter %r of cython_inline flows into the cythonize()/Extension() build but not into _inline_key(%s): '
                          'calls differing only in %r reuse the cached module' % (p, ', '.join(node_src(a, 30) for a in kc.args), p))
    # dependency digest: "a change to a dependency causes a cache miss" needs the key to depend on the contents of the
    # files the snippet cimports/includes, i.e. on the result of some dependency-hashing call
    r.inst('Inline.cython_inline:dependency-digest', sample='does any _inline_key() argument derive from a dependency/fingerprint/file-hash call?')
    digest_calls = [n for n in walk_no_nested(fn) if isinstance(n, ast.Call) and re.search(r'(?i)file_hash|fingerprint|all_dependencies|dependenc', ast.unparse(n.func))]
    has_digest = False
    for kc in keys:
        knames = set()
        for a in list(kc.args) + [k.value for k in kc.keywords]:
            knames |= names_in(a)
        for dc in digest_calls:
            for n in walk_no_nested(fn):
                if isinstance(n, ast.Assign) and n.value is dc and any(isinstance(t, ast.Name) and t.id in knames for t in n.targets):
                    has_digest = True
            if any(dc is x for a in kc.args for x in ast.walk(a)):
                has_digest = True
    if not has_digest:
        r.violate('Inline.cython_inline:dependency-digest', rel, keys[-1].lineno,
                  'the inline module cache key contains no digest of the files the snippet depends on (cimported .pxd, included .pxi): '
                  'after editing such a file cython.inline() keeps returning the module built from the old contents')
    # raw-source rule: the text handed to _inline_key is the code parameter itself (or an alias taken before any transformation)
    src_param = fn.args.args[0].arg

    def tr(n, state):
        s = set(state)
        if isinstance(n, ast.Assign):
            raw_val = isinstance(n.value, ast.Name) and ('raw', n.value.id) in s
            for t in n.targets:
                for x in ast.walk(t):
                    if isinstance(x, ast.Name) and isinstance(x.ctx, ast.Store):
                        s.discard(('raw', x.id))
                        if raw_val and isinstance(t, ast.Name):
                            s.add(('raw', x.id))
        for c in pyflow.calls_in(n):
            if isinstance(c.func, ast.Name) and c.func.id == '_inline_key' and c.args:
                a = c.args[0]
                if not (isinstance(a, ast.Name) and ('raw', a.id) in s):
                    s.add(('BADKEY', c.lineno, node_src(a, 40)))
        return frozenset(s)
    o = pyflow.Flow(tr, correlate=False).run(fn, init={('raw', src_param)})
    bad = set()
    for st in o.normal | o.returns | o.raises:
        bad |= {f for f in st if f[0] == 'BADKEY'}
    r.inst('Inline.cython_inline:raw-source', sample='key text must be the unstripped %r' % src_param)
    for b in sorted(bad):
        r.violate('Inline.cython_inline:rawkey', rel, b[1],
                  '_inline_key is given %r, which on some path is not the original source text but a transformed value '
                  '(e.g. literal-stripped code): snippets differing only inside string literals/comments share a cache entry' % b[2])
    pc = ast.parse("def f(code):\n    orig = code\n    code, lit = strip(code)\n    k = _inline_key(code, 1, 2)\n").body[0]
    o = pyflow.Flow(tr, correlate=False).run(pc, init={('raw', 'code')})
    r.positive_control(any(f[0] == 'BADKEY' for st in o.normal for f in st), 'stripped code used as key')
    return r


def rule_fingerprint_sinks(ctx):
    r = Rule('K1b', 'Cache.transitive_fingerprint feeds the version, the source, every non-C dependency, the flags and the options into the hash on the success path', floor=5)
    rel = 'Cython/Build/Cache.py'
    tree = ctx.parse(rel)
    fn = tables.find_function(tree, 'transitive_fingerprint', 'Cache')
    deps, params = param_closure(fn)
    fed = set()
    hv = None
    for n in walk_no_nested(fn):
        if isinstance(n, ast.Assign) and isinstance(n.value, ast.Call) and 'sha' in ast.unparse(n.value.func) and isinstance(n.targets[0], ast.Name):
            hv = n.targets[0].id
            fed |= names_in(n.value)
    if hv is None:
        raise AnalysisError('transitive_fingerprint: hash object not found')
    for n in walk_no_nested(fn):
        if isinstance(n, ast.Call) and isinstance(n.func, ast.Attribute) and n.func.attr == 'update' and isinstance(n.func.value, ast.Name) and n.func.value.id == hv:
            for a in n.args:
                fed |= expr_params(a, deps) | names_in(a)
    for p in ['__version__'] + [a.arg for a in fn.args.args if a.arg != 'self']:
        r.inst('transitive_fingerprint:' + p, sample='%s -> hash' % p)
        if p not in fed:
            r.violate('Cache.transitive_fingerprint:%s' % p, rel, fn.lineno, '%r is not fed into the fingerprint hash: changes to it do not invalidate cached results' % p)
    # the digest returned is that of the hash object
    rets = [n for n in walk_no_nested(fn) if isinstance(n, ast.Return) and n.value is not None and not (isinstance(n.value, ast.Constant))]
    if not any(hv in names_in(x.value) for x in rets):
        r.violate('Cache.transitive_fingerprint:return', rel, fn.lineno, 'the returned fingerprint is not the digest of the hash object')
    # dependency filter: only C sources/headers may be skipped
    for n in walk_no_nested(fn):
        if isinstance(n, ast.If) and isinstance(n.test, ast.Compare) and isinstance(n.test.ops[0], ast.NotIn):
            v = tables.literal(n.test.comparators[0])
            r.inst('transitive_fingerprint:skip-filter', sample='dependencies skipped: %r' % (v,))
            if v is not None and not set(v) <= {'.c', '.cpp', '.h', '.hpp', '.cxx', '.hxx', '.cc'}:
                r.violate('Cache.transitive_fingerprint:skip-filter', rel, n.lineno, 'dependencies with extensions %r are skipped from the fingerprint; only C/C++ sources and headers are content-neutral for the generated C' % (sorted(set(v) - {'.c', '.cpp', '.h'}),))
    return r


def rule_seen_guard(ctx, rid='DEP1'):
    r = Rule(rid, 'DependencyTree.transitive_merge_helper memoises a node\'s merged dependency set only when no cimport cycle is still open (loop is None); the merge used for all_dependencies does not mutate cached sets', floor=3)
    rel = 'Cython/Build/Dependencies.py'
    tree = ctx.parse(rel)
    fn = tables.find_function(tree, 'transitive_merge_helper', 'DependencyTree')
    memo_param = None
    for n in sorted(walk_no_nested(fn), key=lambda x: getattr(x, 'lineno', 0)):
        if isinstance(n, ast.If) and isinstance(n.test, ast.Compare) and isinstance(n.test.ops[0], ast.In) and isinstance(n.test.comparators[0], ast.Name) \
                and n.body and isinstance(n.body[0], ast.Return):
            memo_param = n.test.comparators[0].id
            break
    if memo_param is None:
        raise AnalysisError('transitive_merge_helper: memo lookup not found')
    # loop variable: second element of the returned tuple
    loopvar = None
    for n in sorted(walk_no_nested(fn), key=lambda x: getattr(x, 'lineno', 0)):
        if isinstance(n, ast.Return) and isinstance(n.value, ast.Tuple) and len(n.value.elts) == 2 and isinstance(n.value.elts[1], ast.Name):
            loopvar = n.value.elts[1].id   # the last such return is the regular exit
    if loopvar is None:
        raise AnalysisError('transitive_merge_helper: loop result variable not found')
    bad = []

    def tr(n, state):
        if isinstance(n, ast.Assign) and isinstance(n.targets[0], ast.Subscript) and isinstance(n.targets[0].value, ast.Name) and n.targets[0].value.id == memo_param:
            ok = any(isinstance(f, tuple) and f[0] == '?' and f[2] is True and re.sub(r'\s', '', f[1]) == '%sisNone' % loopvar for f in state)
            if not ok:
                bad.append(n.lineno)
        return state
    pyflow.Flow(tr).run(fn)
    stores = [n for n in walk_no_nested(fn) if isinstance(n, ast.Assign) and isinstance(n.targets[0], ast.Subscript) and
              isinstance(n.targets[0].value, ast.Name) and n.targets[0].value.id == memo_param]
    r.inst('transitive_merge_helper:memo-store', sample='%d store(s) into %s' % (len(stores), memo_param))
    for line in sorted(set(bad)):
        r.violate('Dependencies.DependencyTree.transitive_merge_helper:memo-in-cycle', rel, line,
                  'the merged dependency set is memoised on a path where a dependency cycle may still be open (%s is not known to be None): '
                  'nodes inside a cimport cycle get a partial dependency set, so edits to the missing files neither trigger rebuilds nor change the cache fingerprint' % loopvar)
    if not stores:
        r.info('no memoisation at all (slower, but not unsound)')
    # merge functions passed to transitive_merge for dependency *sets* must be non-mutating
    cls = [n for n in tree.body if isinstance(n, ast.ClassDef) and n.name == 'DependencyTree'][0]
    for m in cls.body:
        if not isinstance(m, ast.FunctionDef):
            continue
        for n in walk_no_nested(m):
            if isinstance(n, ast.Call) and isinstance(n.func, ast.Attribute) and n.func.attr == 'transitive_merge' and len(n.args) >= 3:
                mg = n.args[2]
                key = 'DependencyTree.%s:merge=%s' % (m.name, node_src(mg, 40))
                r.inst(key, sample=key)
                txt = ast.unparse(mg)
                if re.search(r'\b(update|__ior__|extend|add)\b', txt):
                    r.violate('Dependencies.DependencyTree.%s:mutating-merge' % m.name, rel, n.lineno,
                              'transitive_merge is given the mutating merge function %s: the memoised/extracted sets of other nodes are shared and would be modified in place' % txt)
    return r
