"""C02-IDENT: identity shortcuts of the typed number fast paths return an operand only where the operation yields exactly that operand.

`PyNumberBinop` (Optimize.c) is instantiated per (operator, static type of op1, static type of op2) and contains shortcuts of the form

    if (<test on the value of one operand>) return __Pyx_NewRef(opK);

`x - 0 -> x` is an identity of IEEE arithmetic; `x + 0 -> x`, `0 + x -> x` and `0.0 * n -> 0.0` are not (the sign of a zero result depends on
both operands: -0.0 + 0 is 0.0, 0.0 * -3 is -0.0).  The rule expands the template for every instantiation named by the template's own
assertions, finds every `return __Pyx_NewRef(op1|op2)`, resolves the enclosing conditions to predicates over the VALUES of the two operands
(through the accessor calls that define the tested locals), and decides on the complete class partition

    int operand   : negative, zero, positive
    float operand : -inf, negative, -0.0, +0.0, positive, +inf, nan

whether `op1 <op> op2` (Python semantics: int arithmetic for two ints, IEEE double arithmetic otherwise) is the returned operand, with the same
type and the same sign of zero.  +, - and * of doubles are uniform on these classes with respect to that question, so the table is a decision and
not a sample.  Nothing of the repository is executed: the template is expanded by the checker's own Tempita subset, conditions are parsed by
engine/cexpr and evaluated over the class representatives."""
import ast
import math
import re

from ..core import Rule, AnalysisError
from ..engine import cexpr
from ..engine.cguard import guards, _match_brace
from ..engine.cutil import strip_c_comments

REL = 'Cython/Utility/Optimize.c'
INT_DOM = (-3, 0, 3)
FLOAT_DOM = (float('-inf'), -1.5, -0.0, 0.0, 1.5, float('inf'), float('nan'))
INT_ACCESSORS = ('__Pyx_PyLong_CompactValue', 'PyLong_AsDouble', 'PyLong_AsLong', 'PyLong_AsSsize_t', 'PyLong_AsLongLong')
FLOAT_ACCESSORS = ('__Pyx_PyFloat_AS_DOUBLE', 'PyFloat_AS_DOUBLE', 'PyFloat_AsDouble', '__Pyx_PyFloat_AsDouble')
# predicates that restrict neither the sign nor the zero-ness of an operand
NEUTRAL_CALLS = ('__Pyx_PyLong_IsCompact', 'PyLong_CheckExact', 'PyFloat_CheckExact', 'PyLong_Check', 'PyFloat_Check')
PYOPS = {'+': lambda a, b: a + b, '-': lambda a, b: a - b, '*': lambda a, b: a * b, '&': lambda a, b: a & b, '|': lambda a, b: a | b, '^': lambda a, b: a ^ b}


def template_domains(raw):
    """operator list and static type list from the template's own py: blocks (`assert type1 in (...)`, `slot_name = {...}[c_op]`)"""
    types, ops = None, None
    for m in re.finditer(r'\{\{py:(.*?)\}\}', raw, re.S):
        src = m.group(1).strip()
        try:
            tree = ast.parse(src)
        except SyntaxError:
            continue
        for n in ast.walk(tree):
            if isinstance(n, ast.Assert) and isinstance(n.test, ast.Compare) and isinstance(n.test.left, ast.Name) and n.test.left.id in ('type1', 'type2') \
                    and isinstance(n.test.ops[0], ast.In) and isinstance(n.test.comparators[0], (ast.Tuple, ast.List)):
                vals = tuple(e.value for e in n.test.comparators[0].elts if isinstance(e, ast.Constant))
                types = vals if types is None else tuple(v for v in types if v in vals)
            if isinstance(n, ast.Assign) and isinstance(n.value, ast.Subscript) and isinstance(n.value.value, ast.Dict) \
                    and isinstance(n.value.slice, ast.Name) and n.value.slice.id == 'c_op':
                ops = tuple(k.value for k in n.value.value.keys if isinstance(k, ast.Constant))
    if not types or not ops:
        raise AnalysisError('PyNumberBinop: the template no longer states its operator / type domains (assert typeN in (...), {...}[c_op])')
    return ops, types


def functions(text):
    """[(name, body text)] of the C functions taking (PyObject *op1, PyObject *op2, ...)"""
    out = []
    for m in re.finditer(r'^static[^\n;(]*?\b(\w+)\s*\(\s*PyObject\s*\*\s*op1\s*,\s*PyObject\s*\*\s*op2\b[^)]*\)\s*\{', text, re.M):
        b0 = m.end() - 1
        b1 = _match_brace(text, b0)
        out.append((m.group(1), text[b0:b1 + 1]))
    return out


def var_defs(body):
    """local -> set of ('val', operand) for locals that hold the numeric value of an operand (through accessors and casts)"""
    defs = {}
    for m in re.finditer(r'(?<![\w.>])(\w+)\s*=(?!=)\s*([^;{}]+);', body):
        name, rhs = m.group(1), ' '.join(m.group(2).split())
        try:
            e = cexpr.parse(rhs)
        except cexpr.ParseError:
            defs.setdefault(name, set()).add(('?', rhs))
            continue
        while e[0] == 'cast':
            e = e[2]
        if e[0] == 'call' and e[1] in INT_ACCESSORS + FLOAT_ACCESSORS and len(e[2]) == 1 and e[2][0][0] == 'id' and e[2][0][1] in ('op1', 'op2'):
            defs.setdefault(name, set()).add(('val', e[2][0][1]))
        elif e[0] == 'id':
            defs.setdefault(name, set()).add(('alias', e[1]))
        else:
            defs.setdefault(name, set()).add(('?', rhs))
    # resolve aliases
    out = {}
    for name in defs:
        seen, todo, res = set(), [name], set()
        while todo:
            n = todo.pop()
            if n in seen:
                continue
            seen.add(n)
            for kind, v in defs.get(n, {('?', n)}):
                if kind == 'alias':
                    todo.append(v)
                else:
                    res.add((kind, v))
        out[name] = res
    return out


def operand_kinds(block, gs):
    """{'op1': 'int'|'float', ...} from the accessor calls applied to each operand in the outermost statement enclosing the site, and from type tests in its guards"""
    kinds = {}
    for op in ('op1', 'op2'):
        ks = set()
        if re.search(r'\b(?:%s)\s*\(\s*%s\s*\)' % ('|'.join(INT_ACCESSORS + ('__Pyx_PyLong_IsZero', '__Pyx_PyLong_IsCompact')), op), block):
            ks.add('int')
        if re.search(r'\b(?:%s)\s*\(\s*%s\s*\)' % ('|'.join(FLOAT_ACCESSORS), op), block):
            ks.add('float')
        for cond, pol in gs:
            if pol and re.search(r'\bPyLong_CheckExact\s*\(\s*%s\s*\)' % op, cond):
                ks.add('int')
            if pol and re.search(r'\bPyFloat_CheckExact\s*\(\s*%s\s*\)' % op, cond):
                ks.add('float')
        if len(ks) == 1:
            kinds[op] = ks.pop()
    return kinds


def outer_statement(body, pos):
    """text of the outermost statement of the function body (inside its braces) that contains pos"""
    from ..engine.cguard import _stmt_end, _skip_ws
    i = 1
    while i < len(body) - 1:
        i = _skip_ws(body, i)
        e = _stmt_end(body, i)
        if e <= i:
            e = i + 1
        if i <= pos < e:
            return body[i:e]
        i = e
    return body


def resolve_guard(cond, defs):
    """-> ('pred', AST over op1/op2 values) | ('neutral',) | ('unknown', why)"""
    try:
        e = cexpr.parse(cond)
    except cexpr.ParseError as ex:
        return ('unknown', 'unparsed condition `%s` (%s)' % (cond[:60], ex))
    mentions = [False]
    neutral_only = [True]

    def sub(x):
        k = x[0]
        if k == 'id':
            n = x[1]
            if n in ('op1', 'op2'):
                # the bare object pointer (op1 != Py_None, op1 == op2): not a value test
                raise KeyError('pointer')
            d = defs.get(n)
            if d and all(kind == 'val' for kind, _ in d) and len({v for _, v in d}) == 1:
                mentions[0] = True
                neutral_only[0] = False
                return ('id', next(iter(d))[1])
            if d:
                raise ValueError('local `%s` is not (only) the value of one operand' % n)
            return x
        if k == 'call':
            if x[1] in ('likely', 'unlikely') and len(x[2]) == 1:
                return sub(x[2][0])
            if x[1] == '__Pyx_PyLong_IsZero' and len(x[2]) == 1 and x[2][0][0] == 'id' and x[2][0][1] in ('op1', 'op2'):
                mentions[0] = True
                neutral_only[0] = False
                return ('bin', '==', ('id', x[2][0][1]), ('num', 0))
            if x[1] in NEUTRAL_CALLS:
                raise KeyError('neutral')
            if any(a[0] == 'id' and a[1] in ('op1', 'op2') for a in x[2]) or any(y[0] == 'id' and y[1] in defs for a in x[2] for y in cexpr.walk(a)):
                raise ValueError('call of %s on an operand' % x[1])
            raise KeyError('other')
        if k in ('num', 'char'):
            return x
        if k == 'cast':
            return sub(x[2])
        if k == 'un':
            return ('un', x[1], sub(x[2]))
        if k == 'bin':
            return ('bin', x[1], sub(x[2]), sub(x[3]))
        if k == 'tern':
            return ('tern', sub(x[1]), sub(x[2]), sub(x[3]))
        raise ValueError('node ' + k)
    try:
        pe = sub(e)
    except KeyError:
        # a conjunction may mix a neutral part with a value test: keep the value tests of a top-level && under positive polarity
        if e[0] == 'bin' and e[1] == '&&':
            return ('and', e)
        return ('neutral',)
    except ValueError as ex:
        return ('unknown', str(ex))
    if not mentions[0]:
        return ('neutral',)
    return ('pred', pe)


def same(a, b):
    if type(a) is not type(b):
        return False
    if isinstance(a, float):
        if a != a or b != b:
            return a != a and b != b
        return a == b and math.copysign(1.0, a) == math.copysign(1.0, b)
    return a == b


def show(v):
    return repr(v)


def decide_site(c_op, ret_op, kinds, preds):
    """-> None or (v1, v2, returned, wanted)"""
    # the partition is refined by every literal an operand is compared with (a shortcut `if (v == 1)` splits the positive class)
    lits = sorted({x[1] for pe, _ in preds for x in cexpr.walk(pe) if x[0] == 'num' and x[1] == x[1] and abs(x[1]) < 1 << 62})
    extra_i = sorted({int(v) + d for v in lits for d in (-1, 0, 1)} | {-int(v) for v in lits})
    extra_f = sorted({float(v) for v in lits} | {-float(v) for v in lits} | {float(v) + 0.5 for v in lits} | {float(v) - 0.5 for v in lits})
    doms = {op: (tuple(sorted(set(INT_DOM) | set(extra_i))) if kinds[op] == 'int' else FLOAT_DOM + tuple(v for v in extra_f if v != 0))
            for op in ('op1', 'op2')}
    reached = 0
    for v1 in doms['op1']:
        for v2 in doms['op2']:
            env = {'op1': v1, 'op2': v2}
            ok = True
            for pe, pol in preds:
                try:
                    if bool(cexpr.evaluate(pe, env)) != pol:
                        ok = False
                        break
                except (cexpr.EvalError, TypeError) as ex:
                    raise AnalysisError('PyNumberBinop: condition outside the modelled subset (%s)' % ex)
            if not ok:
                continue
            reached += 1
            if kinds['op1'] == 'int' and kinds['op2'] == 'int':
                want = PYOPS[c_op](v1, v2)
            else:
                if c_op not in '+-*':
                    continue
                want = PYOPS[c_op](float(v1), float(v2))
            got = env[ret_op]
            if not same(got, want):
                return (v1, v2, got, want), reached
    return None, reached


def rule_ident(ctx, rid='C02-IDENT', floor=6):
    r = Rule(rid, 'every `return __Pyx_NewRef(opK)` shortcut of PyNumberBinop returns an operand only where `op1 <op> op2` is exactly that operand (same type, same sign of zero) '
                  'on the complete class partition of int x float operand values', floor)
    d = ctx.cat.files.get('Optimize.c', {}).get('PyNumberBinop', {}).get('impl')
    if d is None:
        raise AnalysisError('Optimize.c::PyNumberBinop missing')
    from .s4C19 import tpl_expand
    ops, types = template_domains(d.raw)
    seen = set()
    unmodelled = 0
    for c_op in ops:
        for t1 in types:
            for t2 in types:
                try:
                    text = tpl_expand(d.raw, dict(c_op=c_op, type1=t1, type2=t2, op_name='PyNumber_OP', inplace_op_name='PyNumber_InPlaceOP'))
                except Exception as ex:
                    raise AnalysisError('PyNumberBinop(c_op=%s,%s,%s): template expansion failed: %s' % (c_op, t1, t2, str(ex)[:160]))
                text = strip_c_comments(text)
                for fname, body in functions(text):
                    defs = var_defs(body)
                    for m in re.finditer(r'\breturn\s+__Pyx_NewRef\s*\(\s*(op[12])\s*\)\s*;', body):
                        ret_op = m.group(1)
                        gs = guards(body, m.start())
                        gkey = ' && '.join(('' if pol else '!') + '(' + c + ')' for c, pol in gs if not re.search(r'CheckExact|Py_None|IsCompact', c))
                        kinds = operand_kinds(outer_statement(body, m.start()), gs)
                        role = re.sub(r'^__Pyx_+PyNumber_OP_', '', fname)
                        key = 'PyNumberBinop(%s):%s:%s:return %s' % (c_op, role, ' '.join(gkey.split())[:80], ret_op)
                        if len(kinds) != 2:
                            if key not in seen:
                                seen.add(key)
                                unmodelled += 1
                                r.info('%s: the kinds (int / float) of both operands are not evident from the accessors around the shortcut; not decided' % key)
                            continue
                        preds, unknown = [], None
                        for cond, pol in gs:
                            res = resolve_guard(cond, defs)
                            if res[0] == 'and':
                                parts, todo = [], [res[1]]
                                while todo:
                                    x = todo.pop()
                                    if x[0] == 'bin' and x[1] == '&&':
                                        todo += [x[2], x[3]]
                                    else:
                                        parts.append(x)
                                if pol:
                                    for part in parts:
                                        sub = resolve_guard(_expr_text(part), defs)
                                        if sub[0] == 'pred':
                                            preds.append((sub[1], True))
                                        elif sub[0] == 'unknown':
                                            unknown = sub[1]
                                continue
                            if res[0] == 'pred':
                                preds.append((res[1], pol))
                            elif res[0] == 'unknown':
                                unknown = res[1]
                        if not unknown:
                            key = 'PyNumberBinop(%s):%s:%s:return %s' % (c_op, role, ' and '.join(sorted(('' if pol else 'not ') + _expr_text(pe) for pe, pol in preds)) or 'always', ret_op)
                        key = key + ':' + kinds['op1'] + ',' + kinds['op2']
                        if key in seen:
                            continue
                        seen.add(key)
                        if unknown:
                            unmodelled += 1
                            r.info('%s: %s; not decided' % (key, unknown))
                            continue
                        if c_op not in '+-*' and not (kinds['op1'] == 'int' and kinds['op2'] == 'int'):
                            continue
                        bad, reached = decide_site(c_op, ret_op, kinds, preds)
                        r.inst(key, sample='%s: %d operand classes reach it' % (key, reached), nontrivial=bool(preds))
                        if bad:
                            v1, v2, got, want = bad
                            r.violate(key, REL, 0, 'PyNumberBinop(c_op=%s) %s returns %s unchanged when %s: for op1 = %s, op2 = %s that is %s, but %s %s %s is %s in Python '
                                      '(an identity shortcut that ignores the sign of a floating-point zero or the type of the result)' % (
                                          c_op, role, ret_op, ' and '.join(('' if pol else 'not ') + _expr_text(pe) for pe, pol in preds) or 'reached', show(v1), show(v2), show(got),
                                          show(float(v1) if 'float' in kinds.values() else v1), c_op, show(float(v2) if 'float' in kinds.values() else v2), show(want)))
    if unmodelled:
        r.info('%d shortcut site(s) not decided (listed above)' % unmodelled)
    # positive control: the classic wrong shortcut  x + 0 -> x  for a float x
    bad, _ = decide_site('+', 'op1', {'op1': 'float', 'op2': 'int'}, [(cexpr.parse('op2 == 0'), True)])
    good, _ = decide_site('-', 'op1', {'op1': 'float', 'op2': 'int'}, [(cexpr.parse('op2 == 0'), True)])
    r.positive_control(bad is not None and bad[0] != bad[0] or (bad is not None and good is None), 'x + 0 -> x for a float x (wrong for x = -0.0) is reported, x - 0 -> x is not')
    return r


def _expr_text(e):
    k = e[0]
    if k == 'num':
        return repr(e[1])
    if k == 'char':
        return repr(chr(e[1]))
    if k == 'id':
        return e[1]
    if k == 'un':
        return e[1] + _expr_text(e[2])
    if k == 'bin':
        return '(%s %s %s)' % (_expr_text(e[2]), e[1], _expr_text(e[3]))
    if k == 'call':
        return '%s(%s)' % (e[1], ', '.join(_expr_text(a) for a in e[2]))
    if k == 'cast':
        return '(%s)%s' % (e[1], _expr_text(e[2]))
    if k == 'tern':
        return '(%s ? %s : %s)' % (_expr_text(e[1]), _expr_text(e[2]), _expr_text(e[3]))
    return '?'
