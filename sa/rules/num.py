"""NUM rule family: interval / known-bits abstract interpretation (C44 line table, C12 LZSS)."""
import ast, re

from ..core import Rule, AnalysisError, node_src
from ..engine import absint, pyabs
from ..engine.absint import AV, State, const, binop
from ..reference import LOCATION_TABLE


def _bit(av, i):
    return av.bits[i]


def linetable_rules(ctx):
    rel = 'Cython/Compiler/LineTable.py'
    tree = ctx.parse(rel)
    fns = {n.name: n for n in tree.body if isinstance(n, ast.FunctionDef)}
    from ..props.C44 import find_encoder
    _, enc, base_idx = find_encoder(ctx)
    r = Rule('C44-NUM', 'abstract interpretation of the line-table encoder: header byte has bit 7 set and a code in the range of its form; all other bytes < 128; '
             'short/one-line/long layouts carry the fields CPython decodes; var-int chunks have the continuation bit on all but the last', floor=8)
    # unpacked names of the position tuple
    names = None
    for n in enc.body:
        if isinstance(n, ast.Assign) and isinstance(n.targets[0], ast.Tuple) and len(n.targets[0].elts) == 4:
            names = [e.id for e in n.targets[0].elts]
    if names is None:
        raise AnalysisError('position tuple unpacking not found')
    sl, el, sc, ec = names
    base = enc.args.args[base_idx].arg
    body = [s for s in enc.body if not (isinstance(s, ast.Assign) and isinstance(s.targets[0], ast.Tuple))]
    # the line delta is partitioned so that the one-line code field can be decided exactly: {0}, {1}, {2}, {3}, [4, inf)
    delta_expr = None
    for n in ast.walk(enc):
        if isinstance(n, (ast.Assign, ast.AnnAssign)) and isinstance(n.value, ast.BinOp) and isinstance(n.value.op, ast.Sub) and \
                isinstance(n.value.left, ast.Name) and n.value.left.id == sl and isinstance(n.value.right, ast.Name) and n.value.right.id == base:
            delta_expr = n.value
    if delta_expr is None:
        raise AnalysisError('line delta computation not found')
    parts = [(0, 0), (1, 1), (2, 2), (3, 3), (4, None)]
    npaths = 0
    seen_forms = set()
    for dlo, dhi in parts:
        for same_line in (True, False):
            pa = pyabs.PyAbs(fns)
            st = State()
            atoms = {}
            for nm, lo in ((sl, 1), (el, 1), (sc, 0), (ec, 0), (base, 1)):
                a = st.atom(nm, lo, None)
                atoms[nm] = a
                st.env[nm] = st.atom_av(a)
            # input contract: start >= base (delta >= 0), end >= start
            dkey = 'expr:' + ast.unparse(delta_expr)
            da = st.atom('(' + ast.unparse(delta_expr) + ')', dlo, dhi)
            st.env[dkey] = da
            ekey = 'expr:%s - %s' % (el, sl)
            ea = st.atom('(%s - %s)' % (el, sl), 0, 0 if same_line else None)
            if not same_line:
                st.rng[ea] = (1, None)
            st.env[ekey] = ea
            st.env['expr:%s - %s' % (sl, el)] = st.atom('(%s - %s)' % (sl, el), 0 if same_line else None, 0 if same_line else -1)
            try:
                res = pa.block(body, [st], 0, 0)
            except AnalysisError as e:
                raise AnalysisError('abstract interpretation of %s failed: %s' % (enc.name, e))
            for s2, kind, val in res:
                if kind != 'return':
                    r.violate('LineTable.%s:falls-off' % enc.name, rel, enc.lineno, 'a path falls off the end of %s' % enc.name)
                    continue
                npaths += 1
                _check_entry(r, rel, enc, s2, atoms, da, ea, (sl, el, sc, ec), (dlo, dhi), same_line, seen_forms)
    for form in ('short', 'oneline', 'long'):
        r.inst('form:' + form, sample='form %s reachable: %s' % (form, form in seen_forms))
        if form not in seen_forms:
            r.info('form %s is never produced' % form)
    r.info('%d abstract paths analysed' % npaths)
    # var-int chunking: the loop that emits chunks must shift by exactly the number of payload bits it emits
    for fn in fns.values():
        for loop in [n for n in ast.walk(fn) if isinstance(n, ast.While)]:
            shifts = [n for n in ast.walk(loop) if isinstance(n, ast.AugAssign) and isinstance(n.op, ast.RShift) and isinstance(n.value, ast.Constant)]
            masks = [n for n in ast.walk(loop) if isinstance(n, ast.BinOp) and isinstance(n.op, ast.BitAnd) and isinstance(n.right, ast.Constant)]
            if not shifts or not masks:
                continue
            k = shifts[0].value.value
            m = masks[0].right.value
            thr = [c.value for n in ast.walk(loop.test) for c in [n] if isinstance(c, ast.Constant) and isinstance(c.value, int)]
            ors = [n.left.value if isinstance(n.left, ast.Constant) else n.right.value for n in ast.walk(loop)
                   if isinstance(n, ast.BinOp) and isinstance(n.op, ast.BitOr) and (isinstance(n.left, ast.Constant) or isinstance(n.right, ast.Constant))]
            r.inst('LineTable.%s:varint-chunking' % fn.name, sample='%s: mask %s shift %s threshold %s continuation %s' % (fn.name, m, k, thr, ors))
            want = LOCATION_TABLE['varint_chunk_bits']
            if not (k == want and m == (1 << want) - 1 and thr == [1 << want] and ors == [1 << want]):
                r.violate('LineTable.%s:varint-chunking' % fn.name, rel, loop.lineno,
                          'var-int chunking is inconsistent with the %d-bit chunk format: payload mask %s, shift %s, loop threshold %s, continuation bit %s' % (want, m, k, thr, ors))
    return [r]


def _check_entry(r, rel, enc, st, atoms, datom, eatom, names, drange, same_line, seen_forms):
    sl, el, sc, ec = names
    out = st.out
    where = out[0].where if out else enc.lineno
    tag = 'delta=%s%s,%s' % (drange[0], '' if drange[1] == drange[0] else '+', 'one-line' if same_line else 'multi-line')
    if not out:
        r.violate('LineTable.%s:no-output' % enc.name, rel, enc.lineno, 'a path of %s (%s) writes no table entry' % (enc.name, tag))
        return
    H = st.norm(out[0].av)
    code = binop(st, '&', binop(st, '>>', H, const(3)), const(15))
    if H.bits[7] == 1 and H.lo is not None and H.hi is not None and 128 <= H.lo and H.hi <= 255:
        # header = 128 + (code << 3) + length field: the code range follows from the interval
        code = AV((H.lo - 128) >> 3, (H.hi - 128) >> 3, code.bits, None)
    form = None
    for f in ('short', 'oneline', 'long'):
        lo, hi = LOCATION_TABLE[f]['codes']
        if code.lo is not None and code.hi is not None and lo <= code.lo and code.hi <= hi:
            form = f
    key = 'LineTable.%s:%s' % (enc.name, form or 'bad-code')
    r.inst('%s:%s:%d' % (key, tag, len(out)), sample='%s -> header %s..%s code %s..%s form %s, %d bytes' % (tag, H.lo, H.hi, code.lo, code.hi, form, len(out)))
    if H.bits[7] != 1:
        r.violate(key + ':header-bit7', rel, where, 'the first byte of an entry (%s) is not known to have bit 7 set: %r' % (tag, H))
    if form is None:
        r.violate('LineTable.%s:code-range' % enc.name, rel, where,
                  'the code field of the entry header ranges over %s..%s on path (%s), which is not within one documented form (0-9 short, 10-12 one-line, 14 long)' % (code.lo, code.hi, tag))
        return
    seen_forms.add(form)
    if H.bits[0] != 0 or H.bits[1] != 0 or H.bits[2] != 0:
        r.violate(key + ':length-field', rel, where, 'the instruction-length field (low 3 bits) of the header is not 0 (one code unit per entry)')
    for i, e in enumerate(out[1:], 1):
        av = st.norm(e.av)
        if av.bits[7] != 0 or (av.hi is None or av.hi > 127):
            r.violate(key + ':byte%d-msb' % (i if not e.in_loop else 0), rel, e.where,
                      'a continuation byte of the entry may be >= 128 (range %s..%s) on path (%s): CPython would read it as the start of a new entry' % (av.lo, av.hi, tag))
    sca, eca = atoms[sc], atoms[ec]
    if form == 'short':
        if not same_line or drange != (0, 0):
            r.violate(key + ':applicability', rel, where, 'short form used although %s' % tag)
        if len(out) != 2:
            r.violate(key + ':length', rel, where, 'short form must be 2 bytes, got %d' % len(out))
            return
        b1 = st.norm(out[1].av)
        want_h = [('b', sca, i) for i in (3, 4, 5, 6)]
        if [H.bits[i] for i in (3, 4, 5, 6)] != want_h:
            r.violate(key + ':code=col>>3', rel, where, 'short form: the code field is not start_column >> 3 (bits %r)' % ([H.bits[i] for i in (3, 4, 5, 6)],))
        if [b1.bits[i] for i in (4, 5, 6)] != [('b', sca, i) for i in (0, 1, 2)]:
            r.violate(key + ':byte2-hi', rel, out[1].where, 'short form: bits 4-6 of the second byte are not start_column & 7')
        low = [b1.bits[i] for i in range(4)]
        ok = all(isinstance(x, tuple) and x[2] == i and re.sub(r'\s', '', x[1].split('@')[0]) == '(%s-%s)' % (ec, sc) for i, x in enumerate(low))
        if not ok:
            r.violate(key + ':byte2-lo', rel, out[1].where, 'short form: the low 4 bits of the second byte are not (end_column - start_column): %r' % (low,))
        # range: start_column < 80 so that code <= 9 is implied by code range check; column diff < 16
        dlo, dhi = st.rng.get(low[0][1], (None, None)) if isinstance(low[0], tuple) else (None, None)
        if ok and (dhi is None or dhi > 15 or dlo is None or dlo < 0):
            r.violate(key + ':diff-range', rel, out[1].where, 'short form: end_column - start_column ranges over %s..%s, does not fit 4 bits' % (dlo, dhi))
    elif form == 'oneline':
        if not same_line:
            r.violate(key + ':applicability', rel, where, 'one-line form used for a multi-line position')
        if len(out) != 3:
            r.violate(key + ':length', rel, where, 'one-line form must be 3 bytes, got %d' % len(out))
            return
        if drange[0] == drange[1] and not (code.lo == code.hi == 10 + drange[0]):
            r.violate(key + ':code=10+delta', rel, where, 'one-line form: code %s..%s does not equal 10 + line delta (%d)' % (code.lo, code.hi, drange[0]))
        if drange[0] != drange[1]:
            r.violate(key + ':delta-range', rel, where, 'one-line form used for a line delta >= %d (codes 10-12 encode deltas 0-2 only)' % drange[0])
        for i, (a, nm) in enumerate(((sca, 'start_column'), (eca, 'end_column')), 1):
            av = st.norm(out[i].av)
            if st.root(av.lin or st.as_lin(av)) != (a, 0):
                r.violate(key + ':byte%d' % (i + 1), rel, out[i].where, 'one-line form: byte %d is not %s' % (i + 1, nm))
    elif form == 'long':
        if not (H.lo == H.hi == 128 | (14 << 3)):
            r.violate(key + ':header', rel, where, 'long form header is not 0xF0')
        groups, cur = [], []
        for e in out[1:]:
            cur.append(e)
            if not e.in_loop:
                groups.append(cur)
                cur = []
        if cur:
            r.violate(key + ':unterminated-varint', rel, cur[-1].where, 'a var-int has no terminating chunk')
        if len(groups) != 4:
            r.violate(key + ':fields', rel, where, 'long form must write 4 var-ints (line delta, end-line delta, column+1, end column+1), found %d' % len(groups))
        for g in groups:
            for e in g:
                av = st.norm(e.av)
                if e.in_loop and av.bits[6] != 1:
                    r.violate(key + ':varint-continuation', rel, e.where, 'a non-final var-int chunk does not have the continuation bit (64) set')
                if not e.in_loop and (av.bits[6] != 0 or av.hi is None or av.hi > 63):
                    r.violate(key + ':varint-final', rel, e.where,
                              'the final var-int chunk ranges over %s..%s: a value >= 64 has the continuation bit set and CPython keeps reading into the next field' % (av.lo, av.hi))
        # argument roles, from the call log of this path
        calls = [n for n in st.notes if n[0] == 'call' and len(n[2]) >= 2]
        vi = [n for n in calls if n[4] >= 1][:4]
        if len(vi) == 4:
            srcs = [re.sub(r'\s', '', n[2][1]) for n in vi]
            dvar = None
            for n2 in ast.walk(enc):
                if isinstance(n2, (ast.Assign, ast.AnnAssign)) and isinstance(n2.value, ast.BinOp) and isinstance(n2.value.op, ast.Sub) and \
                        isinstance(n2.value.left, ast.Name) and n2.value.left.id == sl:
                    t = n2.targets[0] if isinstance(n2, ast.Assign) else n2.target
                    dvar = t.id
            want = ['%s<<1' % dvar, '%s-%s' % (el, sl), '%s+1' % sc, '%s+1' % ec]
            for i, (g, w) in enumerate(zip(srcs, want)):
                if g != w:
                    r.violate(key + ':field%d' % (i + 1), rel, vi[i][3], 'long form: var-int %d encodes %s, the format requires %s' % (i + 1, g, w))
