"""NUM rule family: interval / known-bits abstract interpretation (C44 line table, C12 LZSS)."""
import ast, re

from ..core import Rule, AnalysisError, node_src
from ..engine import absint, pyabs
from ..engine.absint import AV, State, const, binop
from ..reference import LOCATION_TABLE


def _bit(av, i):
    return av.bits[i]


def linetable_rules(ctx):
    rel = 'Cython/Compiler/LineTable.py'
    tree = ctx.parse(rel)
    fns = {n.name: n for n in tree.body if isinstance(n, ast.FunctionDef)}
    from ..props.C44 import find_encoder
    _, enc, base_idx = find_encoder(ctx)
    r = Rule('C44-NUM', 'abstract interpretation of the line-table encoder: header byte has bit 7 set and a code in the range of its form; all other bytes < 128; '
             'short/one-line/long layouts carry the fields CPython decodes; var-int chunks have the continuation bit on all but the last', floor=8)
    # unpacked names of the position tuple
    names = None
    for n in enc.body:
        if isinstance(n, ast.Assign) and isinstance(n.targets[0], ast.Tuple) and len(n.targets[0].elts) == 4:
            names = [e.id for e in n.targets[0].elts]
    if names is None:
        raise AnalysisError('position tuple unpacking not found')
    sl, el, sc, ec = names
    base = enc.args.args[base_idx].arg
    body = [s for s in enc.body if not (isinstance(s, ast.Assign) and isinstance(s.targets[0], ast.Tuple))]
    # the line delta is partitioned so that the one-line code field can be decided exactly: {0}, {1}, {2}, {3}, [4, inf)
    delta_expr = None
    for n in ast.walk(enc):
        if isinstance(n, (ast.Assign, ast.AnnAssign)) and isinstance(n.value, ast.BinOp) and isinstance(n.value.op, ast.Sub) and \
                isinstance(n.value.left, ast.Name) and n.value.left.id == sl and isinstance(n.value.right, ast.Name) and n.value.right.id == base:
            delta_expr = n.value
    if delta_expr is None:
        raise AnalysisError('line delta computation not found')
    parts = [(0, 0), (1, 1), (2, 2), (3, 3), (4, None)]
    npaths = 0
    seen_forms = set()
    for dlo, dhi in parts:
        for same_line in (True, False):
            pa = pyabs.PyAbs(fns)
            st = State()
            atoms = {}
            for nm, lo in ((sl, 1), (el, 1), (sc, 0), (ec, 0), (base, 1)):
                a = st.atom(nm, lo, None)
                atoms[nm] = a
                st.env[nm] = st.atom_av(a)
            # input contract: start >= base (delta >= 0), end >= start
            dkey = 'expr:' + ast.unparse(delta_expr)
            da = st.atom('(' + ast.unparse(delta_expr) + ')', dlo, dhi)
            st.env[dkey] = da
            ekey = 'expr:%s - %s' % (el, sl)
            ea = st.atom('(%s - %s)' % (el, sl), 0, 0 if same_line else None)
            if not same_line:
                st.rng[ea] = (1, None)
            st.env[ekey] = ea
            st.env['expr:%s - %s' % (sl, el)] = st.atom('(%s - %s)' % (sl, el), 0 if same_line else None, 0 if same_line else -1)
            try:
                res = pa.block(body, [st], 0, 0)
            except AnalysisError as e:
                raise AnalysisError('abstract interpretation of %s failed: %s' % (enc.name, e))
            for s2, kind, val in res:
                if kind != 'return':
                    r.violate('LineTable.%s:falls-off' % enc.name, rel, enc.lineno, 'a path falls off the end of %s' % enc.name)
                    continue
                npaths += 1
                _check_entry(r, rel, enc, s2, atoms, da, ea, (sl, el, sc, ec), (dlo, dhi), same_line, seen_forms)
    for form in ('short', 'oneline', 'long'):
        r.inst('form:' + form, sample='form %s reachable: %s' % (form, form in seen_forms))
        if form not in seen_forms:
            r.info('form %s is never produced' % form)
    r.info('%d abstract paths analysed' % npaths)
    # var-int chunking: the loop that emits chunks must shift by exactly the number of payload bits it emits
    for fn in fns.values():
        for loop in [n for n in ast.walk(fn) if isinstance(n, ast.While)]:
            shifts = [n for n in ast.walk(loop) if isinstance(n, ast.AugAssign) and isinstance(n.op, ast.RShift) and isinstance(n.value, ast.Constant)]
            masks = [n for n in ast.walk(loop) if isinstance(n, ast.BinOp) and isinstance(n.op, ast.BitAnd) and isinstance(n.right, ast.Constant)]
            if not shifts or not masks:
                continue
            k = shifts[0].value.value
            m = masks[0].right.value
            thr = [c.value for n in ast.walk(loop.test) for c in [n] if isinstance(c, ast.Constant) and isinstance(c.value, int)]
            ors = [n.left.value if isinstance(n.left, ast.Constant) else n.right.value for n in ast.walk(loop)
                   if isinstance(n, ast.BinOp) and isinstance(n.op, ast.BitOr) and (isinstance(n.left, ast.Constant) or isinstance(n.right, ast.Constant))]
            r.inst('LineTable.%s:varint-chunking' % fn.name, sample='%s: mask %s shift %s threshold %s continuation %s' % (fn.name, m, k, thr, ors))
            want = LOCATION_TABLE['varint_chunk_bits']
            if not (k == want and m == (1 << want) - 1 and thr == [1 << want] and ors == [1 << want]):
                r.violate('LineTable.%s:varint-chunking' % fn.name, rel, loop.lineno,
                          'var-int chunking is inconsistent with the %d-bit chunk format: payload mask %s, shift %s, loop threshold %s, continuation bit %s' % (want, m, k, thr, ors))
    return [r]


def _check_entry(r, rel, enc, st, atoms, datom, eatom, names, drange, same_line, seen_forms):
    sl, el, sc, ec = names
    out = st.out
    where = out[0].where if out else enc.lineno
    tag = 'delta=%s%s,%s' % (drange[0], '' if drange[1] == drange[0] else '+', 'one-line' if same_line else 'multi-line')
    if not out:
        r.violate('LineTable.%s:no-output' % enc.name, rel, enc.lineno, 'a path of %s (%s) writes no table entry' % (enc.name, tag))
        return
    H = st.norm(out[0].av)
    code = binop(st, '&', binop(st, '>>', H, const(3)), const(15))
    if H.bits[7] == 1 and H.lo is not None and H.hi is not None and 128 <= H.lo and H.hi <= 255:
        # header = 128 + (code << 3) + length field: the code range follows from the interval
        code = AV((H.lo - 128) >> 3, (H.hi - 128) >> 3, code.bits, None)
    form = None
    for f in ('short', 'oneline', 'long'):
        lo, hi = LOCATION_TABLE[f]['codes']
        if code.lo is not None and code.hi is not None and lo <= code.lo and code.hi <= hi:
            form = f
    key = 'LineTable.%s:%s' % (enc.name, form or 'bad-code')
    r.inst('%s:%s:%d' % (key, tag, len(out)), sample='%s -> header %s..%s code %s..%s form %s, %d bytes' % (tag, H.lo, H.hi, code.lo, code.hi, form, len(out)))
    if H.bits[7] != 1:
        r.violate(key + ':header-bit7', rel, where, 'the first byte of an entry (%s) is not known to have bit 7 set: %r' % (tag, H))
    if form is None:
        r.violate('LineTable.%s:code-range' % enc.name, rel, where,
                  'the code field of the entry header ranges over %s..%s on path (%s), which is not within one documented form (0-9 short, 10-12 one-line, 14 long)' % (code.lo, code.hi, tag))
        return
    seen_forms.add(form)
    if H.bits[0] != 0 or H.bits[1] != 0 or H.bits[2] != 0:
        r.violate(key + ':length-field', rel, where, 'the instruction-length field (low 3 bits) of the header is not 0 (one code unit per entry)')
    for i, e in enumerate(out[1:], 1):
        av = st.norm(e.av)
        if av.bits[7] != 0 or (av.hi is None or av.hi > 127):
            r.violate(key + ':byte%d-msb' % (i if not e.in_loop else 0), rel, e.where,
                      'a continuation byte of the entry may be >= 128 (range %s..%s) on path (%s): CPython would read it as the start of a new entry' % (av.lo, av.hi, tag))
    sca, eca = atoms[sc], atoms[ec]
    if form == 'short':
        if not same_line or drange != (0, 0):
            r.violate(key + ':applicability', rel, where, 'short form used although %s' % tag)
        if len(out) != 2:
            r.violate(key + ':length', rel, where, 'short form must be 2 bytes, got %d' % len(out))
            return
        b1 = st.norm(out[1].av)
        want_h = [('b', sca, i) for i in (3, 4, 5, 6)]
        if [H.bits[i] for i in (3, 4, 5, 6)] != want_h:
            r.violate(key + ':code=col>>3', rel, where, 'short form: the code field is not start_column >> 3 (bits %r)' % ([H.bits[i] for i in (3, 4, 5, 6)],))
        if [b1.bits[i] for i in (4, 5, 6)] != [('b', sca, i) for i in (0, 1, 2)]:
            r.violate(key + ':byte2-hi', rel, out[1].where, 'short form: bits 4-6 of the second byte are not start_column & 7')
        low = [b1.bits[i] for i in range(4)]
        ok = all(isinstance(x, tuple) and x[2] == i and re.sub(r'\s', '', x[1].split('@')[0]) == '(%s-%s)' % (ec, sc) for i, x in enumerate(low))
        if not ok:
            r.violate(key + ':byte2-lo', rel, out[1].where, 'short form: the low 4 bits of the second byte are not (end_column - start_column): %r' % (low,))
        # range: start_column < 80 so that code <= 9 is implied by code range check; column diff < 16
        dlo, dhi = st.rng.get(low[0][1], (None, None)) if isinstance(low[0], tuple) else (None, None)
        if ok and (dhi is None or dhi > 15 or dlo is None or dlo < 0):
            r.violate(key + ':diff-range', rel, out[1].where, 'short form: end_column - start_column ranges over %s..%s, does not fit 4 bits' % (dlo, dhi))
    elif form == 'oneline':
        if not same_line:
            r.violate(key + ':applicability', rel, where, 'one-line form used for a multi-line position')
        if len(out) != 3:
            r.violate(key + ':length', rel, where, 'one-line form must be 3 bytes, got %d' % len(out))
            return
        if drange[0] == drange[1] and not (code.lo == code.hi == 10 + drange[0]):
            r.violate(key + ':code=10+delta', rel, where, 'one-line form: code %s..%s does not equal 10 + line delta (%d)' % (code.lo, code.hi, drange[0]))
        if drange[0] != drange[1]:
            r.violate(key + ':delta-range', rel, where, 'one-line form used for a line delta >= %d (codes 10-12 encode deltas 0-2 only)' % drange[0])
        for i, (a, nm) in enumerate(((sca, 'start_column'), (eca, 'end_column')), 1):
            av = st.norm(out[i].av)
            if st.root(av.lin or st.as_lin(av)) != (a, 0):
                r.violate(key + ':byte%d' % (i + 1), rel, out[i].where, 'one-line form: byte %d is not %s' % (i + 1, nm))
    elif form == 'long':
        if not (H.lo == H.hi == 128 | (14 << 3)):
            r.violate(key + ':header', rel, where, 'long form header is not 0xF0')
        groups, cur = [], []
        for e in out[1:]:
            cur.append(e)
            if not e.in_loop:
                groups.append(cur)
                cur = []
        if cur:
            r.violate(key + ':unterminated-varint', rel, cur[-1].where, 'a var-int has no terminating chunk')
        if len(groups) != 4:
            r.violate(key + ':fields', rel, where, 'long form must write 4 var-ints (line delta, end-line delta, column+1, end column+1), found %d' % len(groups))
        for g in groups:
            for e in g:
                av = st.norm(e.av)
                if e.in_loop and av.bits[6] != 1:
                    r.violate(key + ':varint-continuation', rel, e.where, 'a non-final var-int chunk does not have the continuation bit (64) set')
                if not e.in_loop and (av.bits[6] != 0 or av.hi is None or av.hi > 63):
                    r.violate(key + ':varint-final', rel, e.where,
                              'the final var-int chunk ranges over %s..%s: a value >= 64 has the continuation bit set and CPython keeps reading into the next field' % (av.lo, av.hi))
        # argument roles, from the call log of this path
        calls = [n for n in st.notes if n[0] == 'call' and len(n[2]) >= 2]
        vi = [n for n in calls if n[4] >= 1][:4]
        if len(vi) == 4:
            srcs = [re.sub(r'\s', '', n[2][1]) for n in vi]
            dvar = None
            for n2 in ast.walk(enc):
                if isinstance(n2, (ast.Assign, ast.AnnAssign)) and isinstance(n2.value, ast.BinOp) and isinstance(n2.value.op, ast.Sub) and \
                        isinstance(n2.value.left, ast.Name) and n2.value.left.id == sl:
                    t = n2.targets[0] if isinstance(n2, ast.Assign) else n2.target
                    dvar = t.id
            want = ['%s<<1' % dvar, '%s-%s' % (el, sl), '%s+1' % sc, '%s+1' % ec]
            for i, (g, w) in enumerate(zip(srcs, want)):
                if g != w:
                    r.violate(key + ':field%d' % (i + 1), rel, vi[i][3], 'long form: var-int %d encodes %s, the format requires %s' % (i + 1, g, w))


# =====================================================================================================  C12 LZSS
def _check_backref(r, s2, dec, out, form, key, rel_c, decl, ref_block, params, ln, offend, c_walk, c_strip, c_name):
    path = ''.join('T' if t[1] else 'F' for t in dec.trace)
    if dec.consumed != len(out):
        r.violate(key + ':consumed', rel_c, decl[0].line,
                  '%s token: encoder emits %d byte(s) but the decoder branch %s consumes %d (a format marker bit tested by the decoder is not fixed by the encoder, or the forms disagree)' % (form, len(out), path, dec.consumed))
        return
    mem = [c for c in dec.calls if c[0] in ('memcpy', 'memmove', '__builtin_memcpy')]
    if not mem:
        r.violate(key + ':no-copy', rel_c, decl[0].line, 'decoder back-reference block performs no memcpy on branch %s' % path)
        return
    # the amount the output position advances by is the decoded match length
    adv = [(v, a) for v, lst in dec.advances.items() for (op, a, nm) in lst if op == '+' and v.startswith('out')]
    mav = adv[-1][1] if adv else mem[-1][1][2]
    mlin = s2.root(s2.as_lin(mav) or mav.lin) if mav is not None else None
    if mlin != (ln, 0):
        r.violate(key + ':match-length', rel_c, decl[0].line,
                  '%s token: the decoder advances the output by %s, which is not the match length the encoder stored (expected %s)' % (form, mlin, (ln, 0)))
    for c in mem:
        sz = c[1][2]
        slin = s2.root(s2.as_lin(sz) or sz.lin) if sz is not None else None
        if slin != (ln, 0):
            r.violate(key + ':copy-size', rel_c, decl[0].line,
                      '%s token: memcpy copies %s bytes (branch %s) but the token denotes %s bytes: the surplus is written beyond the decoded data, possibly past the end of the output buffer'
                      % (form, slin if slin else 'a different number of', path, (ln, 0)))
    endv = None
    mnames = {c[2][2] for c in mem if c[2][2]} | {nm for v, lst in dec.advances.items() for (op, a, nm) in lst if nm}
    for n in c_walk(ref_block):
        if n.get('kind') == 'VarDecl' and n.get('inner'):
            init = c_strip(n['inner'][-1])
            names = [c_name(x) for x in c_walk(init) if c_name(x)]
            if init.get('opcode') == '-' and mnames & set(names):
                others = [x for x in names if x not in mnames and x in dec.env and x not in params and not x.startswith('out')]
                if others:
                    endv = others[0]
    if endv is None:
        r.violate(key + ':no-end-offset', rel_c, decl[0].line, 'decoder: reference position is not computed as out_pos - end_offset - match_length')
        return
    eav = dec.env[endv]
    elin = s2.root(s2.as_lin(eav) or eav.lin)
    if elin != s2.root((offend, 0)):
        r.violate(key + ':end-offset', rel_c, decl[0].line,
                  '%s token: the decoder reconstructs end offset %s but the encoder stored %s — offset bit fields / bias / range guard disagree (%r)' % (form, elin, s2.root((offend, 0)), s2.norm(eav)))


def lzss_rules(ctx):
    from ..engine import cabs
    from ..engine.absint import clang_function_ast, c_walk, c_strip, c_name
    from ..engine.pyindex import walk_no_nested
    rel_py, rel_c = 'Cython/LZSS.py', 'Cython/Utility/StringTools.c'
    tree = ctx.parse(rel_py)
    comp = None
    for n in tree.body:
        if isinstance(n, ast.FunctionDef) and 'compress' in n.name:
            comp = n
    if comp is None:
        raise AnalysisError('LZSS compressor function not found')
    # ---- encoder: the main token loop and its roles
    loop = None
    for n in comp.body:
        if isinstance(n, ast.While) and any(isinstance(x, ast.Call) and isinstance(x.func, ast.Attribute) and x.func.attr == 'append' for x in ast.walk(n)):
            loop = n
    if loop is None:
        raise AnalysisError('token loop of the compressor not found')
    # LEN role: `pos += LEN` ; OFF role: `(OFF, LEN) = finder(pos)` and `OFF -= LEN`
    posvar = loop.test.left.id if isinstance(loop.test, ast.Compare) and isinstance(loop.test.left, ast.Name) else None
    lenvar = offvar = None
    for s in loop.body:
        if isinstance(s, ast.AugAssign) and isinstance(s.op, ast.Add) and isinstance(s.target, ast.Name) and s.target.id == posvar and isinstance(s.value, ast.Name):
            lenvar = s.value.id
    for s in loop.body:
        if isinstance(s, ast.AugAssign) and isinstance(s.op, ast.Sub) and isinstance(s.value, ast.Name) and s.value.id == lenvar and isinstance(s.target, ast.Name):
            offvar = s.target.id
    if not (posvar and lenvar and offvar):
        raise AnalysisError('cannot identify the roles (position, match length, offset) in the compressor loop')
    # maximum match length constant: MAX_MATCH = min(C, ...)
    maxlen = None
    for n in ast.walk(comp):
        if isinstance(n, (ast.Assign, ast.AnnAssign)) and isinstance(n.value, ast.Call) and isinstance(n.value.func, ast.Name) and n.value.func.id == 'min' and n.value.args:
            t = n.targets[0] if isinstance(n, ast.Assign) else n.target
            if isinstance(t, ast.Name) and 'MATCH' in t.id.upper():
                try:
                    maxlen = eval(compile(ast.Expression(n.value.args[0]), '<const>', 'eval'), {'__builtins__': {}})
                except Exception:
                    maxlen = None
    if not isinstance(maxlen, int):
        raise AnalysisError('MAX_MATCH bound not found in the compressor')
    flagvar = None
    for s in loop.body:
        if isinstance(s, ast.If) and isinstance(s.test, ast.Compare) and isinstance(s.test.left, ast.Name) and isinstance(s.test.comparators[0], ast.Constant) \
                and s.test.comparators[0].value == 1 and any(isinstance(x, ast.Subscript) for x in ast.walk(s)):
            flagvar = s.test.left.id
    if flagvar is None:
        raise AnalysisError('literal flag variable not found')
    start = [i for i, s in enumerate(loop.body) if isinstance(s, ast.AugAssign) and isinstance(s.target, ast.Name) and s.target.id == offvar][0]
    stop = [i for i, s in enumerate(loop.body) if isinstance(s, ast.AugAssign) and isinstance(s.target, ast.Name) and s.target.id == posvar][0]
    pre = [s for s in loop.body[:start] if isinstance(s, ast.Assign) and isinstance(s.targets[0], ast.Name) and isinstance(s.value, ast.Constant)]
    pa = pyabs.PyAbs({})
    pa.byte_subscripts = True
    st = State()
    off0 = st.atom(offvar, 0, None)
    ln = st.atom(lenvar, 0, maxlen)
    st.env[offvar] = st.atom_av(off0)
    st.env[lenvar] = st.atom_av(ln)
    res0 = pa.block(pre + [loop.body[start]], [st], 0, 0)
    st1 = res0[0][0]
    offend = st1.env[offvar].lin[0] if st1.env[offvar].lin else None
    if offend is None:
        raise AnalysisError('end-offset atom not established')
    res = pa.block(loop.body[start + 1:stop], [st1], 0, 0)

    # ---- decoder: clang AST of the decompress function
    sec = ctx.cat.section('StringTools.c', 'DecompressString_LZSS', 'impl')
    if sec is None:
        raise AnalysisError('utility section DecompressString_LZSS not found')
    decl = [d for d in ctx.cat.decls.get('__pyx_lzss_decompress', []) if d.kind == 'func']
    if not decl:
        raise AnalysisError('__pyx_lzss_decompress not found')
    head = 'static size_t __pyx_lzss_decompress(%s) ' % ', '.join(decl[0].params)
    fast = clang_function_ast('#define CYTHON_UNUSED\n#define CYTHON_SMALL_CODE\n' + head + decl[0].body + '\n', '__pyx_lzss_decompress')
    body = [c for c in fast['inner'] if c.get('kind') == 'CompoundStmt'][0]
    params = [c['name'] for c in fast['inner'] if c.get('kind') == 'ParmVarDecl']
    srcname = params[0]
    # the token dispatch: if (flags & 1) literal else backref
    tok_if = None
    for n in c_walk(body):
        if n.get('kind') == 'IfStmt':
            cond = c_strip(n['inner'][0])
            if cond.get('kind') == 'BinaryOperator' and cond.get('opcode') == '&' and c_strip(cond['inner'][1]).get('value') == '1':
                tok_if = n
                flags_c = c_name(cond['inner'][0])
    if tok_if is None or len(tok_if['inner']) < 3:
        raise AnalysisError('decoder: token dispatch `if (flags & 1) ... else ...` not found')
    lit_block, ref_block = tok_if['inner'][1], tok_if['inner'][2]

    r = Rule('C12-BITS', 'known-bits/provenance abstract interpretation: for every token form the compressor (LZSS.py) can emit, the decompressor (__pyx_lzss_decompress) '
             'takes the matching branch, consumes exactly the emitted bytes and reconstructs the same end offset and match length; emitted values fit a byte', floor=4)
    nforms = 0
    for s2, kind, val in res:
        out = s2.out
        fl = s2.norm(s2.env.get(flagvar, AV()))
        if fl.lo != fl.hi:
            r.violate('LZSS.compress:flag-undetermined', rel_py, loop.lineno, 'the literal flag is not determined on an encoder path')
            continue
        nforms += 1
        form = 'literal' if fl.lo == 1 else 'backref/%d-byte' % len(out)
        key = 'LZSS:%s' % form
        r.inst(key + ':%d' % nforms, sample='%s: %s' % (form, [repr(s2.norm(e.av))[:90] for e in out]))
        for i, e in enumerate(out):
            av = s2.norm(e.av)
            if av.lo is None or av.lo < 0 or av.hi is None or av.hi > 255:
                r.violate(key + ':byte%d-range' % i, rel_py, e.where,
                          'encoder emits a value in %s..%s as byte %d of a %s token: bytearray.append() needs 0..255 (assuming match length <= %d)' % (av.lo, av.hi, i, form, maxlen))
        dec0 = cabs.CAbs(s2, [e.av for e in out], srcname)
        if fl.lo == 1:
            for dec in dec0.run_all(lit_block):
                if dec.consumed != len(out) or len(out) != 1:
                    r.violate(key + ':consumed', rel_c, decl[0].line, 'literal token: encoder emits %d byte(s), decoder consumes %d' % (len(out), dec.consumed))
            continue
        finals = dec0.run_all(ref_block)
        forked_on_input = [d for d in finals if any(len(t) > 2 and t[2] for t in d.trace)]
        for dec in finals:
            _check_backref(r, s2, dec, out, form, key, rel_c, decl, ref_block, params, ln, offend, c_walk, c_strip, c_name)
    if nforms < 4:
        r.violate('LZSS:forms', rel_py, loop.lineno, 'only %d token forms found in the encoder (expected literal + 3 back-reference encodings)' % nforms)

    # ---- structural clauses of the decoder loop
    r2 = Rule('C12-STRUCT', 'decoder: copy size equals the output advance; output-full test follows every token; the caller compares the consumed length with the compressed length; '
              'flag byte shift register agrees (encoder fills from bit 7 shifting right, decoder reads bit 0 shifting right, 8 tokens per flag byte)', floor=4)
    # (1) memcpy size == out advance
    r2.inst('decoder:copy-size')
    ok = False
    for n in c_walk(ref_block):
        if n.get('kind') == 'CallExpr' and c_name(n['inner'][0]) in ('memcpy', 'memmove'):
            size = c_name(n['inner'][3])
            dstbase = [c_name(x) for x in c_walk(n['inner'][1]) if c_name(x)]
            adv = [c_name(x['inner'][1]) for x in c_walk(ref_block) if x.get('kind') == 'CompoundAssignOperator' and x.get('opcode') == '+=' and c_name(x['inner'][0]) in dstbase]
            ok = size is not None and size in adv
            if not ok:
                r2.violate('StringTools.__pyx_lzss_decompress:copy-size', rel_c, decl[0].line,
                           'memcpy into the output copies %r bytes but the output position advances by %s: bytes beyond the advance are written (possibly past the end of the buffer)' % (
                               size or 'a constant/expression', adv))
    # (2) bound test after every token: in the inner while body, the statement after the token if is `if (out_pos >= dst_len) return`
    r2.inst('decoder:bound-test')
    inner_while = None
    for n in c_walk(body):
        if n.get('kind') == 'WhileStmt' and any(x is tok_if for x in c_walk(n)):
            inner_while = n
    stmts = [c for c in inner_while['inner'][1].get('inner', [])] if inner_while else []
    idx = [i for i, x in enumerate(stmts) if x is tok_if]
    good = False
    if idx and idx[0] + 1 < len(stmts):
        nxt = stmts[idx[0] + 1]
        if nxt.get('kind') == 'IfStmt':
            cond = c_strip(nxt['inner'][0])
            names = [c_name(x) for x in c_walk(cond) if c_name(x)]
            has_ret = any(x.get('kind') == 'ReturnStmt' for x in c_walk(nxt['inner'][1]))
            good = cond.get('opcode') == '>=' and params[2] in names and has_ret
    if not good:
        r2.violate('StringTools.__pyx_lzss_decompress:bound-test', rel_c, decl[0].line,
                   'the decoder does not test the output position against %s immediately after each token: padding tokens of the last flag byte would be decoded past the output buffer' % params[2])
    # (3) caller compares result with compressed_length
    r2.inst('caller:length-check')
    cal = [d for d in ctx.cat.decls.get('__Pyx_DecompressString_LZSS', []) if d.kind == 'func']
    if not cal or not re.search(r'(\w+)\s*=\s*__pyx_lzss_decompress\s*\(', cal[0].body) or \
            not re.search(r'if\s*\(\s*(?:unlikely\s*\()?\s*%s\s*!=\s*compressed_length' % re.search(r'(\w+)\s*=\s*__pyx_lzss_decompress\s*\(', cal[0].body).group(1), cal[0].body):
        r2.violate('StringTools.__Pyx_DecompressString_LZSS:length-check', rel_c, cal[0].line if cal else 0,
                   'the caller does not compare the consumed input length with compressed_length (corrupt data would be accepted)')
    # (4) flag shift register
    r2.inst('flags:shift-register')
    enc_upd = None
    for s in loop.body:
        if isinstance(s, ast.Assign) and isinstance(s.value, ast.BinOp) and isinstance(s.value.op, ast.BitOr) and any(isinstance(x, ast.Name) and x.id == flagvar for x in ast.walk(s.value)):
            enc_upd = s
    if enc_upd is None:
        r2.violate('LZSS.compress:flags-update', rel_py, loop.lineno, 'flag register update not found')
    else:
        fv = enc_upd.targets[0].id
        init = None
        for s in comp.body:
            if isinstance(s, (ast.Assign, ast.AnnAssign)):
                t = s.targets[0] if isinstance(s, ast.Assign) else s.target
                if isinstance(t, ast.Name) and t.id == fv and isinstance(s.value, ast.Constant):
                    init = s.value.value
        inits = {n2.value.value for n2 in ast.walk(comp) if isinstance(n2, (ast.Assign, ast.AnnAssign)) and isinstance(n2.value, ast.Constant)
                 and isinstance(n2.value.value, int) and any(isinstance(t, ast.Name) and t.id == fv for t in (n2.targets if isinstance(n2, ast.Assign) else [n2.target]))}
        if len(inits) > 1:
            r2.violate('LZSS.compress:flags-reset', rel_py, enc_upd.lineno, 'the flag register is initialised and reset with different sentinels %s: groups after the first hold a different number of tokens' % sorted(hex(x) for x in inits))
        thr = None
        for s in loop.body:
            if isinstance(s, ast.If) and isinstance(s.test, ast.Compare) and isinstance(s.test.left, ast.Name) and s.test.left.id == fv and isinstance(s.test.ops[0], ast.Lt):
                thr = s.test.comparators[0].value if isinstance(s.test.comparators[0], ast.Constant) else None
        st3 = State()
        pa3 = pyabs.PyAbs({})
        st3.env[fv] = const(init if isinstance(init, int) else 0)
        fat = []
        flushed_at = None
        for i in range(1, 10):
            a = st3.atom('f%d' % i, 0, 1)
            fat.append(a)
            st3.env[flagvar] = st3.atom_av(a)
            st3.env[fv] = pa3.ev(st3, enc_upd.value)
            cur = st3.norm(st3.env[fv])
            if thr is not None and cur.hi is not None and cur.hi < thr:
                flushed_at = i
                break
        byte = binop(st3, '&', st3.env[fv], const(0xFF))
        if flushed_at != 8:
            r2.violate('LZSS.compress:flags-per-byte', rel_py, enc_upd.lineno, 'the encoder flushes a flag byte after %s tokens (8 expected by the decoder)' % flushed_at)
        else:
            # decoder: flags = byte | K ; while (flags & M) { if (flags & 1) ...; flags >>= 1 }
            k_or = m_and = None
            for n in c_walk(body):
                if n.get('kind') == 'VarDecl' and n.get('name') == flags_c and n.get('inner'):
                    e = c_strip(n['inner'][-1])
                    if e.get('opcode') == '|':
                        k_or = int(c_strip(e['inner'][1]).get('value', '0'))
            wc = c_strip(inner_while['inner'][0]) if inner_while else {}
            if wc.get('opcode') == '&':
                m_and = int(c_strip(wc['inner'][1]).get('value', '0'))
            sh = [x for x in c_walk(inner_while) if x.get('kind') == 'CompoundAssignOperator' and x.get('opcode') == '>>=' and c_name(x['inner'][0]) == flags_c] if inner_while else []
            if k_or is None or m_and is None or not sh:
                r2.violate('StringTools.__pyx_lzss_decompress:flags', rel_c, decl[0].line, 'decoder flag register structure not recognised')
            else:
                cur = binop(st3, '|', byte, const(k_or))
                okf = True
                for i in range(8):
                    cont = binop(st3, '&', cur, const(m_and))
                    if not (cont.lo is not None and cont.lo > 0):
                        okf = False
                    if cur.bits[0] != ('b', fat[i], 0):
                        okf = False
                    cur = binop(st3, '>>', cur, const(int(c_strip(sh[0]['inner'][1]).get('value', '1'))))
                cont = binop(st3, '&', cur, const(m_and))
                if not (cont.hi == 0):
                    okf = False
                if not okf:
                    r2.violate('LZSS:flag-order', rel_c, decl[0].line,
                               'flag register mismatch: token i of a group is not read from the bit the encoder stored it in, or the decoder does not stop after 8 tokens (encoder byte bits %r)' % (byte.bits[:8],))
    return [r, r2]
