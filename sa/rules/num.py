"""NUM rule family: interval / known-bits abstract interpretation (C44, C12)."""


def linetable_rules(ctx):
    return []
