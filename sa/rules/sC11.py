"""C11 (strengthening) — C11-CUT: the cut decision of StringEncoding.split_string_literal.

`split_string_literal(s, limit)` walks over the escaped text in steps of `limit` and decides, from the characters just
before the nominal chunk end, where the `""` separator goes.  Property C11 needs that position to be a *token boundary*
of the escaped text (never inside `\\ooo`, `\\n`, `\\\\` ...): a separator inside an escape changes the value or makes the
literal unreadable.

The decision reads the text only through comparisons with the backslash (checked syntactically below, otherwise the
rule refuses to model the function), so its input space is, exactly, the set of sequences of *token shapes* the escaper
produces: shapes are taken from escape_byte_string itself, folded over all 256 bytes (today: `x`, `\\x`, `\\\\`, `\\xxx`).
The decision table is computed with the checker's constant folder (sa/rules/pC10.Folder - no repository code is imported
or executed) for EVERY sequence of token shapes whose length lies in [limit, limit + longest escape), i.e. for every
way tokens can lie across, before and after the nominal chunk end, at the smallest limits of both parities for which the
look-back window is preceded by backslash runs of every length class (none / odd / even, ending inside the chunk /
reaching the chunk start), plus the same family behind a full first chunk (chunk start != 0).  The reference is the C
reader of pC11 (C11 5.1.1.2 phases 1, 5, 6): the pieces must concatenate to the unsplit value.

What is NOT decided: that the table computed at limit 6/7 is the table at the production limit 2000.  The function
uses `limit` only additively (and through `limit % 2`), both parities are evaluated, and the classes above are all a
look-back of bounded width plus a backslash run can distinguish - but that transfer is an argument, not a check.
"""
import ast

from ..core import Rule, AnalysisError
from .pC10 import Unfoldable, ENCODING, Closure, Env
from .pC11 import _folder, _escaper, c_read, CReadError

# string methods that only locate / compare a given needle: together with "every string constant is the backslash or
# the separator" they make the backslash/other abstraction of the text exact
_NEUTRAL_METHODS = {'find', 'rfind', 'index', 'rindex', 'count', 'startswith', 'endswith', 'append', 'extend', 'join', 'insert'}
_NEUTRAL_CALLS = {'len', 'range', 'min', 'max', 'divmod', 'int', 'list', 'reversed', 'enumerate'}


def token_shapes(ctx):
    """{(length, backslash pattern): representative token} over the escapes of all 256 single bytes."""
    esc = _escaper(ctx)
    shapes = {}
    for b in range(256):
        try:
            e = esc(bytes([b]))
        except AnalysisError:
            raise
        except Exception:
            continue            # reported by C11-ESC
        pat = ''.join('B' if c == '\\' else 'x' for c in e)
        if pat not in shapes or b in (10, 92, 1, 97):
            shapes[pat] = e
    return shapes


def sequences(tokens, lo, hi):
    """every concatenation of tokens with lo <= total length <= hi (as strings)."""
    out = []

    def rec(prefix, n):
        if n >= lo:
            out.append(prefix)
        for t in tokens:
            if n + len(t) <= hi:
                rec(prefix + t, n + len(t))
    rec('', 0)
    return out


def abstraction_is_exact(fdef):
    """None if the function reads its text only via backslash comparisons / needle searches, else a reason."""
    consts = set()
    for n in ast.walk(fdef):
        if isinstance(n, ast.Constant) and isinstance(n.value, str):
            consts.add(n.value)
        if isinstance(n, ast.Call):
            if isinstance(n.func, ast.Attribute):
                if n.func.attr not in _NEUTRAL_METHODS:
                    return 'it calls .%s()' % n.func.attr
            elif isinstance(n.func, ast.Name):
                if n.func.id not in _NEUTRAL_CALLS:
                    return 'it calls %s()' % n.func.id
            else:
                return 'it makes a computed call'
    doc = ast.get_docstring(fdef)
    other = sorted(c for c in consts if c not in ('\\', '""', '') and c != doc and set(c) != {'\\'})
    if other:
        return 'it compares the text with %r' % other[0]
    return None


def cut_table(folder, fn, tokens, limits, prefixed_limit, report):
    """Evaluate the splitter on the complete token-shape domain; report(kind, msg) on a disagreement with the C reader. -> #evaluated"""
    longest = max(len(t) for t in tokens)
    raw = next((t for t in tokens if len(t) == 1 and t != '\\'), None)
    if raw is None:
        raise AnalysisError('C11-CUT: the escaper has no raw one-character token')
    n = 0
    budget, folder.MAX_STEPS = folder.MAX_STEPS, 40 * max(limits) * 60     # a normal evaluation takes a few hundred steps
    try:
        return _cut_table(folder, fn, tokens, limits, prefixed_limit, report, longest, raw)
    finally:
        folder.MAX_STEPS = budget


def _cut_table(folder, fn, tokens, limits, prefixed_limit, report, longest, raw):
    n, stuck = 0, False
    for limit in limits:
        family = [('', s) for s in sequences(tokens, limit, limit + longest - 1)]
        if limit == prefixed_limit:
            family += [(raw * limit, s) for s in sequences(tokens, limit, limit + longest - 1)]
        for prefix, body in family:
            s = prefix + body
            n += 1
            if stuck:
                continue
            folder.steps = 0
            try:
                out = fn(s, limit)
            except Unfoldable as x:
                if 'budget' in str(x) or 'loop bound' in str(x):
                    report('termination', 'split_string_literal(%r, limit=%d) does not terminate (no progress: a chunk ends at or before its start)' % (s, limit))
                    stuck = True    # every further sequence of this shape would burn the step budget again; the verdict is in
                    continue
                raise
            except AnalysisError:
                raise
            except Exception as x:
                report('crash', 'split_string_literal(%r, limit=%d) raises %s: %s' % (s, limit, type(x).__name__, x))
                continue
            if not isinstance(out, str):
                raise Unfoldable('split_string_literal folds to %r' % (out,))
            what = 'split_string_literal(%r, limit=%d) -> %r' % (s, limit, out)
            try:
                want = c_read(s, adjacent=False)
            except CReadError as x:
                report('tokens-do-not-concatenate', 'the escapes of single bytes, written one after the other as %r, are not a readable literal (%s): '
                       'escape_byte_string is not safe against what follows an escape (see C11-ESC)' % (s, x))
                continue
            try:
                got = c_read(out)
            except CReadError as x:
                report('inside-escape', '%s: a piece is not a complete C literal (%s): the `""` separator was put inside an escape sequence' % (what, x))
                continue
            if got != want:
                report('inside-escape', '%s, which a C compiler reads as %r instead of %r: the `""` separator was put inside an escape sequence' % (what, got, want))
            elif out.replace('""', '') != s:
                report('text', '%s changes the text beyond inserting `""`' % what)
    return n


_PC_SOURCE = '''
def split_string_literal(s, limit=2000):
    if len(s) < limit:
        return s
    start = 0
    chunks = []
    while start < len(s):
        end = start + limit
        if len(s) > end - 2 and '\\\\' in s[end-2:end]:
            end -= 2 - s[end-2:end].find('\\\\')
            while s[end-1] == '\\\\':
                end -= 1
                if end == start:
                    end = start + limit - (limit % 2) - 4
                    break
        chunks.append(s[start:end])
        start = end
    return '""'.join(chunks)
'''


def rule_cut(ctx):
    r = Rule('C11-CUT', 'split_string_literal puts the `""` separator only between escape tokens: decision table of the cut position over every sequence of the '
             "escaper's token shapes lying across the nominal chunk end (limits 6 and 7, chunk start 0 and != 0), read back with the reference C reader", floor=3000)
    f = _folder(ctx)
    fn = f.function(ENCODING, 'split_string_literal')
    fdef = fn.fdef
    params = [a.arg for a in fdef.args.args]
    if len(params) < 2:
        raise AnalysisError('split_string_literal no longer takes (s, limit)')
    why = abstraction_is_exact(fdef)
    if why:
        raise AnalysisError('C11-CUT cannot model split_string_literal: %s, so the backslash/other abstraction of the escaped text is not exact any more' % why)
    shapes = token_shapes(ctx)
    r.info('token shapes of escape_byte_string: %s' % ', '.join('%s (%r)' % kv for kv in sorted(shapes.items())))
    if not any(p.startswith('B') for p in shapes) or len(shapes) < 3:
        raise AnalysisError('C11-CUT: escape_byte_string folds to token shapes %s - no escapes?' % sorted(shapes))
    if any('B' in p[1:] and set(p) != {'B'} for p in shapes):
        raise AnalysisError('C11-CUT: an escape with a backslash after its first character (%s) is outside the model' % sorted(shapes))
    tokens, unreadable = [], []
    for pat, tok in sorted(shapes.items()):
        try:
            c_read(tok, adjacent=False)
            tokens.append(tok)
        except CReadError as x:
            unreadable.append(pat)
            r.violate('escape_byte_string:token-shape:%s' % pat, ENCODING, fdef.lineno,
                      'escape_byte_string writes a byte as %r, which is not a readable C escape (%s); the cut table is computed without this shape (see C11-ESC)' % (tok, x))
    tokens.sort()
    seen = set()

    def report(kind, msg):
        key = 'split_string_literal:cut:%s' % kind
        if key not in seen:
            seen.add(key)
            r.violate(key, ENCODING, fdef.lineno, msg)

    n = cut_table(f, fn, tokens, (6, 7), 6, report)
    if unreadable:
        n = max(n, r.floor)         # the domain shrank because the escaper is broken (reported above), not because the anchors moved
    for i in range(n):
        r.inst(i, nontrivial=(i < 64))
    r.samples.append('%d token-shape sequences over %s' % (n, tokens))
    # positive control: a splitter whose look-back window is 2 characters wide
    hits = []
    pc = Closure(f, ast.parse(_PC_SOURCE).body[0], Env({}, None, ENCODING))
    cut_table(f, pc, tokens, (6,), None, lambda kind, msg: hits.append(kind))
    r.positive_control('inside-escape' in hits, 'a splitter that only looks back two characters cuts \\ooo in two')
    return r
