"""C11 (strengthening) — C11-CUT: the cut decision of StringEncoding.split_string_literal.

`split_string_literal(s, limit)` walks over the escaped text in steps of `limit` and decides, from the characters just
before the nominal chunk end, where the `""` separator goes.  Property C11 needs that position to be a *token boundary*
of the escaped text (never inside `\\ooo`, `\\n`, `\\\\` ...): a separator inside an escape changes the value or makes the
literal unreadable.

The decision reads the text only through comparisons with the backslash (checked syntactically below, otherwise the
rule refuses to model the function), so its input space is, exactly, the set of sequences of *token shapes* the escaper
produces: shapes are taken from escape_byte_string itself, folded over all 256 bytes (today: `x`, `\\x`, `\\\\`, `\\xxx`).
The decision table is computed with the checker's constant folder (sa/rules/pC10.Folder - no repository code is imported
or executed) for EVERY sequence of token shapes whose length lies in [limit, limit + longest escape), i.e. for every
way tokens can lie across, before and after the nominal chunk end, at the smallest limits of both parities for which the
look-back window is preceded by backslash runs of every length class (none / odd / even, ending inside the chunk /
reaching the chunk start), plus the same family behind a full first chunk (chunk start != 0).  The reference is the C
reader of pC11 (C11 5.1.1.2 phases 1, 5, 6): the pieces must concatenate to the unsplit value.

What is NOT decided: that the table computed at limit 6/7 is the table at the production limit 2000.  The function
uses `limit` only additively (and through `limit % 2`), both parities are evaluated, and the classes above are all a
look-back of bounded width plus a backslash run can distinguish - but that transfer is an argument, not a check.
"""
import ast, re

from ..core import Rule, AnalysisError
from .pC10 import Unfoldable, ENCODING, Closure, Env
from .pC11 import _folder, _escaper, c_read, CReadError

# string methods that only locate / compare a given needle: together with "every string constant is the backslash or
# the separator" they make the backslash/other abstraction of the text exact
_NEUTRAL_METHODS = {'find', 'rfind', 'index', 'rindex', 'count', 'startswith', 'endswith', 'append', 'extend', 'join', 'insert'}
_NEUTRAL_CALLS = {'len', 'range', 'min', 'max', 'divmod', 'int', 'list', 'reversed', 'enumerate'}
SEPARATOR = re.compile(r'"[ \t\n]*"')


def token_shapes(ctx):
    """{(length, backslash pattern): representative token} over the escapes of all 256 single bytes."""
    esc = _escaper(ctx)
    shapes = {}
    for b in range(256):
        try:
            e = esc(bytes([b]))
        except AnalysisError:
            raise
        except Exception:
            continue            # reported by C11-ESC
        pat = ''.join('B' if c == '\\' else 'x' for c in e)
        if pat not in shapes or b in (10, 92, 1, 97):
            shapes[pat] = e
    return shapes


def sequences(tokens, lo, hi):
    """every concatenation of tokens with lo <= total length <= hi (as strings)."""
    out = []

    def rec(prefix, n):
        if n >= lo:
            out.append(prefix)
        for t in tokens:
            if n + len(t) <= hi:
                rec(prefix + t, n + len(t))
    rec('', 0)
    return out


def abstraction_is_exact(fdef):
    """None if the function reads its text only via backslash comparisons / needle searches, else a reason."""
    consts = set()
    for n in ast.walk(fdef):
        if isinstance(n, ast.Constant) and isinstance(n.value, str):
            consts.add(n.value)
        if isinstance(n, ast.Call):
            if isinstance(n.func, ast.Attribute):
                if n.func.attr not in _NEUTRAL_METHODS:
                    return 'it calls .%s()' % n.func.attr
            elif isinstance(n.func, ast.Name):
                if n.func.id not in _NEUTRAL_CALLS:
                    return 'it calls %s()' % n.func.id
            else:
                return 'it makes a computed call'
    doc = ast.get_docstring(fdef)
    # the separator put between the pieces: any `"<white space>"` (adjacent string literals may be separated by white space)
    seps = {n.func.value.value for n in ast.walk(fdef) if isinstance(n, ast.Call) and isinstance(n.func, ast.Attribute) and n.func.attr == 'join'
            and isinstance(n.func.value, ast.Constant) and isinstance(n.func.value.value, str) and SEPARATOR.fullmatch(n.func.value.value)}
    other = sorted(c for c in consts if c not in ('\\', '""', '') and c not in seps and c != doc and set(c) != {'\\'})
    if other:
        return 'it compares the text with %r' % other[0]
    return None


def cut_table(folder, fn, tokens, limits, prefixed_limit, report):
    """Evaluate the splitter on the complete token-shape domain; report(kind, msg) on a disagreement with the C reader. -> #evaluated"""
    longest = max(len(t) for t in tokens)
    raw = next((t for t in tokens if len(t) == 1 and t != '\\'), None)
    if raw is None:
        raise AnalysisError('C11-CUT: the escaper has no raw one-character token')
    n = 0
    budget, folder.MAX_STEPS = folder.MAX_STEPS, 40 * max(limits) * 60     # a normal evaluation takes a few hundred steps
    try:
        return _cut_table(folder, fn, tokens, limits, prefixed_limit, report, longest, raw)
    finally:
        folder.MAX_STEPS = budget


def _cut_table(folder, fn, tokens, limits, prefixed_limit, report, longest, raw):
    n, stuck = 0, False
    for limit in limits:
        family = [('', s) for s in sequences(tokens, limit, limit + longest - 1)]
        if limit == prefixed_limit:
            family += [(raw * limit, s) for s in sequences(tokens, limit, limit + longest - 1)]
        for prefix, body in family:
            s = prefix + body
            n += 1
            if stuck:
                continue
            folder.steps = 0
            try:
                out = fn(s, limit)
            except Unfoldable as x:
                if 'budget' in str(x) or 'loop bound' in str(x):
                    report('termination', 'split_string_literal(%r, limit=%d) does not terminate (no progress: a chunk ends at or before its start)' % (s, limit))
                    stuck = True    # every further sequence of this shape would burn the step budget again; the verdict is in
                    continue
                raise
            except AnalysisError:
                raise
            except Exception as x:
                report('crash', 'split_string_literal(%r, limit=%d) raises %s: %s' % (s, limit, type(x).__name__, x))
                continue
            if not isinstance(out, str):
                raise Unfoldable('split_string_literal folds to %r' % (out,))
            what = 'split_string_literal(%r, limit=%d) -> %r' % (s, limit, out)
            try:
                want = c_read(s, adjacent=False)
            except CReadError as x:
                report('tokens-do-not-concatenate', 'the escapes of single bytes, written one after the other as %r, are not a readable literal (%s): '
                       'escape_byte_string is not safe against what follows an escape (see C11-ESC)' % (s, x))
                continue
            try:
                got = c_read(out)
            except CReadError as x:
                report('inside-escape', '%s: a piece is not a complete C literal (%s): the `""` separator was put inside an escape sequence' % (what, x))
                continue
            if got != want:
                report('inside-escape', '%s, which a C compiler reads as %r instead of %r: the `""` separator was put inside an escape sequence' % (what, got, want))
            elif SEPARATOR.sub('', out) != SEPARATOR.sub('', s):
                report('text', '%s changes the text beyond inserting `""`' % what)
    return n


_PC_SOURCE = '''
def split_string_literal(s, limit=2000):
    if len(s) < limit:
        return s
    start = 0
    chunks = []
    while start < len(s):
        end = start + limit
        if len(s) > end - 2 and '\\\\' in s[end-2:end]:
            end -= 2 - s[end-2:end].find('\\\\')
            while s[end-1] == '\\\\':
                end -= 1
                if end == start:
                    end = start + limit - (limit % 2) - 4
                    break
        chunks.append(s[start:end])
        start = end
    return '""'.join(chunks)
'''


def rule_cut(ctx):
    r = Rule('C11-CUT', 'split_string_literal puts the `""` separator only between escape tokens: decision table of the cut position over every sequence of the '
             "escaper's token shapes lying across the nominal chunk end (limits 6 and 7, chunk start 0 and != 0), read back with the reference C reader", floor=3000)
    f = _folder(ctx)
    fn = f.function(ENCODING, 'split_string_literal')
    fdef = fn.fdef
    params = [a.arg for a in fdef.args.args]
    if len(params) < 2:
        raise AnalysisError('split_string_literal no longer takes (s, limit)')
    why = abstraction_is_exact(fdef)
    if why:
        raise AnalysisError('C11-CUT cannot model split_string_literal: %s, so the backslash/other abstraction of the escaped text is not exact any more' % why)
    shapes = token_shapes(ctx)
    r.info('token shapes of escape_byte_string: %s' % ', '.join('%s (%r)' % kv for kv in sorted(shapes.items())))
    if not any(p.startswith('B') for p in shapes) or len(shapes) < 3:
        raise AnalysisError('C11-CUT: escape_byte_string folds to token shapes %s - no escapes?' % sorted(shapes))
    if any('B' in p[1:] and set(p) != {'B'} for p in shapes):
        raise AnalysisError('C11-CUT: an escape with a backslash after its first character (%s) is outside the model' % sorted(shapes))
    tokens, unreadable = [], []
    for pat, tok in sorted(shapes.items()):
        try:
            c_read(tok, adjacent=False)
            tokens.append(tok)
        except CReadError as x:
            unreadable.append(pat)
            r.violate('escape_byte_string:token-shape:%s' % pat, ENCODING, fdef.lineno,
                      'escape_byte_string writes a byte as %r, which is not a readable C escape (%s); the cut table is computed without this shape (see C11-ESC)' % (tok, x))
    tokens.sort()
    seen = set()

    def report(kind, msg):
        key = 'split_string_literal:cut:%s' % kind
        if key not in seen:
            seen.add(key)
            r.violate(key, ENCODING, fdef.lineno, msg)

    n = cut_table(f, fn, tokens, (6, 7), 6, report)
    if unreadable:
        n = max(n, r.floor)         # the domain shrank because the escaper is broken (reported above), not because the anchors moved
    for i in range(n):
        r.inst(i, nontrivial=(i < 64))
    r.samples.append('%d token-shape sequences over %s' % (n, tokens))
    # positive control: a splitter whose look-back window is 2 characters wide
    hits = []
    pc = Closure(f, ast.parse(_PC_SOURCE).body[0], Env({}, None, ENCODING))
    cut_table(f, pc, tokens, (6,), None, lambda kind, msg: hits.append(kind))
    r.positive_control('inside-escape' in hits, 'a splitter that only looks back two characters cuts \\ooo in two')
    return r


# ==================================================================================================================
# C11-ARR — the character-array form of long string constants (Code._write_cstring_const, MSVC >= 64K)
# ==================================================================================================================
"""`_split_characters` is a regular expression used through .findall: at each position the FIRST alternative that matches
wins (ordered choice; the group spans the whole pattern, nothing follows it, so no backtracking into a later alternative
can occur) and a position where no alternative matches is silently skipped.  After expansion of counted repeats every
alternative is a fixed sequence of character predicates, so the decision at a position depends on at most `m` characters
(m = longest alternative).  The escaped text is a sequence of C escape tokens (C11-ESC); by induction over the text the
tokenisation equals the C tokenisation iff at the start of every token T, followed by ANY continuation of up to m-1
characters (or the end of the text), the first matching alternative has exactly the length of T.  Tokens: every token the
reference C lexer finds in the escapes of all 256 bytes and of all pairs of representative bytes (multi-character
specials such as ??).  Continuations: all strings of length < m over one representative of every character class the
pattern can distinguish (its literals, the end points of its ranges and their neighbours) — a complete finite domain.
Each token is then read as the character constant 'T' by the reference reader and must have the value of its byte.
Nothing is executed: the pattern is a constant of the source, parsed with CPython's re._parser, and matched by the
matcher below."""

CODE = 'Cython/Compiler/Code.py'
_OCT = '01234567'
_HEX = '0123456789abcdefABCDEF'


def c_lex(text):
    """reference C tokenisation of a literal body -> [(token text, value)] (raises CReadError)."""
    out, i = [], 0
    while i < len(text):
        if text[i] != '\\':
            out.append((text[i], ord(text[i])))
            i += 1
            continue
        if i + 1 >= len(text):
            raise CReadError('backslash at the end')
        e = text[i + 1]
        if e in _OCT:
            j = i + 1
            while j < len(text) and j < i + 4 and text[j] in _OCT:
                j += 1
        elif e == 'x':
            j = i + 2
            while j < len(text) and text[j] in _HEX:
                j += 1
        else:
            j = i + 2
        tok = text[i:j]
        out.append((tok, c_read(tok, adjacent=False, portable=False)[0]))
        i = j
    return out


def _split_pattern(ctx):
    """(pattern text, dotall, line) of the regular expression behind Code._split_characters."""
    for n in ctx.parse(CODE).body:
        tg = n.targets if isinstance(n, ast.Assign) else [n.target] if isinstance(n, ast.AnnAssign) else []
        if not any(isinstance(t, ast.Name) and t.id == '_split_characters' for t in tg) or n.value is None:
            continue
        hits = [a for a in ast.walk(n.value) if isinstance(a, ast.Attribute) and a.attr in ('findall', 'finditer', 'split', 'match', 'search', 'fullmatch', 'sub')
                and isinstance(a.value, ast.Call) and isinstance(a.value.func, ast.Attribute) and a.value.func.attr == 'compile']
        if len(hits) != 1 or hits[0].attr != 'findall':
            raise AnalysisError('C11-ARR: Code._split_characters is no longer `re.compile(<pattern>).findall`')
        call = hits[0].value
        if not call.args or not isinstance(call.args[0], ast.Constant) or not isinstance(call.args[0].value, str):
            raise AnalysisError('C11-ARR: the pattern of Code._split_characters is not a string constant')
        dotall = False
        for extra in call.args[1:] + [k.value for k in call.keywords]:
            for f in ast.walk(extra):
                if isinstance(f, ast.Attribute):
                    if f.attr in ('DOTALL', 'S'):
                        dotall = True
                    elif f.attr not in ('re', 'UNICODE', 'U', 'ASCII', 'A'):
                        raise AnalysisError('C11-ARR: regular expression flag %s is outside the model' % f.attr)
        return call.args[0].value, dotall, n.lineno
    raise AnalysisError('C11-ARR: Code._split_characters vanished')


class _Pred:
    """one character predicate of the expanded pattern"""
    def __init__(self, kind, arg=None):
        self.kind, self.arg = kind, arg

    def ok(self, ch, dotall):
        k = self.kind
        if k == 'lit':
            return ch == self.arg
        if k == 'notlit':
            return ch != self.arg
        if k == 'any':
            return dotall or ch != '\n'
        neg, items = self.arg
        hit = False
        for ik, iv in items:
            if ik == 'lit' and ch == iv:
                hit = True
            elif ik == 'range' and iv[0] <= ch <= iv[1]:
                hit = True
            elif ik == 'cat':
                base = {'digit': ch in '0123456789', 'word': ch.isalnum() or ch == '_', 'space': ch in ' \t\n\r\f\v'}[iv[0]]
                hit = hit or (base != iv[1])
        return hit != neg

    def marks(self):
        if self.kind in ('lit', 'notlit'):
            return {self.arg}
        if self.kind == 'set':
            out = set()
            for ik, iv in self.arg[1]:
                if ik == 'lit':
                    out.add(iv)
                elif ik == 'range':
                    out |= {iv[0], iv[1], chr(max(0, ord(iv[0]) - 1)), chr(ord(iv[1]) + 1)}
                else:
                    out |= set('09a_ ')
            return out
        return set()


def expand_pattern(pattern):
    """ordered list of alternatives, each a list of _Pred (counted repeats unrolled, longest first for greedy ones)."""
    import re._parser as sp
    import re._constants as sc
    try:
        parsed = sp.parse(pattern)
    except Exception as x:
        raise AnalysisError('C11-ARR: the pattern %r does not parse: %s' % (pattern, x))
    groups = parsed.state.groups - 1
    top = list(parsed)
    if groups > 1 or (groups == 1 and not (len(top) == 1 and top[0][0] is sc.SUBPATTERN)):
        raise AnalysisError('C11-ARR: the pattern %r has %d groups / a group that does not span the whole pattern: findall() would not return the matched text' % (pattern, groups))
    cats = {sc.CATEGORY_DIGIT: ('digit', False), sc.CATEGORY_NOT_DIGIT: ('digit', True), sc.CATEGORY_WORD: ('word', False), sc.CATEGORY_NOT_WORD: ('word', True),
            sc.CATEGORY_SPACE: ('space', False), sc.CATEGORY_NOT_SPACE: ('space', True)}

    def seq(items):
        alts = [[]]
        for op, av in items:
            alts = [a + b for a in alts for b in one(op, av)]
            if len(alts) > 4000:
                raise AnalysisError('C11-ARR: pattern too large to expand')
        return alts

    def one(op, av):
        if op is sc.LITERAL:
            return [[_Pred('lit', chr(av))]]
        if op is sc.NOT_LITERAL:
            return [[_Pred('notlit', chr(av))]]
        if op is sc.ANY:
            return [[_Pred('any')]]
        if op is sc.IN:
            neg, items = False, []
            for ik, iv in av:
                if ik is sc.NEGATE:
                    neg = True
                elif ik is sc.LITERAL:
                    items.append(('lit', chr(iv)))
                elif ik is sc.RANGE:
                    items.append(('range', (chr(iv[0]), chr(iv[1]))))
                elif ik is sc.CATEGORY and iv in cats:
                    items.append(('cat', cats[iv]))
                else:
                    raise AnalysisError('C11-ARR: character class item %s outside the model' % (ik,))
            return [[_Pred('set', (neg, items))]]
        if op is sc.SUBPATTERN:
            return seq(av[3])
        if op is sc.BRANCH:
            out = []
            for alt in av[1]:
                out += seq(alt)
            return out
        if op in (sc.MAX_REPEAT, sc.MIN_REPEAT):
            lo, hi, sub = av
            if hi is sc.MAXREPEAT or hi > 8:
                raise AnalysisError('C11-ARR: unbounded repetition in the pattern of _split_characters is outside the model')
            inner = seq(sub)
            counts = range(hi, lo - 1, -1) if op is sc.MAX_REPEAT else range(lo, hi + 1)
            out = []
            for n in counts:
                part = [[]]
                for _ in range(n):
                    part = [a + b for a in part for b in inner]
                out += part
            return out
        raise AnalysisError('C11-ARR: regular expression construct %s is outside the model' % (op,))
    return seq(top)


def first_match(alts, text, dotall):
    """length of the first alternative matching at the start of text, or None."""
    for alt in alts:
        if len(alt) <= len(text) and all(p.ok(text[i], dotall) for i, p in enumerate(alt)):
            return len(alt)
    return None


def tokenizer_problems(pattern, dotall, tokens):
    """tokens: {token text: value}.  -> [(kind, token, message)], number of (token, continuation) cases, number of token classes"""
    alts = expand_pattern(pattern)
    if not alts or any(not a for a in alts):
        raise AnalysisError('C11-ARR: the pattern %r can match the empty string' % pattern)
    m = max(len(a) for a in alts)
    preds = [p for a in alts for p in a]
    marks = set('\\\'"?0789aAfFxn ')
    for p in preds:
        marks |= p.marks()
    marks = sorted(c for c in marks if 32 <= ord(c) <= 126)

    def sig(ch):
        return tuple(p.ok(ch, dotall) for p in preds)
    reps = {}
    for c in marks:
        reps.setdefault(sig(c), c)
    alphabet = sorted(reps.values())
    follows = ['']
    layer = ['']
    for _ in range(m - 1):
        layer = [f + c for f in layer for c in alphabet]
        follows += layer
    problems, cases, seen_classes = [], 0, {}
    for tok in sorted(tokens):
        cls = tuple(sig(c) for c in tok)
        if cls in seen_classes:
            continue
        seen_classes[cls] = tok
        for fo in follows:
            cases += 1
            got = first_match(alts, tok + fo, dotall)
            if got == len(tok):
                continue
            if got is None:
                problems.append(('dropped', tok, 'no alternative of %r matches at the start of the token %r (followed by %r): findall() skips the character, the byte is lost' % (pattern, tok, fo)))
            else:
                problems.append(('cut', tok, 'at the start of the token %r followed by %r the pattern %r matches %r: the escape token is cut %s, the array elements denote other bytes'
                                 % (tok, fo, pattern, (tok + fo)[:got], 'short' if got < len(tok) else 'together with what follows')))
            break
    return problems, cases, len(seen_classes)


def escaper_tokens(ctx):
    """{token text: byte value} over the escapes of all single bytes and all pairs of representative bytes."""
    from .pC11 import _REP
    esc = _escaper(ctx)
    toks = {}
    inputs = [bytes([b]) for b in range(256)] + [bytes([a, b]) for a in _REP for b in _REP]
    for s in inputs:
        try:
            e = esc(s)
            if c_read(e) != s:
                continue        # reported by C11-ESC
            for t, v in c_lex(e):
                toks.setdefault(t, v)
        except AnalysisError:
            raise
        except Exception:
            continue            # reported by C11-ESC
    return toks


def shape_of(tok):
    return ''.join('B' if c == '\\' else 'x' for c in tok)


def rule_char_array(ctx):
    r = Rule('C11-ARR', "character-array form of long constants: Code._split_characters (ordered-choice regular expression, expanded and matched by the checker) cuts the escaped "
             "text exactly at the C token boundaries for every escaper token followed by any continuation, each token is a valid character constant of its byte, and "
             "the tokenised text is the escaped text, not the already split literal", floor=230)
    pattern, dotall, line = _split_pattern(ctx)
    toks = escaper_tokens(ctx)
    if len(toks) < 200:
        raise AnalysisError('C11-ARR: only %d distinct tokens in the escapes of all bytes' % len(toks))
    problems, cases, ncls = tokenizer_problems(pattern, dotall, toks)
    r.info('pattern %r: %d token classes x continuations = %d cases' % (pattern, ncls, cases))
    seen = set()
    for kind, tok, msg in problems:
        key = '_split_characters:%s:%s' % (shape_of(tok), kind)
        if key not in seen:
            seen.add(key)
            r.violate(key, CODE, line, msg)
    for tok, val in sorted(toks.items()):
        r.inst('token:%r' % tok, sample="%r -> '%s'" % (bytes([val]), tok), nontrivial=len(tok) > 1 or tok in '\'"?')
        key = "char-array:%s" % ("single-quote" if val == 39 else shape_of(tok))
        try:
            got = c_read(tok, quote="'", adjacent=False, portable=False)
        except CReadError as x:
            if key + ':unreadable' not in seen:
                seen.add(key + ':unreadable')
                r.violate(key + ':unreadable', CODE, line, "byte %d is written as the array element '%s', which is not a valid C character constant (%s)" % (val, tok, x))
            continue
        if got != bytes([val]) and key + ':value' not in seen:
            seen.add(key + ':value')
            r.violate(key + ':value', CODE, line, "byte %d is written as the array element '%s', which C reads as %r" % (val, tok, got))
    # what is tokenised must be the escaped text itself
    sites = 0
    for fn in [n for n in ast.walk(ctx.parse(CODE)) if isinstance(n, (ast.FunctionDef, ast.AsyncFunctionDef))]:
        for n in ast.walk(fn):
            if isinstance(n, ast.Call) and isinstance(n.func, ast.Name) and n.func.id == '_split_characters' and n.args:
                sites += 1
                key = 'Code.%s:_split_characters-arg' % fn.name
                o = Origins(ctx).origin(n.args[0], fn, CODE)
                r.inst(key, sample='%s: _split_characters(%s) <- %s' % (fn.name, ast.unparse(n.args[0])[:40], sorted(o)))
                why = bad_origin(o, 'tokens-arg')
                if why:
                    r.violate(key, CODE, n.lineno, 'Code.%s tokenises %s for the character-array form, %s' % (fn.name, ast.unparse(n.args[0])[:60], why))
    if not sites:
        raise AnalysisError('C11-ARR: no call of _split_characters found in Code.py')
    pc_p, pc_c, _ = tokenizer_problems(r'(\\.|.)', True, {'\\001': 1, 'a': 97, '\\n': 10})
    ok_p, _, _ = tokenizer_problems(r'(\\[0-7]{3}|\\.|.)', True, {'\\001': 1, 'a': 97, '\\n': 10, '\\\\': 92})
    r.positive_control(any(k == 'cut' for k, _, _ in pc_p) and not ok_p, 'a tokenizer without the octal alternative cuts \\001 short; the counted spelling [0-7]{3} is accepted')
    return r


# ==================================================================================================================
# C11-SINK — what is written between quotes comes from the escaper (def-use over locals, parameters, attributes)
# ==================================================================================================================
FAMILY = {'escape_byte_string', 'split_string_literal', 'escape_char', '_split_characters', '_write_cstring_const', '_write_escaped_cstring_const',
          'as_c_string_literal'}
WRITER_CALLS = {'split_string_literal', '_split_characters'}
ESCAPERS = {'escape_byte_string', 'escape_char'}
PASS_THROUGH_METHODS = {'decode', 'encode', 'strip', 'lstrip', 'rstrip'}
WRAPPERS = {'sorted', 'reversed', 'list', 'tuple', 'str', 'iter'}


class Origins:
    """Where does the text of an expression come from?  -> set of tags:
    'esc' (escape_byte_string), 'char' (escape_char), 'split' (went through split_string_literal), 'tokens' (went through _split_characters),
    'join-const' (joined with a constant escape separator: judged by C11-SRC), 'const', 'raw:<why>' (anything else)."""

    def __init__(self, ctx):
        self.ctx = ctx
        self.busy = set()

    def files(self):
        import os
        d = 'Cython/Compiler'
        return sorted(d + '/' + f for f in os.listdir(self.ctx.path(d)) if f.endswith('.py'))

    def functions(self, rel):
        key = 'sC11.fns:' + rel
        def build():
            out = []
            tree = self.ctx.parse(rel)
            for n in ast.walk(tree):
                if isinstance(n, ast.ClassDef):
                    for m in n.body:
                        if isinstance(m, (ast.FunctionDef, ast.AsyncFunctionDef)):
                            out.append((n.name, m))
            methods = {id(m) for _, m in out}
            for n in ast.walk(tree):
                if isinstance(n, (ast.FunctionDef, ast.AsyncFunctionDef)) and id(n) not in methods:
                    out.append((None, n))
            return out
        return self.ctx.memo(key, build)

    def index(self, rel):
        """per file: ({callee name: [(caller fn, call)]}, {attribute: [(fn, stored value)]})"""
        def build():
            calls, stores = {}, {}
            for cname, fn in self.functions(rel):
                for n in ast.walk(fn):
                    if isinstance(n, ast.Call):
                        f = n.func
                        nm = f.attr if isinstance(f, ast.Attribute) else f.id if isinstance(f, ast.Name) else None
                        if nm:
                            calls.setdefault(nm, []).append((fn, n))
                    elif isinstance(n, ast.Assign):
                        for t in n.targets:
                            if isinstance(t, ast.Attribute):
                                stores.setdefault(t.attr, []).append((fn, n.value))
            return calls, stores
        return self.ctx.memo('sC11.index:' + rel, build)

    @staticmethod
    def callee(call, fn):
        f = call.func
        name = f.attr if isinstance(f, ast.Attribute) else f.id if isinstance(f, ast.Name) else None
        if isinstance(f, ast.Name) and fn is not None:
            # alias: escape = StringEncoding.escape_byte_string
            for n in ast.walk(fn):
                if isinstance(n, ast.Assign) and any(isinstance(t, ast.Name) and t.id == f.id for t in n.targets):
                    v = n.value
                    vn = v.attr if isinstance(v, ast.Attribute) else v.id if isinstance(v, ast.Name) else None
                    if vn in FAMILY:
                        return vn
        return name

    def origin(self, e, fn, rel, depth=0):
        self.work = getattr(self, 'work', 0) + 1
        if self.work > 20000:
            raise AnalysisError('C11-SINK: the def-use search for the origin of a quoted text does not converge')
        if depth > 8:
            return {'raw:flow too deep to follow'}
        rec = lambda x, f=fn, r=rel: self.origin(x, f, r, depth + 1)
        if isinstance(e, ast.Constant):
            return {'const'}
        if isinstance(e, ast.IfExp):
            return rec(e.body) | rec(e.orelse)
        if isinstance(e, ast.JoinedStr) or (isinstance(e, ast.BinOp) and isinstance(e.op, (ast.Mod, ast.Add))):
            out = set()
            for sub in (e.values if isinstance(e, ast.JoinedStr) else [e.left, e.right]):
                if isinstance(sub, ast.FormattedValue):
                    sub = sub.value
                if isinstance(sub, ast.Tuple):
                    for x in sub.elts:
                        out |= rec(x)
                else:
                    out |= rec(sub)
            return out
        if isinstance(e, ast.Call):
            name = self.callee(e, fn)
            if name == 'escape_byte_string':
                return {'esc'}
            if name == 'escape_char':
                return {'char'}
            if name == 'split_string_literal' and e.args:
                return {'split'} | rec(e.args[0])
            if name == '_split_characters' and e.args:
                return {'tokens'} | rec(e.args[0])
            if name == 'as_c_string_literal':
                return {'esc', 'split', 'quoted'}
            if name == 'join' and isinstance(e.func, ast.Attribute) and isinstance(e.func.value, ast.Constant):
                sep = e.func.value.value
                if (b'\\' in sep) if isinstance(sep, bytes) else ('\\' in sep):
                    return {'join-const'}
                return rec(e.args[0]) if e.args else {'const'}
            if isinstance(e.func, ast.Attribute) and name in PASS_THROUGH_METHODS:
                return rec(e.func.value)
            if isinstance(e.func, ast.Name) and name in WRAPPERS and e.args:
                return rec(e.args[0])
            # a helper defined in the same file: the origins of what it returns
            target = self.resolve_function(name, e, rel)
            if target is not None:
                key = ('ret', rel, target.name)
                if key in self.busy:
                    return set()
                self.busy.add(key)
                try:
                    out = set()
                    for n in ast.walk(target):
                        if isinstance(n, ast.Return) and n.value is not None:
                            out |= self.origin(n.value, target, rel, depth + 1)
                    return out or {'raw:%s() returns nothing' % name}
                finally:
                    self.busy.discard(key)
            return {'raw:the result of %s()' % (name or 'a computed call')}
        if isinstance(e, (ast.ListComp, ast.GeneratorExp, ast.SetComp)):
            return rec(e.elt)
        if isinstance(e, (ast.List, ast.Tuple)):
            out = set()
            for x in e.elts:
                out |= rec(x)
            return out or {'const'}
        if isinstance(e, ast.Attribute):
            return self.attribute_origin(e.attr, depth)
        if isinstance(e, ast.Name):
            return self.name_origin(e.id, e, fn, rel, depth)
        return {'raw:the expression %s' % ast.unparse(e)[:40]}

    def resolve_function(self, name, call, rel):
        if not name or name in FAMILY:
            return None
        cands = [m for c, m in self.functions(rel) if m.name == name]
        return cands[0] if len(cands) == 1 else None

    def attribute_origin(self, attr, depth):
        key = ('attr', attr)
        if key in self.busy:
            return set()
        self.busy.add(key)
        try:
            out, found = set(), False
            for rel in self.files():
                if ('.%s' % attr) not in self.ctx.read(rel):
                    continue
                for fn, value in self.index(rel)[1].get(attr, ()):
                    found = True
                    out |= self.origin(value, fn, rel, depth + 1)
            return out if found else {'raw:the attribute .%s (never assigned in the compiler)' % attr}
        finally:
            self.busy.discard(key)

    def name_origin(self, ident, node, fn, rel, depth):
        if fn is None:
            return {'raw:the name %s' % ident}
        out, found = set(), False
        for n in ast.walk(fn):
            # comprehension variable
            if isinstance(n, ast.comprehension) and self._binds(n.target, ident) is not None:
                found = True
                out |= self.element_origin(n.iter, self._binds(n.target, ident), fn, rel, depth)
            elif isinstance(n, (ast.For, ast.AsyncFor)) and self._binds(n.target, ident) is not None:
                found = True
                out |= self.element_origin(n.iter, self._binds(n.target, ident), fn, rel, depth)
            elif isinstance(n, ast.Assign):
                for t in n.targets:
                    if isinstance(t, ast.Name) and t.id == ident:
                        found = True
                        out |= self.origin(n.value, fn, rel, depth + 1)
                    elif isinstance(t, ast.Tuple) and self._binds(t, ident) is not None:
                        found = True
                        k = self._binds(t, ident)
                        if isinstance(n.value, ast.Tuple) and k != () and k[0] < len(n.value.elts):
                            out |= self.origin(n.value.elts[k[0]], fn, rel, depth + 1)
                        else:
                            out.add('raw:%s unpacked from %s' % (ident, ast.unparse(n.value)[:30]))
            elif isinstance(n, ast.AnnAssign) and isinstance(n.target, ast.Name) and n.target.id == ident and n.value is not None:
                found = True
                out |= self.origin(n.value, fn, rel, depth + 1)
            elif isinstance(n, ast.AugAssign) and isinstance(n.target, ast.Name) and n.target.id == ident:
                found = True
                out |= self.origin(n.value, fn, rel, depth + 1)
        if found:
            return out
        a = fn.args
        params = [p.arg for p in a.posonlyargs + a.args + a.kwonlyargs]
        if ident in params:
            return self.param_origin(fn, ident, rel, depth)
        return {'raw:the name %s' % ident}

    @staticmethod
    def _binds(target, ident):
        """() if target is the name itself, (k,) if it is element k of a tuple target, None otherwise"""
        if isinstance(target, ast.Name):
            return () if target.id == ident else None
        if isinstance(target, (ast.Tuple, ast.List)):
            for k, t in enumerate(target.elts):
                if isinstance(t, ast.Name) and t.id == ident:
                    return (k,)
        return None

    def element_origin(self, it, pos, fn, rel, depth):
        while isinstance(it, ast.Call) and isinstance(it.func, ast.Name) and it.func.id in WRAPPERS and it.args:
            it = it.args[0]

        def pick(x):
            if pos == ():
                return self.origin(x, fn, rel, depth + 1)
            if isinstance(x, ast.Tuple) and pos[0] < len(x.elts):
                return self.origin(x.elts[pos[0]], fn, rel, depth + 1)
            return {'raw:element %d of %s' % (pos[0], ast.unparse(x)[:30])}
        if isinstance(it, (ast.ListComp, ast.GeneratorExp)):
            return pick(it.elt)
        if isinstance(it, (ast.List, ast.Tuple)):
            out = set()
            for x in it.elts:
                out |= pick(x)
            return out
        if isinstance(it, ast.Name):
            out, found = set(), False
            for n in ast.walk(fn):
                if isinstance(n, ast.Call) and isinstance(n.func, ast.Attribute) and n.func.attr in ('append', 'add') and isinstance(n.func.value, ast.Name) \
                        and n.func.value.id == it.id and n.args:
                    found = True
                    out |= pick(n.args[0])
                elif isinstance(n, (ast.Assign, ast.AnnAssign)) and n.value is not None and \
                        any(isinstance(t, ast.Name) and t.id == it.id for t in (n.targets if isinstance(n, ast.Assign) else [n.target])):
                    if isinstance(n.value, (ast.List, ast.Tuple)) and not n.value.elts:
                        continue
                    found = True
                    if isinstance(n.value, ast.Call) and self.callee(n.value, fn) == '_split_characters':
                        out |= self.origin(n.value, fn, rel, depth + 1)
                    else:
                        out |= self.element_origin(n.value, pos, fn, rel, depth + 1)
            if found:
                return out
            if pos == ():
                o = self.name_origin(it.id, it, fn, rel, depth + 1)
                return o
        if isinstance(it, ast.Call) and self.callee(it, fn) == '_split_characters':
            return self.origin(it, fn, rel, depth + 1)
        return {'raw:the elements of %s' % ast.unparse(it)[:40]}

    def param_origin(self, fn, ident, rel, depth):
        key = ('param', fn.name, ident)
        if key in self.busy:
            return set()
        self.busy.add(key)
        try:
            a = fn.args
            pos = [p.arg for p in a.posonlyargs + a.args]
            is_method = bool(pos) and pos[0] in ('self', 'cls')
            if fn.name.startswith('__') and fn.name.endswith('__'):
                return {'raw:the parameter %s of %s (callers of special methods are not followed)' % (ident, fn.name)}
            out, found = set(), False
            for crel in self.files():
                if fn.name not in self.ctx.read(crel):
                    continue
                for caller, n in self.index(crel)[0].get(fn.name, ()):
                    if True:
                        if isinstance(n.func, ast.Name) and is_method:
                            continue
                        args = list(n.args)
                        plist = pos[1:] if (is_method and isinstance(n.func, ast.Attribute)) else pos
                        val = None
                        if ident in plist and plist.index(ident) < len(args) and not any(isinstance(x, ast.Starred) for x in args):
                            val = args[plist.index(ident)]
                        for k in n.keywords:
                            if k.arg == ident:
                                val = k.value
                        if val is None:
                            continue
                        found = True
                        out |= self.origin(val, caller, crel, depth + 1)
            return out if found else {'raw:the parameter %s of %s (no caller found)' % (ident, fn.name)}
        finally:
            self.busy.discard(key)


def bad_origin(tags, sink):
    """None if text with these origins may be written into the sink, else the reason."""
    raw = sorted(t[4:] for t in tags if t.startswith('raw:'))
    if raw:
        return 'but %s is not the result of %s' % (raw[0], 'escape_char / escape_byte_string' if sink == "'" else 'escape_byte_string')
    if sink == '"':
        if 'tokens' in tags:
            return 'but it is the list of character tokens, not a literal body'
        if 'char' in tags and 'esc' not in tags:
            return 'but it was escaped with escape_char, which leaves a double quote unescaped'
        if not tags & {'esc', 'join-const'}:
            return 'but nothing on its way escapes it (constant text only)' if tags - {'const'} else None
        return None
    if sink == "'":
        if 'split' in tags:
            return 'but it went through split_string_literal (the `""` separators are not character constants)'
        if not tags & {'esc', 'char'}:
            return None if tags <= {'const'} else 'but nothing on its way escapes it'
        return None
    if sink == 'tokens-arg':
        if 'split' in tags:
            return 'but that text went through split_string_literal: every `""` separator becomes two \'"\' array elements (two extra bytes, and the closing quote of each is unbalanced)'
        if 'esc' not in tags:
            return 'but it does not come from escape_byte_string'
        return None
    return None


def quoted_placeholders(text, ph):
    """(quote, placeholder expr) for each placeholder that sits directly between two equal quote characters."""
    from .iface import PLACEHOLDER
    out, k = [], 0
    for i, ch in enumerate(text):
        if ch != PLACEHOLDER:
            continue
        e = ph[k] if k < len(ph) else None
        k += 1
        if 0 < i < len(text) - 1 and text[i - 1] == text[i + 1] and text[i - 1] in '"\'' and e is not None:
            if i >= 2 and text[i - 2] == '\\':
                continue
            out.append((text[i - 1], e))
    return out


def rule_sinks(ctx):
    from .iface import str_template
    r = Rule('C11-SINK', 'every text written between quotes by a function of the escaping family (and by the result code of constant nodes) is derived from '
             'escape_byte_string / escape_char on every def-use path: through locals, parameters (all callers), object attributes (all stores), list elements and helper returns', floor=8)
    O = Origins(ctx)
    seen = set()

    def check(rel, cname, fn, node, writer=True):
        t = str_template(node)
        if t is None:
            return
        for q, e in quoted_placeholders(*t):
            if not writer and not any(isinstance(c, ast.Call) and Origins.callee(c, fn) in ESCAPERS for c in ast.walk(e)):
                continue        # elsewhere only texts that are visibly escaped in place are literal bodies (other quoted placeholders hold identifiers)
            key = '%s.%s:%s%s%s' % (rel.rsplit('/', 1)[1][:-3], ('%s.' % cname if cname else '') + fn.name, q, ast.unparse(e)[:30], q)
            if key in seen:
                continue
            seen.add(key)
            tags = O.origin(e, fn, rel)
            r.inst(key, sample='%s <- %s' % (key, sorted(tags)))
            why = bad_origin(tags, q)
            if why:
                r.violate(key, rel, node.lineno, '%s%s writes %s between %s quotes into the generated C, %s: quotes, backslashes, control characters and ?? in the data '
                          'reach the C compiler unescaped' % (('%s.' % cname if cname else ''), fn.name, ast.unparse(e)[:60], 'single' if q == "'" else 'double', why))

    # result code of constant nodes
    EXN = 'Cython/Compiler/ExprNodes.py'
    classes = {n.name: n for n in ctx.parse(EXN).body if isinstance(n, ast.ClassDef)}
    if 'ConstNode' not in classes:
        raise AnalysisError('C11-SINK: ExprNodes.ConstNode vanished')

    def is_const(c, depth=0):
        return depth < 12 and any(isinstance(b, ast.Name) and (b.id == 'ConstNode' or (b.id in classes and is_const(classes[b.id], depth + 1))) for b in c.bases)
    n_const = 0
    for c in classes.values():
        if not is_const(c):
            continue
        fn = next((m for m in c.body if isinstance(m, ast.FunctionDef) and m.name == 'calculate_result_code'), None)
        if fn is None:
            continue
        for n in ast.walk(fn):
            if isinstance(n, ast.JoinedStr) or (isinstance(n, ast.BinOp) and isinstance(n.op, ast.Mod)):
                before = len(seen)
                check(EXN, c.name, fn, n)
                n_const += len(seen) - before
    if not n_const:
        raise AnalysisError('C11-SINK: no constant node writes a quoted literal in calculate_result_code (CharNode moved?)')
    for rel in O.files():
        src = ctx.read(rel)
        if not any(f in src for f in ESCAPERS | WRITER_CALLS):
            continue
        for cname, fn in O.functions(rel):
            # writer functions: they are part of the family themselves, or hand a text to the splitter / tokenizer
            calls = {Origins.callee(n, fn) for n in ast.walk(fn) if isinstance(n, ast.Call)}
            writer = fn.name in FAMILY or bool(calls & WRITER_CALLS)
            for n in ast.walk(fn):
                if isinstance(n, ast.JoinedStr) or (isinstance(n, ast.BinOp) and isinstance(n.op, ast.Mod)):
                    check(rel, cname, fn, n, writer)
    # positive control
    pc = ast.parse("def sa_pc_writer_raw(code, data, name):\n    escaped = data.decode('latin-1')\n    code.putln(f'static const char {name}[] = \"{escaped}\";')\n"
                   "def sa_pc_writer_escaped(code, data, name):\n    escaped = StringEncoding.escape_byte_string(data)\n    code.putln(f'static const char {name}[] = \"{escaped}\";')\n").body
    res = []
    for fn in pc:
        js = next(n for n in ast.walk(fn) if isinstance(n, ast.JoinedStr))
        (q, e), = quoted_placeholders(*str_template(js))
        res.append(bad_origin(Origins(ctx).origin(e, fn, CODE), q))
    r.positive_control(bool(res[0]) and res[1] is None, 'a literal filled from undecoded data is reported, one filled from escape_byte_string is not')
    return r
