"""C17-ORDER: the byte-order / size / alignment prefix characters of a PEP 3118 format string are decided as the struct module defines them.

The prefix arms of __Pyx_BufFmt_CheckString (`@ = < > !` and PEP 3118's `^`) are *decision code*: each arm either rejects the format
(`return NULL`) or stores a pack mode that __Pyx_BufFmt_ProcessTypeChunk later reads to choose native/standard sizes and alignment.
The rule executes each arm symbolically (the checker's own evaluator over the parsed C statements; conditions are evaluated with
engine/cexpr) for every point of the complete finite domain

        prefix character (6)  x  memory layout of the host (little, big)

where the value of __Pyx_Is_Little_Endian() for a layout is itself obtained by evaluating the type-punning probe in
ModuleSetupCode.c::IsLittleEndian under that layout.  The resulting decision table (accept / reject, stored mode -> size mode, alignment
mode as read back by ProcessTypeChunk) is compared with the table of the struct documentation ("Byte Order, Size, and Alignment") and
PEP 3118 (`^`).  A buffer whose format announces a byte order that is not the host's must be rejected (its elements would be read
byte-swapped), one in host order must be accepted, and explicit-order prefixes mean standard sizes without alignment.

Nothing is keyed to statement text or positions: arms are found by their case labels, the mode field by def-use (the field the `@` arm
stores the cursor character into; the field ProcessTypeChunk compares is linked through the copy assignments of CheckString)."""
import re

from ..core import Rule, AnalysisError
from ..engine import cexpr
from . import pC17 as P

BUFFER_C = 'Cython/Utility/Buffer.c'
SETUP_C = 'Cython/Utility/ModuleSetupCode.c'

# struct module documentation, section "Byte Order, Size, and Alignment" (+ PEP 3118 for '^'):
#   char : (byte order, size, alignment)
REFERENCE = {
    '@': ('native', 'native', 'native'),
    '=': ('native', 'standard', 'none'),
    '<': ('little', 'standard', 'none'),
    '>': ('big', 'standard', 'none'),
    '!': ('big', 'standard', 'none'),      # network byte order is big-endian (RFC 1700)
    '^': ('native', 'native', 'none'),     # PEP 3118: native data types, unaligned
}
LAYOUTS = ('little', 'big')


def _reference_selfcheck():
    """The frozen table must agree with the struct module of the running interpreter (reference cross-check, no repository code)."""
    import struct, sys
    for c, (order, size, _al) in REFERENCE.items():
        if c == '^':
            continue
        packed = struct.pack(c + 'H', 1)
        got = 'little' if packed == b'\x01\x00' else 'big'
        want = sys.byteorder if order == 'native' else order
        if got != want:
            raise AnalysisError('reference table for struct prefix %r disagrees with the struct module' % c)
        native = struct.calcsize('@l')
        if (struct.calcsize(c + 'l') == 4) != (size == 'standard') and native != 4:
            raise AnalysisError('reference size mode for struct prefix %r disagrees with the struct module' % c)


# ------------------------------------------------------------------------------------------------ the endianness probe
class Probe:
    """static int f(void) { union { uintN_t a; uint8_t b[K]; } S;  S.a = CONST;  return S.b[i] <op> v; }   ->  value under a layout."""

    def __init__(self, body):
        text = P.norm(body)
        um = re.search(r'\bunion\s*\{([^{}]*)\}\s*(\w+)\s*;', text)
        if not um:
            raise AnalysisError('__Pyx_Is_Little_Endian: no union probe found (cannot model the endianness test)')
        self.var = um.group(2)
        self.members = {}
        for decl in um.group(1).split(';'):
            decl = decl.strip()
            if not decl:
                continue
            m = re.fullmatch(r'(?:unsigned\s+char|uint(\d+)_t|char)\s+(\w+)(?:\s*\[\s*(\d+)\s*\])?', decl)
            if not m:
                raise AnalysisError('__Pyx_Is_Little_Endian: union member %r not modelled' % decl)
            bits = int(m.group(1)) if m.group(1) else 8
            self.members[m.group(2)] = (bits // 8, int(m.group(3)) if m.group(3) else None)
        rest = text[um.end():]
        sm = re.search(r'\b%s\s*\.\s*(\w+)\s*=\s*(0[xX][0-9a-fA-F]+|\d+)[uUlL]*\s*;' % re.escape(self.var), rest)
        rm = re.search(r'\breturn\b([^;]*);', rest)
        if not sm or not rm or sm.group(1) not in self.members:
            raise AnalysisError('__Pyx_Is_Little_Endian: store/return of the probe not found')
        self.store_member, self.value = sm.group(1), int(sm.group(2), 0)
        if self.members[self.store_member][1] is not None:
            raise AnalysisError('__Pyx_Is_Little_Endian: probe stores into an array member')
        try:
            self.ret = cexpr.parse(rm.group(1).strip())
        except cexpr.ParseError as e:
            raise AnalysisError('__Pyx_Is_Little_Endian: return expression not parsed: %s' % e)

    def evaluate(self, layout):
        width = self.members[self.store_member][0]
        raw = self.value.to_bytes(width, layout)       # the bytes of the stored scalar in memory

        def ev(e):
            if e[0] == 'bin' and e[1] == '[]' and e[2][0] == 'id' and e[2][1].startswith(self.var + '.'):
                mem = e[2][1].split('.', 1)[1]
                if mem not in self.members or self.members[mem][1] is None:
                    raise AnalysisError('__Pyx_Is_Little_Endian: subscript of non-array member %s' % mem)
                size, n = self.members[mem]
                i = ev(e[3])
                if not (0 <= i < n) or (i + 1) * size > len(raw):
                    raise AnalysisError('__Pyx_Is_Little_Endian: probe index out of the stored scalar')
                return int.from_bytes(raw[i * size:(i + 1) * size], layout)
            if e[0] == 'id' and e[1].startswith(self.var + '.'):
                mem = e[1].split('.', 1)[1]
                if mem not in self.members or self.members[mem][1] is not None:
                    raise AnalysisError('__Pyx_Is_Little_Endian: member %s not modelled' % mem)
                return int.from_bytes(raw[:self.members[mem][0]], layout)
            if e[0] in ('num', 'char'):
                return e[1]
            if e[0] == 'bin':
                return cexpr.evaluate(('bin', e[1], ('num', ev(e[2])), ('num', ev(e[3]))), {})
            if e[0] == 'un':
                return cexpr.evaluate(('un', e[1], ('num', ev(e[2]))), {})
            if e[0] == 'cast':
                return ev(e[2])
            if e[0] == 'tern':
                return ev(e[2]) if ev(e[1]) else ev(e[3])
            raise AnalysisError('__Pyx_Is_Little_Endian: expression node %s not modelled' % (e[0],))
        return int(bool(ev(self.ret)))


# ------------------------------------------------------------------------------------------------ symbolic execution of a prefix arm
class Undecidable(Exception):
    pass


def _subst_cursor(e, cursor, ch):
    """replace  *cursor  by the character value"""
    if not isinstance(e, tuple):
        return e
    if e[0] == 'un' and e[1] == '*' and e[2] == ('id', cursor):
        return ('num', ord(ch))
    return tuple([_subst_cursor(x, cursor, ch) for x in y] if isinstance(y, list) else _subst_cursor(y, cursor, ch) for y in e)


def _eval(text, cursor, ch, host_little, probe_name):
    t = re.sub(r'(\+\+|--)\s*$', '', text.strip())           # `*ts++` yields the old value
    t = re.sub(r'\b(%s)\s*(\+\+|--)' % re.escape(cursor), r'\1', t)
    if re.search(r'(\+\+|--)', t):
        raise Undecidable('pre-increment inside %r' % text)
    try:
        e = cexpr.parse(t)
    except cexpr.ParseError as ex:
        raise Undecidable('%r: %s' % (text, ex))
    e = _subst_cursor(e, cursor, ch)
    try:
        return cexpr.evaluate(e, {}, calls={probe_name: lambda: host_little})
    except cexpr.EvalError as ex:
        raise Undecidable('%r: %s' % (text, ex))


ASSIGN = re.compile(r'^(?P<lhs>\w+\s*(?:->|\.)\s*(?P<field>\w+))\s*=(?!=)\s*(?P<rhs>.+)$')
RETURN = re.compile(r'^return\b\s*(?P<e>.*)$')


class ArmRun:
    """Outcome of entering the switch at label `ch` on a host whose probe returns host_little."""

    def __init__(self, arms, arm, cursor, ch, host_little, probe_name):
        self.cursor, self.ch, self.h, self.probe = cursor, ch, host_little, probe_name
        self.stores = {}            # field -> character value stored
        self.outcome = None         # 'reject' | 'accept'
        for link in P.chain(arms, arm.index):
            if self._block(link.body):
                break
        if self.outcome is None:
            self.outcome = 'accept'

    def _block(self, stmts):
        """-> True when control left the arm"""
        for st in stmts:
            if st.kind == 'block':
                if self._block(st.body):
                    return True
            elif st.kind == 'if':
                v = _eval(st.text, self.cursor, self.ch, self.h, self.probe)
                branch = st.body if v else st.orelse
                if branch is not None and self._block(P.as_list(branch)):
                    return True
            elif st.kind == 'simple':
                t = st.text
                if not t or t.startswith('CYTHON_FALLTHROUGH'):
                    continue
                if t == 'break':
                    return True
                m = RETURN.match(t)
                if m:
                    e = P.strip_parens(m.group('e'))
                    if e in ('NULL', '0'):
                        self.outcome = 'reject'
                        return True
                    raise Undecidable('return %s inside a prefix arm' % e)
                if t.startswith('goto') or t == 'continue':
                    raise Undecidable('%s inside a prefix arm' % t)
                m = ASSIGN.match(t)
                if m:
                    try:
                        self.stores[m.group('field')] = chr(_eval(m.group('rhs'), self.cursor, self.ch, self.h, self.probe))
                    except (Undecidable, ValueError):
                        self.stores[m.group('field')] = None
            elif st.kind in ('pp', 'label'):
                continue
            else:
                raise Undecidable('%s statement inside a prefix arm' % st.kind)
        return False


class Reader:
    """How __Pyx_BufFmt_ProcessTypeChunk reads the pack mode: mode character -> (size mode, alignment mode)."""

    def __init__(self, body, fields):
        self.fields = fields
        self.size_if = self.align_if = None
        for st in P.walk(P.parse_body(body)):
            if st.kind != 'if' or not any(re.search(r'\b%s\b' % re.escape(f), st.text) for f in fields):
                continue
            tb = ' '.join(s.text for s in P.walk(P.as_list(st.body)))
            eb = ' '.join(s.text for s in P.walk(P.as_list(st.orelse))) if st.orelse is not None else ''
            if 'NativeSize' in tb and 'StandardSize' in eb:
                self.size_if = (st.text, True)
            elif 'StandardSize' in tb and 'NativeSize' in eb:
                self.size_if = (st.text, False)
            elif 'TypeCharToAlignment' in tb and self.align_if is None:
                self.align_if = (st.text, True)
        if self.size_if is None or self.align_if is None:
            raise AnalysisError('__Pyx_BufFmt_ProcessTypeChunk: the native/standard size choice or the alignment choice on the pack mode was not found')

    def _cond(self, text, mode):
        e = cexpr.parse(text)
        env = {}
        for x in cexpr.walk(e):
            if x[0] == 'id':
                if any(re.fullmatch(r'\w+(->|\.)%s' % re.escape(f), x[1]) for f in self.fields):
                    env[x[1]] = ord(mode)
        try:
            return bool(cexpr.evaluate(e, env))
        except cexpr.EvalError as ex:
            raise AnalysisError('__Pyx_BufFmt_ProcessTypeChunk: pack-mode condition %r not decidable from the mode alone: %s' % (text, ex))

    def modes(self, mode):
        s = self._cond(self.size_if[0], mode)
        a = self._cond(self.align_if[0], mode)
        return ('native' if s == self.size_if[1] else 'standard', 'native' if a else 'none')


def decision_table(check_body, chunk_body, probe_body, probe_name='__Pyx_Is_Little_Endian'):
    """-> (rows, mode field, reader)   rows: {(char, layout): (outcome, stored mode or None)}   or raises AnalysisError"""
    stmts = P.parse_body(check_body)
    sw = cursor = None
    for st in P.walk(stmts):
        if st.kind == 'switch':
            m = re.fullmatch(r'\*\s*(\w+)', st.text)
            if m:
                sw, cursor = st, m.group(1)
                break
    if sw is None:
        raise AnalysisError('__Pyx_BufFmt_CheckString: no switch over the format cursor')
    arms = P.switch_arms(sw)
    by_label = {}
    for a in arms:
        for lab in a.labels:
            by_label.setdefault(lab, a)
    probe = Probe(probe_body)
    host = {L: probe.evaluate(L) for L in LAYOUTS}
    runs = {}
    for c in REFERENCE:
        arm = by_label.get(c)
        for L in LAYOUTS:
            if arm is None:
                runs[(c, L)] = None
                continue
            try:
                runs[(c, L)] = ArmRun(arms, arm, cursor, c, host[L], probe_name)
            except Undecidable as ex:
                raise AnalysisError('__Pyx_BufFmt_CheckString: arm of prefix %r cannot be decided: %s' % (c, ex))
    # the mode field: what the accepting runs of the native prefixes store the cursor character into
    cands = None
    for (c, L), run in runs.items():
        if run is None or run.outcome != 'accept':
            continue
        fs = {f for f, v in run.stores.items() if v is not None}
        cands = fs if cands is None else (cands & fs)
    if not cands or len(cands) != 1:
        raise AnalysisError('__Pyx_BufFmt_CheckString: the pack-mode field stored by the prefix arms is not unique (%s)' % sorted(cands or ()))
    field = next(iter(cands))
    # fields that receive a copy of it (ctx->enc_packmode = ctx->new_packmode)
    linked = {field}
    for st in P.walk(stmts):
        if st.kind == 'simple':
            m = ASSIGN.match(st.text)
            if m and re.fullmatch(r'\w+\s*(?:->|\.)\s*%s' % re.escape(field), m.group('rhs').strip()):
                linked.add(m.group('field'))
    reader = Reader(chunk_body, linked)
    rows = {}
    for k, run in runs.items():
        rows[k] = None if run is None else (run.outcome, run.stores.get(field))
    return rows, field, reader, host


def problems(rows, reader, host):
    """-> [(construct suffix, message)]"""
    out = []
    if host['little'] == host['big']:
        out.append(('probe', '__Pyx_Is_Little_Endian() evaluates to %d on a little-endian AND on a big-endian memory layout: it does not detect the host byte order, '
                    'so explicit byte-order prefixes are accepted/rejected for the wrong hosts' % host['little']))
    elif not host['little']:
        out.append(('probe', '__Pyx_Is_Little_Endian() is 0 on a little-endian layout and 1 on a big-endian one (inverted probe): "<" formats are rejected and ">"/"!" '
                    'formats accepted on little-endian hosts, elements are read byte-swapped'))
    for c, (order, size, align) in REFERENCE.items():
        for L in LAYOUTS:
            row = rows[(c, L)]
            if row is None:
                out.append(('%s' % c, 'prefix %r has no arm in the format scanner: a %s-order format "%si" is refused although struct/PEP 3118 define it' % (c, order, c)))
                break
            outcome, mode = row
            want = 'accept' if order in ('native', L) else 'reject'
            if outcome != want:
                if want == 'reject':
                    msg = ('prefix %r means %s-endian data (struct module) but is ACCEPTED on a %s-endian host: e.g. format "%si" is acquired by an int[:] view and every '
                           'element reads byte-swapped instead of raising ValueError' % (c, order, L, c))
                else:
                    msg = 'prefix %r means %s byte order but is REJECTED on a %s-endian host: a compatible buffer with format "%si" cannot be acquired' % (c, order, L, c)
                out.append(('%s:%s-host' % (c, L), msg))
                continue
            if outcome != 'accept':
                continue
            if mode is None:
                out.append(('%s:mode' % c, 'prefix %r is accepted without storing a decidable pack mode' % c))
                continue
            got = reader.modes(mode)
            if got != (size, align):
                out.append(('%s:mode' % c, 'prefix %r stores pack mode %r which __Pyx_BufFmt_ProcessTypeChunk reads as %s sizes / %s alignment; struct defines %s sizes / %s alignment '
                            '(e.g. "%sl" has %s bytes per item): formats with a different item layout are accepted' % (
                                c, mode, got[0], got[1], size, align, c, '4' if size == 'standard' else 'sizeof(long)')))
                break
    return out


POSITIVE_CHECK = """{
  while (1) { switch (*p) {
    case 0: return p;
    case 'x': ctx->cur = ctx->mode; ++p; break;
    case '<': case '>': case '!':
      if ((*p == '>') == is_le()) { return NULL; }
      ctx->mode = '='; ++p; break;
    case '=': case '@': case '^':
      ctx->mode = *p++; break;
    default: return NULL;
  } }
}"""
POSITIVE_CHUNK = """{
  if (ctx->cur == '@' || ctx->cur == '^') { size = TypeCharToNativeSize(t); } else { size = TypeCharToStandardSize(t); }
  if (ctx->cur == '@') { a = TypeCharToAlignment(t); }
}"""
POSITIVE_PROBE = "{ union { uint32_t u32; uint8_t u8[4]; } S; S.u32 = 0x01020304; return S.u8[0] == 4; }"


def rule_order(ctx, func):
    r = Rule('C17-ORDER', 'byte-order/size/alignment prefixes of a buffer format (@ = < > ! ^) are accepted, rejected and read back exactly as the struct module / PEP 3118 '
             'define them, for both host byte orders (decision table of the prefix arms of the format scanner x the endianness probe)', floor=14)
    _reference_selfcheck()
    cs = func(ctx, '__Pyx_BufFmt_CheckString')
    pc = func(ctx, '__Pyx_BufFmt_ProcessTypeChunk')
    pr = func(ctx, '__Pyx_Is_Little_Endian')
    rows, field, reader, host = decision_table(cs.body, pc.body, pr.body)
    r.inst('ModuleSetupCode.c:__Pyx_Is_Little_Endian:probe', sample='__Pyx_Is_Little_Endian(): little layout -> %d, big layout -> %d' % (host['little'], host['big']))
    for (c, L), row in sorted(rows.items()):
        r.inst('Buffer.c:__Pyx_BufFmt_CheckString:prefix:%s:%s-host' % (c, L),
               sample='prefix %r on a %s-endian host: %s' % (c, L, 'no arm' if row is None else '%s%s' % (row[0], '' if row[1] is None else ', mode %r' % row[1])))
    # no prefix at all: "by default, the first character is assumed to be '@'" (struct docs) -- the context must start in native mode
    init = func(ctx, '__Pyx_BufFmt_Init')
    for f in sorted(reader.fields):
        vals = [P.char_value(m.group(1)) for m in re.finditer(r"->\s*%s\s*=\s*('(?:\\.|[^'\\])')\s*;" % re.escape(f), init.body)]
        r.inst('Buffer.c:__Pyx_BufFmt_Init:default-mode:%s' % f, sample='initial %s = %s' % (f, vals))
        if len(vals) != 1 or vals[0] is None:
            r.violate('Buffer.c:__Pyx_BufFmt_Init:default-mode:%s' % f, BUFFER_C, init.line,
                      '__Pyx_BufFmt_Init does not give the pack-mode field %s one constant initial value: a format without a prefix is sized by whatever the previous check left behind' % f)
        elif reader.modes(vals[0]) != ('native', 'native'):
            got = reader.modes(vals[0])
            r.violate('Buffer.c:__Pyx_BufFmt_Init:default-mode:%s' % f, BUFFER_C, init.line,
                      "a format string without prefix means '@' (native sizes, native alignment) in the struct module, but __Pyx_BufFmt_Init starts with %s = %r which "
                      "__Pyx_BufFmt_ProcessTypeChunk reads as %s sizes / %s alignment: array('l') or a numpy record array no longer matches its dtype" % (f, vals[0], got[0], got[1]))
    for suffix, msg in problems(rows, reader, host):
        if suffix == 'probe':
            r.violate('ModuleSetupCode.c:__Pyx_Is_Little_Endian:probe', SETUP_C, pr.line, msg)
        else:
            r.violate('Buffer.c:__Pyx_BufFmt_CheckString:prefix:%s' % suffix, BUFFER_C, cs.line, msg)
    # embedded positive example: '!' slips through a merged guard
    prow, _f, preader, phost = decision_table(POSITIVE_CHECK, POSITIVE_CHUNK, POSITIVE_PROBE, probe_name='is_le')
    got = {s for s, _ in problems(prow, preader, phost)}
    r.positive_control(got == {'!:little-host', '!:big-host'}, "merged guard `(*p == '>') == is_le()` lets '!' through on little-endian hosts")
    return r


# =====================================================================================================================
# Round 4: path / def-use / decision-table rules for the parts of the acquisition check the table rules do not look at.
# =====================================================================================================================
import ast as _ast


def _section_of(ctx, file, section):
    out = [d for v in ctx.cat.decls.values() for d in v if d.kind == 'func' and d.body and d.file == file and d.section.name == section]
    return sorted(out, key=lambda d: d.line)


def _paths(body, what):
    try:
        return P.Explorer(P.parse_body(body)).function()
    except P.Unmodelled as e:
        raise AnalysisError('%s: path exploration gave up: %s' % (what, e))


def _ret_const(ex, st):
    """value of a `return e` on this path as an int, or None"""
    if ex[0] != 'return' or not ex[1]:
        return None
    try:
        e = cexpr.parse(ex[1])
    except cexpr.ParseError:
        return None
    return P.Explorer([]).const_of(e, st)


# ---------------------------------------------------------------------------------------------------------------- C17-SKIP
def option_flow(ctx, helper='__Pyx_GetBufferAndValidate'):
    """Which C parameter of the legacy acquisition helper receives which buffer option: {'cast': param name, 'ndim': param name}.
    The argument expressions of the emitted call are followed through one local assignment and int()/bool() wrappers to the
    attribute they read (buffer_type.cast, buffer_type.ndim); the macro is followed to the function it forwards to."""
    from .iface import emitted_calls_fn
    found = None
    for fn in _ast.walk(ctx.parse('Cython/Compiler/Buffer.py')):
        if not isinstance(fn, _ast.FunctionDef):
            continue
        for n, name, args, argph in emitted_calls_fn(fn):
            if name == helper and args is not None:
                found = (fn, args, argph)
    if found is None:
        raise AnalysisError('Buffer.py no longer emits a call to %s' % helper)
    fn, args, argph = found
    assigns = {}
    for n in _ast.walk(fn):
        if isinstance(n, _ast.Assign) and len(n.targets) == 1 and isinstance(n.targets[0], _ast.Name):
            assigns.setdefault(n.targets[0].id, []).append(n.value)

    def attr_of(p, depth=0):
        while isinstance(p, _ast.Call) and p.args and isinstance(p.func, _ast.Name) and p.func.id in ('int', 'bool', 'str'):
            p = p.args[0]
        if isinstance(p, _ast.FormattedValue):
            p = p.value
        if isinstance(p, _ast.Attribute):
            return p.attr
        if isinstance(p, _ast.Name) and depth < 2:
            vals = assigns.get(p.id, [])
            got = {attr_of(v, depth + 1) for v in vals}
            if len(got) == 1:
                return got.pop()
        return None
    decls = [d for d in ctx.cat.decls.get(helper, []) if d.kind in ('macro', 'func')]
    if not decls:
        raise AnalysisError('%s is not declared in the utility library' % helper)
    d = decls[0]
    target = d
    if d.kind == 'macro':
        params = [p.strip() for p in (d.params or [])]
        mm = re.search(r'(__Pyx_\w+)\s*\(([^()]*)\)\s*\)?\s*$', P.norm(d.body or ''))
        if not mm:
            raise AnalysisError('%s: macro body does not forward to a function' % helper)
        fdecl = [x for x in ctx.cat.decls.get(mm.group(1), []) if x.kind == 'func' and x.body]
        if not fdecl:
            raise AnalysisError('%s forwards to %s which has no definition' % (helper, mm.group(1)))
        target = fdecl[0]
        fwd = [a.strip() for a in mm.group(2).split(',')]
        pos_of = {}
        for i, a in enumerate(fwd):
            if a in params:
                pos_of[params.index(a)] = i
    else:
        pos_of = {i: i for i in range(len(d.param_names()))}
    pn = target.param_names()
    flow = {}
    for i, ph in enumerate(argph):
        if len(ph) != 1 or ph[0] is None:
            continue
        a = attr_of(ph[0])
        if a in ('cast', 'ndim') and i in pos_of and pos_of[i] < len(pn):
            flow[a] = pn[pos_of[i]]
    if 'cast' not in flow or 'ndim' not in flow:
        raise AnalysisError('cannot follow the buffer options cast / ndim into the parameters of %s (found %s)' % (target.name, flow))
    return target, flow


def skip_findings(d, cast_param, nd_param=None):
    """-> (number of successful paths, [(key suffix, message)]) for one acquisition entry point."""
    bad = {}
    dt = [n for n, t in zip(d.param_names(), d.param_types()) if n and '__Pyx_TypeInfo' in t] if hasattr(d, 'param_names') else []
    dtype_param = dt[0] if dt else None
    paths = _paths(d.body, d.name)
    ok_paths = 0
    for st, ex in paths:
        v = _ret_const(ex, st)
        if v is None:
            raise AnalysisError('%s: return value of a path is not a constant (%s)' % (d.name, ex))
        if v != 0:
            continue
        ok_paths += 1
        checked = [ev for ev in st.events if ev[0] == 'call' and ev[1] == '__Pyx_BufFmt_CheckString']
        if checked:
            continue
        reasons = []
        for text, truth, _ in st.facts:
            m = re.match(r'__pyx_typeinfo_cmp\((.*)\)$', text)
            if truth and m:
                args = [a.strip() for a in P._split_top(m.group(1), ',')]
                # a comparison of the declared dtype with something else (the descriptor of the object at hand)
                if len(args) == 2 and args[0] != args[1] and (dtype_param is None or dtype_param in args):
                    reasons.append('dtype equality established by %s' % text)
        if cast_param is not None:
            val = st.env.get(cast_param)
            if val is not None and st.is_zero(val) is False:
                reasons.append('cast requested')
        if reasons:
            continue
        cond = ', '.join('%s=%s' % (t, 'true' if v else 'false') for t, v, _ in st.facts if not t.startswith('switch(')
                         and (re.search(r'typeinfo_cmp|memoryview_check|\bcast\b|new_memview|from_memoryview', t)))
        bad.setdefault('format-check-skipped', (
            "%s can return success without calling __Pyx_BufFmt_CheckString on a path where neither the dtype was compared equal (__pyx_typeinfo_cmp true) nor "
            "the caller asked for cast=True%s: a buffer whose item format differs from the declared dtype is accepted and its bytes are re-interpreted"
            % (d.name, (' [path: %s]' % cond) if cond else '')))
    return ok_paths, sorted(bad.items())


POSITIVE_SKIP = """{
    if (from_mv || cmp_unused(dtype)) { memview = obj; new_memview = NULL; }
    else { memview = make(obj); new_memview = memview; if (unlikely(!memview)) goto fail; }
    if (new_memview) { __Pyx_BufFmt_Init(&ctx, stack, dtype); if (unlikely(!__Pyx_BufFmt_CheckString(&ctx, buf->format))) goto fail; }
    retval = 0; goto done;
fail:
    retval = -1;
done:
    return retval;
}"""


def rule_skip(ctx, entry_points):
    r = Rule('C17-SKIP', 'every successful path through an acquisition entry point runs the format check, unless it established dtype equality (__pyx_typeinfo_cmp true) '
             'or the buffer option cast (followed from Buffer.py into its C parameter) is set; the ndim test compares with the parameter that receives the ndim option', floor=4)
    target, flow = option_flow(ctx)
    r.inst('Buffer.get_getbuffer_call:cast->%s' % flow['cast'], sample='buffer option cast reaches parameter `%s` of %s, ndim reaches `%s`' % (flow['cast'], target.name, flow['ndim']))
    for d in entry_points:
        cast_param = flow['cast'] if d.name == target.name else None
        n, bad = skip_findings(d, cast_param)
        r.inst('%s:format-check-on-success' % d.name, sample='%s: %d successful paths explored' % (d.name, n))
        if n == 0:
            raise AnalysisError('%s: no successful path found' % d.name)
        for k, msg in bad:
            r.violate('%s:%s' % (d.name, k), 'Cython/Utility/' + d.file, d.line, msg)
        if d.name == target.name:
            r.inst('%s:ndim-parameter' % d.name)
            nd = re.escape(flow['ndim'])
            if not (re.search(r'->\s*ndim\s*!=\s*%s\b' % nd, d.body) or re.search(r'\b%s\s*!=\s*\w+\s*->\s*ndim\b' % nd, d.body)):
                r.violate('%s:ndim-parameter' % d.name, 'Cython/Utility/' + d.file, d.line,
                          "Buffer.py passes the declared ndim as parameter `%s` of %s, but the function does not compare buf->ndim with it: buffers with the wrong number of dimensions are accepted"
                          % (flow['ndim'], d.name))

    class _D:
        name, body, file, line = 'pc', POSITIVE_SKIP, 'x.c', 0
    n, bad = skip_findings(_D, None)
    r.positive_control(n >= 2 and [k for k, _ in bad] == ['format-check-skipped'], 'shortcut taken on `from_mv || cmp` skips the format check without a dtype comparison')
    return r


# ---------------------------------------------------------------------------------------------------------------- C17-END
def _arm_paths(fn_body, label):
    """paths through the arm of the scanner switch that handles `label` (fall-through followed), from the arm's first statement."""
    stmts = P.parse_body(fn_body)
    sw = None
    for s in P.walk(stmts):
        if s.kind == 'switch' and re.fullmatch(r'\*\s*(\w+)', s.text):
            sw = s
            break
    if sw is None:
        raise AnalysisError('no switch over the format cursor')
    arms = P.switch_arms(sw)
    arm = [a for a in arms if label in a.labels]
    if not arm:
        return None
    body = [x for link in arms[arm[0].index:] for x in link.body]
    ex = P.Explorer(body)
    try:
        return ex.stmts(body, P.PState())
    except P.Unmodelled as e:
        raise AnalysisError('scanner arm %r: %s' % (label, e))


def end_findings(fn_body, consumed_field):
    """NUL arm: every path that returns the cursor (success) has established `<consumed_field> == NULL` after the last chunk was processed."""
    paths = _arm_paths(fn_body, '\0')
    if paths is None:
        return 0, [('no-nul-arm', 'the scanner has no `case 0` arm')]
    n, bad = 0, []
    for st, ex in paths:
        if ex[0] != 'return':
            continue
        if P.strip_parens(ex[1]) in ('NULL', '0'):
            continue
        n += 1
        val = st.env.get(consumed_field)
        if val is None or st.is_zero(val) is not True:
            bad.append(('end:fields-consumed', "the `case 0` arm of the format scanner returns success on a path where `%s == NULL` (all fields of the declared dtype were matched) "
                        "was not established after the last chunk was processed: a format string that ends early (e.g. 'i4x' for a struct of two ints) is accepted" % consumed_field))
            break
    return n, bad


def rule_end(ctx, func):
    r = Rule('C17-END', 'the format scanner accepts the end of the format string only when every field of the declared dtype has been matched (head == NULL established after the last chunk)', floor=1)
    cs = func(ctx, '__Pyx_BufFmt_CheckString')
    pc = func(ctx, '__Pyx_BufFmt_ProcessTypeChunk')
    # the "all consumed" state: the context field ProcessTypeChunk sets to NULL when the root field is passed
    m = re.search(r'(\w+\s*->\s*\w+)\s*=\s*NULL\s*;', pc.body)
    if not m:
        raise AnalysisError('__Pyx_BufFmt_ProcessTypeChunk: no `ctx->... = NULL` marking the end of the dtype')
    field = re.sub(r'\s+', '', m.group(1))
    n, bad = end_findings(cs.body, field)
    r.inst('__Pyx_BufFmt_CheckString:end:fields-consumed', sample='%d successful paths through the NUL arm; consumed state = %s == NULL' % (n, field))
    if n == 0 and not bad:
        raise AnalysisError('__Pyx_BufFmt_CheckString: the NUL arm has no successful path')
    for k, msg in bad:
        r.violate('__Pyx_BufFmt_CheckString:%s' % k, BUFFER_C, cs.line, msg)
    pcn, pcbad = end_findings("{ while (1) { switch (*p) { case 0: if (chunk(c) == -1) return NULL; return p; default: return NULL; } } }", 'c->head')
    r.positive_control(pcn == 1 and len(pcbad) == 1, 'NUL arm returning the cursor without testing the consumed state')
    return r


# ---------------------------------------------------------------------------------------------------------------- C17-COUNT
def pending_fields(section_funcs):
    """context fields that receive a number parsed from the format string: `ctx->F = (cast) v` with v assigned from a *Number(...) call."""
    out = set()
    for d in section_funcs:
        numvars = set(re.findall(r'\b(\w+)\s*=\s*\w*Number\s*\(', d.body))
        for m in re.finditer(r'\b\w+\s*->\s*(\w+)\s*=\s*(?:\([^()]*\)\s*)?(\w+)\s*;', d.body):
            if m.group(2) in numvars:
                out.add(m.group(1))
    return out


def count_findings(name, paths, field_re):
    """a path on which the pending value is overwritten by a literal before anything read it"""
    bad = []
    for st, ex in paths:
        read = False
        for ev in st.events:
            if ev[0] == 'read' and field_re.fullmatch(ev[1]):
                read = True
            elif ev[0] == 'call' and any(field_re.search(a) for a in (ev[2] or [])):
                read = True
            elif ev[0] == 'write' and field_re.fullmatch(ev[1]):
                op, rhs = ev[2] if isinstance(ev[2], tuple) else ('=', '')
                if op == '=' and re.fullmatch(r'\(?\s*\d+\s*\)?', rhs) and not read:
                    bad.append(rhs)
                    break
                if op == '=' and not re.fullmatch(r'\(?\s*\d+\s*\)?', rhs):
                    read = False if False else read
        if bad:
            break
    return bad


def rule_count(ctx, section_funcs):
    r = Rule('C17-COUNT', 'a repeat count parsed from the format string is consumed before it is reset: no path through a scanner arm overwrites the pending count with a '
             'literal without having read it', floor=5)
    fields = pending_fields(section_funcs)
    if not fields:
        raise AnalysisError('no context field receives a number parsed from the format string')
    for f in sorted(fields):
        fre = re.compile(r'\w+->%s' % re.escape(f))
        for d in section_funcs:
            params = ' '.join(d.param_types())
            if 'char' not in params:           # only functions that consume the format cursor
                continue
            resets = re.findall(r'->\s*%s\s*=\s*\d+\s*;' % re.escape(f), d.body)
            if not resets:
                continue
            stmts = P.parse_body(d.body)
            sw = None
            for s in P.walk(stmts):
                if s.kind == 'switch' and re.fullmatch(r'\*\s*(\w+)', s.text):
                    sw = s
                    break
            units = []
            inside = sw is not None and any(re.search(r'->\s*%s\s*=\s*\d+\s*$' % re.escape(f), x.text) for x in P.walk(P.as_list(sw.body)) if x.kind == 'simple')
            if inside:
                arms = P.switch_arms(sw)
                for a in arms:
                    body = [x for link in arms[a.index:] for x in link.body]
                    reach = [x for link in P.chain(arms, a.index) for x in link.body]
                    if not any(re.search(r'->\s*%s\s*=\s*\d+\s*$' % re.escape(f), s.text) for s in P.walk(reach) if s.kind == 'simple'):
                        continue
                    lab = ','.join(repr(l)[1:-1] if isinstance(l, str) else str(l) for l in a.labels) or 'default'
                    try:
                        units.append(('arm[%s]' % lab, P.Explorer(body).stmts(body, P.PState())))
                    except P.Unmodelled as e:
                        raise AnalysisError('%s arm %s: %s' % (d.name, lab, e))
            else:
                units.append(('body', _paths(d.body, d.name)))
            for uname, paths in units:
                key = '%s:%s:%s' % (d.name, uname, f)
                r.inst(key, sample='%s %s: %d paths, pending field %s' % (d.name, uname, len(paths), f))
                if count_findings(d.name, paths, fre):
                    r.violate(key, BUFFER_C, d.line,
                              "%s (%s) resets ctx->%s to a constant on a path that never read it: the repeat count written in front of this format item is ignored "
                              "(e.g. '3x' pads one byte, 'i2i' counts two ints), so offsets / item counts of struct formats are mis-computed" % (d.name, uname, f))
    body = P.parse_body("{ c->off += 1; c->cnt = 1; ++p; }")
    pcp = P.Explorer(body).stmts(body, P.PState())
    body2 = P.parse_body("{ if (c->cnt != 1) { return -1; } c->cnt = 1; }")
    pcp2 = P.Explorer(body2).stmts(body2, P.PState())
    fre = re.compile(r'\w+->cnt')
    r.positive_control(bool(count_findings('pc', pcp, fre)) and not count_findings('pc', pcp2, fre), 'count reset without a read fires; read in a guard first is fine')
    return r


# ---------------------------------------------------------------------------------------------------------------- C17-STATE
def state_findings(fields, funcs_text, var='ctx'):
    """fields of the scanner context that are read but only ever assigned one constant -> [(field, the constant)]"""
    out = []
    for f in fields:
        pat = r'\b%s\s*->\s*%s\b' % (re.escape(var), re.escape(f))
        writes, reads = set(), 0
        for m in re.finditer(pat + r'(?P<rest>\s*(?:\[[^\]]*\])?\s*(?P<op>\+\+|--|=(?!=)|\+=|-=|\*=|/=|%=)?)', funcs_text):
            op = m.group('op')
            before = funcs_text[max(0, m.start() - 3):m.start()]
            if re.search(r'(\+\+|--)\s*$', before):
                writes.add('<var>')
                continue
            if op is None:
                reads += 1
                continue
            if op != '=':
                writes.add('<var>')
                continue
            rhs = funcs_text[m.end():funcs_text.index(';', m.end())].strip()
            rhs_n = P.strip_parens(rhs)
            if re.fullmatch(r"\d+|'(?:\\.|[^'\\])'|NULL", rhs_n):
                writes.add(rhs_n)
            else:
                writes.add('<var>')
        if reads and len(writes) < 2:
            out.append((f, sorted(writes)[0] if writes else None))
    return out


def rule_state(ctx, section_funcs):
    r = Rule('C17-STATE', 'every field of the format-scanner context that the scanner reads can take more than one value: a field that is only ever assigned one constant '
             'makes the decisions taken on it dead (complex flag never set, array flag never set, ...)', floor=8)
    proto = ctx.cat.section('Buffer.c', 'BufferFormatStructs', 'proto')
    if proto is None:
        raise AnalysisError('Buffer.c::BufferFormatStructs.proto missing')
    members = struct_members(proto.text or proto.raw, '__Pyx_BufFmt_Context')
    text = '\n'.join(d.body for d in section_funcs)
    # the context pointer is called ctx in every function of the section (parameter of type __Pyx_BufFmt_Context*)
    names = {n for d in section_funcs for n, t in zip(d.param_names(), d.param_types()) if n and '__Pyx_BufFmt_Context' in t}
    if len(names) != 1:
        raise AnalysisError('the scanner functions name their context parameter differently: %s' % sorted(names))
    var = names.pop()
    scalar = [m for m, t in members if not re.search(r'__Pyx_StructField\b(?!\s*\*)', t)]
    for f in scalar:
        r.inst('__Pyx_BufFmt_Context.%s' % f, sample='context field %s' % f)
    for f, const in state_findings(scalar, text, var):
        r.violate('__Pyx_BufFmt_Context.%s:constant' % f, BUFFER_C, section_funcs[0].line,
                  "the scanner reads %s->%s but the only value it is ever assigned is %s: every decision taken on that field is dead "
                  "(e.g. is_complex never set -> 'Zd' is compared as a real double; is_valid_array never set -> sub-array fields are always refused)" % (var, f, const))
    bad = state_findings(['flag', 'n'], "ctx->flag = 0; if (ctx->flag) x(); ctx->n = 0; ctx->n += 2; if (ctx->n) y(); ctx->flag = 0;")
    r.positive_control(bad == [('flag', '0')], 'field assigned 0 twice and read')
    return r


def struct_members(text, name):
    """typedef struct { ... } name;  -> [(member, type text)] in declaration order (comments already blanked)"""
    m = re.search(r'typedef\s+struct\s*(?:\w+\s*)?\{([^{}]*)\}\s*%s\s*;' % re.escape(name), text)
    if not m:
        raise AnalysisError('typedef struct %s not found' % name)
    out = []
    for decl in m.group(1).split(';'):
        decl = ' '.join(decl.split())
        if not decl:
            continue
        mm = re.fullmatch(r'(?P<t>.+?[\s\*])(?P<names>\w+(?:\s*\[[^\]]*\])?(?:\s*,\s*\w+(?:\s*\[[^\]]*\])?)*)', decl)
        if not mm:
            raise AnalysisError('struct %s: member declaration %r not understood' % (name, decl))
        for n in mm.group('names').split(','):
            n = n.strip()
            arr = '[' in n
            out.append((re.sub(r'\s*\[.*', '', n), mm.group('t').strip() + ('[]' if arr else '')))
    return out


# ---------------------------------------------------------------------------------------------------------------- C17-CHUNK
def _stmt_lists(lst):
    """every statement list of the parsed body (the top list, block bodies, branch bodies), outermost first"""
    yield lst
    for st in lst:
        for sub in (st.body, st.orelse):
            if sub is not None:
                yield from _stmt_lists(P.as_list(sub))


def _mentions(text, name):
    """`name` occurs in C text as a variable of its own (not as a member `x->name` / `x.name`, not as a callee)"""
    return re.search(r'(?<![\w>.])%s\b(?!\s*\()' % re.escape(name), text) is not None


def _cond_ids(text, what):
    try:
        return {re.sub(r'\s+', '', x[1]) for x in cexpr.walk(P._parse(text)) if x[0] == 'id'}
    except cexpr.ParseError:
        raise AnalysisError('%s: condition %r not parsable' % (what, text))


def chunk_region(stmts, chunk_body, what='__Pyx_BufFmt_ProcessTypeChunk'):
    """The decision region of the dtype-vs-format comparison, found by def-use instead of by the shape of one statement:
    every branching statement whose condition reads the size / group of the format item (the locals that receive
    __Pyx_BufFmt_TypeCharTo*Size / TypeCharToGroup, or a local computed from them), every later assignment to those locals, and every
    branching statement that reads the declared side (`X->size`, `X->typegroup`, `X->fields` for the X compared with them).  The region is the
    run of sibling statements, in the innermost statement list that holds all of them, from the first to the last such statement: a guard hoisted
    in front of the comparison, a comparison split in two statements or a flag computed beforehand are all part of it.
    -> (span, size_var, group_var, declared-side paths, locals assigned inside the span)"""
    size_var = group_var = None
    for m in re.finditer(r'\b(\w+)\s*=\s*__Pyx_BufFmt_TypeCharTo(\w+)\s*\(', chunk_body):
        if m.group(2) in ('NativeSize', 'StandardSize'):
            size_var = m.group(1)
        elif m.group(2) == 'Group':
            group_var = m.group(1)
    if not size_var or not group_var:
        raise AnalysisError('%s: the locals receiving TypeCharTo*Size / TypeCharToGroup were not found' % what)
    tainted = {size_var, group_var}
    BRANCHING = ('if', 'while', 'for', 'do', 'switch')
    relevant, bases = [], set()

    def assigned(st):
        """plain locals written by a simple statement -> [(name, rhs)]"""
        t = st.text.strip()
        d = P.Explorer._declaration(t)
        if d is not None:
            return [(n, r) for n, r in d if r is not None]
        m = P.ASSIGN_ST.match(t)
        if m and not m.group('decl') and re.fullmatch(r'\w+', m.group('lhs').strip()):
            return [(m.group('lhs').strip(), m.group('rhs'))]
        return []
    for st in P.walk(stmts):
        if st.kind == 'simple':
            for name, rhs in assigned(st):
                if '__Pyx_BufFmt_TypeCharTo' in rhs and name in tainted:
                    continue                        # the definitions themselves
                if name in tainted or any(_mentions(rhs, v) for v in tainted) and re.search(r'==|!=|<|>|\?', rhs):
                    # a later write to the item's size / group, or a flag computed from them
                    tainted.add(name)
                    relevant.append(st)
        elif st.kind in BRANCHING and any(_mentions(st.text, v) for v in tainted):
            relevant.append(st)
            for i in _cond_ids(st.text, what):
                m = re.fullmatch(r'(.+)->(size|typegroup|fields)', i)
                if m:
                    bases.add(m.group(1))
    if not relevant or not bases:
        raise AnalysisError('%s: no statement compares the size / type group of the format item with the declared type' % what)
    declared = re.compile(r'(?<![\w>.-])(?:%s)\s*->\s*(?:size|typegroup|fields)\b' % '|'.join(re.escape(b).replace(r'\-\>', r'\s*->\s*') for b in sorted(bases)))
    for st in P.walk(stmts):
        if st.kind in BRANCHING and st not in relevant and declared.search(st.text):
            relevant.append(st)
    want = {id(s) for s in relevant}
    best = None
    for lst in _stmt_lists(stmts):
        inside = {id(s) for s in P.walk(lst)}
        if want <= inside:
            best = lst                              # lists come outermost first: the last hit is the innermost
    hits = [i for i, s in enumerate(best) if want & {id(x) for x in P.walk([s])}]
    span = best[hits[0]:hits[-1] + 1]
    local = set()
    for st in P.walk(span):
        if st.kind == 'simple':
            local.update(n for n, _ in assigned(st))
    return span, size_var, group_var, bases, local


def chunk_table(chunk_body, letters_t, letters_g):
    """Decision table of the dtype-vs-format comparison in ProcessTypeChunk.
    -> rows {(T, G, size relation, has_fields): outcome} with outcome in accept / reject / descend; the size relation of the declared type to the format item is
    True (equal) / 'larger' / 'smaller' (both directions: an ordering test in place of the equality must not hide)."""
    what = '__Pyx_BufFmt_ProcessTypeChunk'
    stmts = P.parse_body(chunk_body)
    span, size_var, group_var, bases, local = chunk_region(stmts, chunk_body, what)
    ids = set()
    for s in P.walk(span):
        if s.kind in ('if', 'while', 'do', 'switch'):
            ids |= _cond_ids(s.text, what)
        elif s.kind == 'simple':
            # the declared side may also be read into a local first
            ids |= {re.sub(r'\s+', '', m.group(0)) for m in re.finditer(r'[A-Za-z_]\w*(?:\s*->\s*\w+)+', s.text)}
    rows = {}
    for T in letters_t:
        for G in letters_g:
            for same in (True, 'larger', 'smaller'):
                for fields in (True, False):
                    ex = P.Explorer(span, consts={'NULL': 0})
                    st = P.PState()
                    # concrete environment: identifiers are bound by their role; anything else stays symbolic and must not decide the outcome
                    st.env[size_var] = ('const', 4)
                    st.env[group_var] = ('const', ord(G))
                    for i in ids:
                        m = re.fullmatch(r'(.+)->(size|typegroup|fields)', i)
                        if m and m.group(1) in bases:
                            st.env[i] = ('const', {'size': {True: 4, 'larger': 8, 'smaller': 2}[same], 'typegroup': ord(T), 'fields': 1 if fields else 0}[m.group(2)])
                    try:
                        res = ex.stmts(span, st)
                    except P.Unmodelled as e:
                        raise AnalysisError('%s: %s' % (what, e))
                    outs = {}
                    for s1, exit_ in res:
                        if exit_[0] == 'return' and exit_[1].strip() in ('0', '(0)'):
                            o = 'accept-return'
                        else:
                            o = {'fall': 'accept', 'continue': 'descend', 'return': 'reject'}.get(exit_[0])
                        if o is None:
                            raise AnalysisError('%s: the comparison is left by `%s`, which the decision table does not model' % (what, ' '.join(exit_)))
                        outs.setdefault(o, s1)
                    if len(outs) != 1:
                        facts = sorted({t for s1 in outs.values() for t, _, _ in s1.facts if not t.startswith('switch(')})
                        raise AnalysisError('%s: for declared group %s / format group %s the outcome of the comparison (%s) depends on %s, not decidable from '
                                            '(typegroup, group, size, fields)' % (what, T, G, ' / '.join(sorted(outs)), ', '.join(facts[:3]) or 'a loop'))
                    rows[(T, G, same, fields)] = next(iter(outs))
    return rows


def chunk_problems(rows, char_letter='H', complex_letter='C'):
    """reference (the property): a format item is compatible when its size and its type group equal those of the declared field; the char group may pair with
    any group of equal size (chars do not care about sign); a mismatch is an error, or -- for a complex-typed struct only -- a descent into the struct's fields."""
    out = {}
    for (T, G, rel, fields), o in sorted(rows.items(), key=lambda kv: tuple(map(str, kv[0]))):
        same = rel is True
        compatible = same and T == G
        charpair = same and T != G and char_letter in (T, G)
        if compatible and o != 'accept':
            out.setdefault('equal-rejected', "a format item with the size and type group ('%s') of the declared field is not accepted (%s): matching buffers are refused" % (T, o))
        if o == 'accept' and not (compatible or charpair):
            out.setdefault('mismatch-accepted:%s' % ('size' if T == G else 'group' if same else 'both'),
                           "a format item of type group '%s'%s is ACCEPTED for a field of type group '%s' (%s): the bytes of the buffer are re-interpreted instead of raising ValueError"
                           % (G, '' if same else ' and a different size', T, 'e.g. a float32 buffer acquired by an int[:] view' if same else 'e.g. a 4-byte item matched against a 1-byte field'))
        if o == 'descend' and not (T == complex_letter and fields):
            out.setdefault('descend', "the comparison descends into the fields of a type of group '%s' with fields %s: NULL dereference / wrong match" % (T, 'present' if fields else 'NULL'))
    return sorted(out.items())


def rule_chunk(ctx, func, produced, returned):
    r = Rule('C17-CHUNK', 'decision table of the dtype-vs-format comparison of __Pyx_BufFmt_ProcessTypeChunk over (declared type group) x (format type group) x (declared size equal / larger / smaller) x (struct fields?): '
             'equal size and group is accepted, any other pairing except the equal-size char exemption is rejected or (complex struct) descended into', floor=250)
    pc = func(ctx, '__Pyx_BufFmt_ProcessTypeChunk')
    rows = chunk_table(pc.body, sorted(produced), sorted(returned))
    for k, o in rows.items():
        r.inst('chunk:%s:%s:%s:%s' % k, sample="declared '%s' vs format '%s', declared size %s, fields %s -> %s" % (k[0], k[1], 'equal' if k[2] is True else k[2], 'present' if k[3] else 'NULL', o))
    for k, msg in chunk_problems(rows):
        r.violate('__Pyx_BufFmt_ProcessTypeChunk:compare:%s' % k, BUFFER_C, pc.line, msg)
    pcrows = chunk_table("{ size = __Pyx_BufFmt_TypeCharToNativeSize(c, z); group = __Pyx_BufFmt_TypeCharToGroup(c, z); "
                         "if (type->size != size && type->typegroup != group) { if (type->typegroup == 'C' && type->fields != NULL) { continue; } return -1; } }", 'CI', 'IR')
    # the same comparison with the char exemption hoisted in front of it (and its size condition lost on the way): only visible when the region is found by def-use
    pcrows2 = chunk_table("{ size = __Pyx_BufFmt_TypeCharToNativeSize(c, z); group = __Pyx_BufFmt_TypeCharToGroup(c, z); "
                          "if (type->typegroup == 'H' || group == 'H') { } else if (type->size != size || type->typegroup != group) { "
                          "if (type->typegroup == 'C' && type->fields != NULL) { continue; } return -1; } }", 'HI', 'HI')
    r.positive_control({k for k, _ in chunk_problems(pcrows)} >= {'mismatch-accepted:group', 'mismatch-accepted:size'} and
                       {k for k, _ in chunk_problems(pcrows2)} >= {'mismatch-accepted:both', 'mismatch-accepted:size'},
                       '&& instead of || accepts one-sided mismatches; a char exemption hoisted in front of the comparison without its size test accepts any size')
    return r


# ---------------------------------------------------------------------------------------------------------------- C17-CMP
def cmp_findings(body, params, info_members, field_members, skip=('name',)):
    """__pyx_typeinfo_cmp(a, b): every member of the type descriptor that the format checker consults is compared for equality between a and b;
    pointer members are compared through their targets.  -> [(key, message)]"""
    a, b = params
    bad = []
    text = P.norm(body)

    def eq_compared(m, x=a, y=b, src=text):
        idx = r'(?:\s*\[[^\]]*\])?'
        pat1 = r'\b%s\s*->\s*%s%s\s*(==|!=|<=|>=|<|>)\s*%s\s*->\s*%s%s' % (re.escape(x), m, idx, re.escape(y), m, idx)
        pat2 = r'\b%s\s*->\s*%s%s\s*(==|!=|<=|>=|<|>)\s*%s\s*->\s*%s%s' % (re.escape(y), m, idx, re.escape(x), m, idx)
        ops = [mm.group(1) for mm in re.finditer(pat1, src)] + [mm.group(1) for mm in re.finditer(pat2, src)]
        return ops
    for m, t in info_members:
        if m in skip:
            continue
        if '*' in t:        # pointer to the field table: compared element-wise
            # locals that walk the two tables
            la = re.findall(r'\b(\w+)\s*=\s*%s\s*->\s*%s\s*(?:\+|;|\[)' % (re.escape(a), m), text) + re.findall(r'\b(\w+)\s*=\s*&\s*%s\s*->\s*%s\s*\[' % (re.escape(a), m), text)
            lb = re.findall(r'\b(\w+)\s*=\s*%s\s*->\s*%s\s*(?:\+|;|\[)' % (re.escape(b), m), text) + re.findall(r'\b(\w+)\s*=\s*&\s*%s\s*->\s*%s\s*\[' % (re.escape(b), m), text)
            if not la or not lb:
                bad.append((m, "the %s tables of the two type descriptors are not walked side by side" % m))
                continue
            for fm, ft in field_members:
                if fm in skip:
                    continue
                if '*' in ft and 'char' not in ft:
                    rec = re.search(r'\w+\s*\(\s*%s\s*->\s*%s\s*,\s*%s\s*->\s*%s\s*\)' % (re.escape(la[0]), fm, re.escape(lb[0]), fm), text) or \
                        re.search(r'\w+\s*\(\s*%s\s*->\s*%s\s*,\s*%s\s*->\s*%s\s*\)' % (re.escape(lb[0]), fm, re.escape(la[0]), fm), text)
                    if not rec:
                        bad.append(('%s.%s' % (m, fm), "the %s of corresponding struct fields are not compared recursively" % fm))
                    continue
                ops = eq_compared(fm, la[0], lb[0])
                if not ops:
                    bad.append(('%s.%s' % (m, fm), "struct fields are compared without their `%s`: two struct dtypes that differ only in the %s of a field (packed vs padded) compare equal" % (fm, fm)))
                elif any(o not in ('==', '!=') for o in ops):
                    bad.append(('%s.%s' % (m, fm), "the `%s` of corresponding struct fields is compared with an ordering (%s) instead of (in)equality" % (fm, ops[0])))
            continue
        ops = eq_compared(m)
        if not ops:
            bad.append((m, "member `%s` of the type descriptor is consulted by the format checker but not compared by the dtype-equality shortcut: two dtypes that differ in `%s` "
                           "compare equal and the format check is skipped" % (m, m)))
        elif any(o not in ('==', '!=') for o in ops):
            bad.append((m, "member `%s` is compared with an ordering (%s) instead of (in)equality: dtypes with a different `%s` compare equal" % (m, [o for o in ops if o not in ('==', '!=')][0], m)))
    return bad


def rule_cmp(ctx, func, section_funcs):
    r = Rule('C17-CMP', 'the dtype-equality shortcut (__pyx_typeinfo_cmp, which lets a Cython memoryview skip the format check) compares for (in)equality every member of '
             '__Pyx_TypeInfo / __Pyx_StructField that the format checker consults', floor=5)
    proto = ctx.cat.section('Buffer.c', 'BufferFormatStructs', 'proto')
    if proto is None:
        raise AnalysisError('Buffer.c::BufferFormatStructs.proto missing')
    ptext = proto.text or proto.raw
    info = struct_members(ptext, '__Pyx_TypeInfo')
    fld = struct_members(ptext, '__Pyx_StructField')
    checker = '\n'.join(d.body for d in section_funcs)
    # members the checker consults, outside error formatting
    plain = re.sub(r'PyErr_Format\s*\((?:[^()]|\([^()]*\))*\)', '', checker)
    used_info = [(m, t) for m, t in info if re.search(r'->\s*%s\b' % re.escape(m), plain)]
    used_fld = [(m, t) for m, t in fld if re.search(r'->\s*%s\b' % re.escape(m), plain)]
    d = func(ctx, '__pyx_typeinfo_cmp')
    params = [n for n, t in zip(d.param_names(), d.param_types()) if '__Pyx_TypeInfo' in t]
    if len(params) != 2:
        raise AnalysisError('__pyx_typeinfo_cmp: expected two __Pyx_TypeInfo parameters')
    # `name` is consulted only to build error messages (it reaches PyErr_Format through a local): diagnostic, not part of the comparison
    body = d.body
    # comparisons delegated to a helper that is handed both descriptors are read in the helper (parameters renamed to the caller's)
    for m in re.finditer(r'\b(\w+)\s*\(\s*(%s|%s)\s*,\s*(%s|%s)\s*\)' % (params[0], params[1], params[0], params[1]), d.body):
        if m.group(1) == d.name or m.group(2) == m.group(3):
            continue
        for h in ctx.cat.decls.get(m.group(1), []):
            if h.kind == 'func' and h.body and len([t for t in h.param_types() if '__Pyx_TypeInfo' in t]) == 2:
                hp = [n for n, t in zip(h.param_names(), h.param_types()) if '__Pyx_TypeInfo' in t]
                hb = re.sub(r'\b%s\b' % re.escape(hp[0]), '\x00A', h.body)
                hb = re.sub(r'\b%s\b' % re.escape(hp[1]), '\x00B', hb)
                body += ' ' + hb.replace('\x00A', m.group(2)).replace('\x00B', m.group(3))
    bad = dict(cmp_findings(body, params, used_info, used_fld))
    for m, t in used_info:
        if m == 'name':
            continue
        r.inst('__pyx_typeinfo_cmp:%s' % m, sample='member %s (%s) consulted by the checker' % (m, t))
        if '*' in t:
            for fm, ft in used_fld:
                if fm != 'name':
                    r.inst('__pyx_typeinfo_cmp:%s.%s' % (m, fm))
    for k, msg in sorted(bad.items()):
        r.violate('__pyx_typeinfo_cmp:%s' % k, BUFFER_C, d.line, '__pyx_typeinfo_cmp: ' + msg + ' (int view accepted as another dtype without any format check)')
    pcb = cmp_findings("{ if (a->size != b->size) return 0; for (i = 0; i < a->ndim; i++) if (a->arraysize[i] > b->arraysize[i]) return 0; return 1; }", ('a', 'b'),
                       [('size', 'size_t'), ('ndim', 'int'), ('arraysize', 'size_t[]')], [])
    r.positive_control({k for k, _ in pcb} == {'ndim', 'arraysize'}, 'member never compared; member compared with >')
    return r


# ---------------------------------------------------------------------------------------------------------------- C17-SLOT
HOLE = '§'


def _env_of(fn):
    env = {}
    for n in _ast.walk(fn):
        if isinstance(n, _ast.Assign) and len(n.targets) == 1 and isinstance(n.targets[0], _ast.Name):
            env.setdefault(n.targets[0].id, []).append(n.value)
    return env


def segments(expr, env, depth=0):
    """emitted text as a list of ('text', str) / ('hole', expression node), or None when the shape is not a template"""
    if depth > 4:
        return None
    if isinstance(expr, _ast.Constant) and isinstance(expr.value, str):
        return [('text', expr.value)]
    if isinstance(expr, _ast.Name):
        vals = env.get(expr.id, [])
        if len(vals) == 1:
            return segments(vals[0], env, depth + 1)
        return None
    if isinstance(expr, _ast.JoinedStr):
        out = []
        for v in expr.values:
            if isinstance(v, _ast.Constant):
                out.append(('text', v.value))
            elif isinstance(v, _ast.FormattedValue):
                out.append(('hole', v.value))
            else:
                return None
        return out
    if isinstance(expr, _ast.BinOp) and isinstance(expr.op, _ast.Add):
        a, b = segments(expr.left, env, depth + 1), segments(expr.right, env, depth + 1)
        return None if a is None or b is None else a + b
    if isinstance(expr, _ast.BinOp) and isinstance(expr.op, _ast.Mod):
        left = segments(expr.left, env, depth + 1)
        if left is None or any(k != 'text' for k, _ in left):
            return None
        tmpl = ''.join(v for _, v in left)
        right = expr.right
        if isinstance(right, _ast.Name) and len(env.get(right.id, [])) == 1:
            right = env[right.id][0]
        parts = list(right.elts) if isinstance(right, _ast.Tuple) else [right]
        pieces = re.split(r'%(?:[-0-9.]*)([sdrif%])', tmpl)
        out, k = [], 0
        for i, p in enumerate(pieces):
            if i % 2 == 0:
                if p:
                    out.append(('text', p))
            elif p == '%':
                out.append(('text', '%'))
            else:
                if k >= len(parts):
                    return None
                out.append(('hole', parts[k]))
                k += 1
        if k != len(parts):
            return None
        return out
    return None


def shapes(expr, env, depth=0):
    """finite set of the texts an expression can produce, unknown parts written as HOLE; None when not even that is known"""
    if depth > 5:
        return {HOLE}
    if isinstance(expr, _ast.Constant):
        return {str(expr.value)}
    if isinstance(expr, _ast.Name):
        vals = env.get(expr.id)
        if not vals:
            return {HOLE}
        out = set()
        for v in vals:
            out |= shapes(v, env, depth + 1)
        return out
    if isinstance(expr, _ast.IfExp):
        return shapes(expr.body, env, depth + 1) | shapes(expr.orelse, env, depth + 1)
    if isinstance(expr, _ast.BoolOp) and isinstance(expr.op, _ast.Or):
        out = set()
        for v in expr.values:
            out |= shapes(v, env, depth + 1)
        return out
    if isinstance(expr, _ast.Call) and isinstance(expr.func, _ast.Name) and expr.func.id == 'len':
        return {'<int>'}
    if isinstance(expr, _ast.Call) and isinstance(expr.func, _ast.Name) and expr.func.id in ('str', 'int') and expr.args:
        return shapes(expr.args[0], env, depth + 1) if expr.func.id == 'str' else {'<int>'}
    seg = segments(expr, env)
    if seg is not None:
        outs = {''}
        for k, v in seg:
            vals = {v} if k == 'text' else shapes(v, env, depth + 1)
            outs = {a + b for a in outs for b in vals}
            if len(outs) > 64:
                return {HOLE}
        return outs
    return {HOLE}


def _initialiser_slots(seg):
    """segments of `... = { a, b, { c }, d };` -> list of slots, each a list of segments (top-level commas of the outer braces)"""
    flat = []
    for k, v in seg:
        if k == 'text':
            flat.extend(('ch', c) for c in v)
        else:
            flat.append(('hole', v))
    try:
        start = next(i for i, (k, c) in enumerate(flat) if k == 'ch' and c == '{')
    except StopIteration:
        return None
    slots, cur, depth, quote = [], [], 0, False
    for k, c in flat[start + 1:]:
        if k == 'ch':
            if c == '"':
                quote = not quote
            if not quote:
                if c in '({[':
                    depth += 1
                elif c in ')}]':
                    if depth == 0:
                        slots.append(cur)
                        return slots
                    depth -= 1
                elif c == ',' and depth == 0:
                    slots.append(cur)
                    cur = []
                    continue
        cur.append((k, c))
    return None


def _slot_values(slot, env):
    outs = {''}
    for k, v in slot:
        vals = {v} if k == 'ch' else shapes(v, env)
        outs = {a + b for a in outs for b in vals}
        if len(outs) > 64:
            return {HOLE}
    return {o.strip() for o in outs}


def slot_findings(fn, struct_name, members, roles, flag_macros):
    """-> (n slots checked, [(key, message)]) for every emitted initialiser `static const <struct_name> ... = { ... }` / row `{...}` of such a table in fn"""
    env = _env_of(fn)
    bad, n = [], 0
    found = False
    slot_findings.values = {}
    for call in _ast.walk(fn):
        if not (isinstance(call, _ast.Call) and isinstance(call.func, _ast.Attribute) and call.func.attr in ('putln', 'put') and call.args):
            continue
        seg = segments(call.args[0], env)
        if seg is None:
            continue
        head = ''.join(v for k, v in seg if k == 'text')
        if not re.search(r'\b%s\b[^=]*=\s*\{' % re.escape(struct_name), ''.join(v if k == 'text' else 'X' for k, v in seg)):
            continue
        slots = _initialiser_slots(seg)
        if slots is None:
            raise AnalysisError('%s: initialiser of %s not understood' % (fn.name, struct_name))
        found = True
        if len(slots) != len(members):
            bad.append(('count', 'the emitted %s initialiser has %d slots but the struct has %d members (%s)' % (struct_name, len(slots), len(members), ', '.join(m for m, _ in members))))
            continue
        for (m, t), slot in zip(members, slots):
            vals = _slot_values(slot, env)
            slot_findings.values[m] = vals
            n += 1
            role = roles.get(m)
            for v in sorted(vals):
                has_letter = bool(P.char_literals(v))
                is_flag = any(re.search(r'\b%s\b' % re.escape(f), v) for f in flag_macros)
                if v == HOLE:
                    continue
                if role == 'letter' and not has_letter:
                    bad.append((m, "slot `%s` of the emitted %s is filled with `%s`, but the format checker compares %s with type-group letters: no dtype can ever match "
                                   "(the values of two slots are exchanged?)" % (m, struct_name, v.replace(HOLE, '...'), m)))
                    break
                if role != 'letter' and has_letter and not t.startswith('const char'):
                    bad.append((m, "slot `%s` of the emitted %s is filled with the type-group letter expression `%s`; the readers of `%s` never treat it as a letter" % (m, struct_name, v.replace(HOLE, '...'), m)))
                    break
                if role == 'flagset' and not (is_flag or v in ('0', '<int>')):
                    bad.append((m, "slot `%s` of the emitted %s is filled with `%s`, but its readers test it against the %s flag macros" % (m, struct_name, v.replace(HOLE, '...'), '/'.join(sorted(flag_macros)))))
                    break
                if role != 'flagset' and is_flag:
                    bad.append((m, "slot `%s` of the emitted %s receives the flag macro `%s`, which only the readers of another member test" % (m, struct_name, v)))
                    break
                if t.startswith('const char') and '*' in t and not v.startswith('"'):
                    bad.append((m, "slot `%s` (a C string) of the emitted %s is filled with `%s`" % (m, struct_name, v.replace(HOLE, '...'))))
                    break
                if t.endswith('[]') and not v.startswith('{'):
                    bad.append((m, "slot `%s` (an array) of the emitted %s is filled with `%s`" % (m, struct_name, v.replace(HOLE, '...'))))
                    break
    return found, n, bad


def member_roles(members, reader_texts, flag_macros):
    roles = {}
    for m, t in members:
        for txt in reader_texts:
            if re.search(r"(?:->|\.)\s*%s\s*[!=]=\s*'(?:\\.|[^'\\])'" % re.escape(m), txt):
                roles[m] = 'letter'
            elif any(re.search(r"(?:->|\.)\s*%s\s*&\s*%s\b" % (re.escape(m), re.escape(f)), txt) for f in flag_macros) and m not in roles:
                roles[m] = 'flagset'
    return roles


def sign_findings(values, letter_member, exporter_body, group_of):
    """the letter written under `<cond> ? 'X' : 'Y'` where <cond> is also the value of the member the exporter reads as "is unsigned":
    X must be the type group of the characters the exporter emits when that member is true.  -> (instances, [(key, msg)], infos)"""
    m = re.search(r"->\s*(\w+)\s*\)?\s*\?\s*'", exporter_body)
    if not m:
        return 0, [], ['the format exporter has no `type->member ? upper : lower` choice: signedness link not decided']
    sign_member = m.group(1)
    true_chars, false_chars = set(), set()
    for mm in re.finditer(r"->\s*%s\s*\)?\s*\?\s*('(?:\\.|[^'\\])')\s*:\s*('(?:\\.|[^'\\])')" % re.escape(sign_member), exporter_body):
        true_chars.add(P.char_value(mm.group(1)))
        false_chars.add(P.char_value(mm.group(2)))
    lt = {group_of(c) for c in true_chars}
    lf = {group_of(c) for c in false_chars}
    if len(lt) != 1 or len(lf) != 1 or None in lt or None in lf:
        return 0, [], ['exported signed/unsigned characters do not map to one type group each: %s / %s' % (sorted(map(str, lt)), sorted(map(str, lf)))]
    lt, lf = lt.pop(), lf.pop()
    conds = {re.sub(r'\s+', '', v) for v in values.get(sign_member, ()) if v not in ('0', '1', HOLE)}
    n, bad, infos = 0, [], []
    for v in sorted(values.get(letter_member, ())):
        mm = re.fullmatch(r"\(?\s*(.+?)\s*\?\s*('(?:\\.|[^'\\])')\s*:\s*('(?:\\.|[^'\\])')\s*\)?", v)
        if not mm:
            continue
        c = re.sub(r'\s+', '', mm.group(1))
        if c in ('0', '1'):
            continue
        if c not in conds:
            infos.append('type-group choice `%s` is not taken on the expression written to %s: not decided' % (v.replace(HOLE, '...'), sign_member))
            continue
        n += 1
        x, y = P.char_value(mm.group(2)), P.char_value(mm.group(3))
        if (x, y) != (lt, lf):
            bad.append(('signedness', "the type group is written as `%s`, and the same condition fills `%s`; when it is true the exporter emits %s (type group '%s'), when false %s ('%s'): "
                        "the letters are the wrong way round, so every signed dtype is declared unsigned (int[:] refuses 'i' buffers and accepts 'I' buffers)"
                        % (v.replace(HOLE, '...'), sign_member, sorted(true_chars), lt, sorted(false_chars), lf)))
    return n, bad, infos


def rule_slot(ctx, reader_texts, exporter_body=None, group_of=None):
    r = Rule('C17-SLOT', 'the positional __Pyx_TypeInfo initialiser written by Buffer.get_type_information_cname fills every member with a value of the kind its readers expect: '
             'type-group letters go to the member the checker compares with letters, flag macros to the member tested against them, strings/arrays to string/array members', floor=7)
    proto = ctx.cat.section('Buffer.c', 'BufferFormatStructs', 'proto')
    if proto is None:
        raise AnalysisError('Buffer.c::BufferFormatStructs.proto missing')
    ptext = proto.text or proto.raw
    members = struct_members(ptext, '__Pyx_TypeInfo')
    flag_macros = set(re.findall(r'#\s*define\s+(__PYX_BUF_FLAGS_\w+)', proto.raw))
    roles = member_roles(members, reader_texts, flag_macros)
    if 'letter' not in roles.values():
        raise AnalysisError('no member of __Pyx_TypeInfo is compared with a type-group letter by the checker')
    rel = 'Cython/Compiler/Buffer.py'
    from ..engine import tables as _tables
    fn = _tables.find_function(ctx.parse(rel), 'get_type_information_cname')
    if fn is None:
        raise AnalysisError('Buffer.get_type_information_cname vanished')
    found, n, bad = slot_findings(fn, '__Pyx_TypeInfo', members, roles, flag_macros)
    if not found:
        raise AnalysisError('get_type_information_cname: the emitted `static const __Pyx_TypeInfo ... = {...}` was not found')
    for m, t in members:
        r.inst('Buffer.get_type_information_cname:__Pyx_TypeInfo.%s' % m, sample='member %s (%s): role %s' % (m, t, roles.get(m, 'by type')))
    seen = set()
    for k, msg in bad:
        if k in seen:
            continue
        seen.add(k)
        r.violate('Buffer.get_type_information_cname:__Pyx_TypeInfo.%s' % k, rel, fn.lineno, msg)
    if exporter_body is not None:
        letter_member = [m for m, _ in members if roles.get(m) == 'letter'][0]
        n2, bad2, infos = sign_findings(slot_findings.values, letter_member, exporter_body, group_of)
        for i in infos:
            r.info(i)
        for _ in range(n2):
            r.inst('Buffer.get_type_information_cname:%s:signedness' % letter_member, sample='signed/unsigned letter choice agrees with the exporter')
        for k, msg in bad2:
            r.violate('Buffer.get_type_information_cname:%s:%s' % (letter_member, k), rel, fn.lineno, msg)
        if n2 == 0 and not bad:
            raise AnalysisError('get_type_information_cname: no signed/unsigned type-group choice found')
    pcf = _ast.parse("def f(code, u):\n g = \"'R'\"\n if u: g = \"'C'\"\n s = '0'\n if u: s = 'IS_U(%s)' % u\n code.putln('static const T %s = { \"%s\", %s, %s };' % (u, u, s, g))\n").body[0]
    _f, _n, pcbad = slot_findings(pcf, 'T', [('name', 'const char*'), ('group', 'char'), ('sign', 'char')], {'group': 'letter'}, set())
    r.positive_control({k for k, _ in pcbad} == {'group', 'sign'}, 'letter variable written into the sign slot and vice versa')
    return r


# ---------------------------------------------------------------------------------------------------------------- C17-CONTIG / C17-CF
MVC_C = 'Cython/Utility/MemoryView_C.c'


class Poly:
    """polynomial over named symbols with integer coefficients: {monomial (sorted tuple of names): coef}"""
    __slots__ = ('t',)

    def __init__(self, t=None):
        self.t = {k: v for k, v in (t or {}).items() if v}

    @staticmethod
    def const(c):
        return Poly({(): c})

    @staticmethod
    def sym(n):
        return Poly({(n,): 1})

    def is_const(self):
        return all(k == () for k in self.t)

    def value(self):
        return self.t.get((), 0)

    def __add__(self, o):
        t = dict(self.t)
        for k, v in o.t.items():
            t[k] = t.get(k, 0) + v
        return Poly(t)

    def __neg__(self):
        return Poly({k: -v for k, v in self.t.items()})

    def __sub__(self, o):
        return self + (-o)

    def __mul__(self, o):
        t = {}
        for k1, v1 in self.t.items():
            for k2, v2 in o.t.items():
                k = tuple(sorted(k1 + k2))
                t[k] = t.get(k, 0) + v1 * v2
        return Poly(t)

    def key(self):
        return tuple(sorted(self.t.items()))

    def __eq__(self, o):
        return isinstance(o, Poly) and self.key() == o.key()

    def __hash__(self):
        return hash(self.key())

    def __repr__(self):
        return ' + '.join('%s%s' % ('' if v == 1 and k else '%d*' % v if k else str(v), '*'.join(k)) for k, v in sorted(self.t.items())) or '0'


class SymGiveUp(Exception):
    pass


class StrideChecker:
    """Symbolic execution of a contiguity validator `f(buf, ndim, flag)`: concrete ndim / flag, symbolic shape, strides and itemsize.
    Result: the list of failure conditions [(frozenset of atoms)], atom = ('ne', Poly) meaning Poly != 0  or  ('gt', symbol, const)."""

    def __init__(self, body, params, macros):
        self.stmts = P.parse_body(body)
        self.buf, self.ndim_p, self.flag_p = params
        self.macros = macros

    def run(self, ndim, flag):
        self.env = {self.ndim_p: Poly.const(ndim), self.flag_p: Poly.const(flag)}
        self.fails = []
        self.steps = 0
        self._block(self.stmts)
        return self.fails

    def _val(self, e):
        k = e[0]
        if k in ('num', 'char'):
            return Poly.const(e[1])
        if k == 'cast':
            return self._val(e[2])
        if k == 'call' and e[1] in ('likely', 'unlikely') and len(e[2]) == 1:
            return self._val(e[2][0])
        if k == 'id':
            n = e[1]
            if n in self.env:
                return self.env[n]
            if n in self.macros:
                return Poly.const(self.macros[n])
            m = re.fullmatch(r'%s->(\w+)' % re.escape(self.buf), n)
            if m and m.group(1) == 'itemsize':
                return Poly.sym('itemsize')
            raise SymGiveUp('identifier %s' % n)
        if k == 'bin' and e[1] == '[]':
            base = e[2]
            m = re.fullmatch(r'%s->(shape|strides)' % re.escape(self.buf), base[1]) if base[0] == 'id' else None
            idx = self._val(e[3])
            if not m or not idx.is_const():
                raise SymGiveUp('subscript %s' % P.show(e))
            return Poly.sym('%s%d' % (m.group(1), idx.value()))
        if k == 'un' and e[1] == '-':
            return -self._val(e[2])
        if k == 'bin' and e[1] in ('+', '-', '*'):
            a, b = self._val(e[2]), self._val(e[3])
            return a + b if e[1] == '+' else a - b if e[1] == '-' else a * b
        if k == 'bin' and e[1] == '&':
            a, b = self._val(e[2]), self._val(e[3])
            if a.is_const() and b.is_const():
                return Poly.const(a.value() & b.value())
        raise SymGiveUp('expression %s' % P.show(e))

    def _cond(self, e):
        """-> True / False / frozenset of atoms (a conjunction)"""
        e = P._strip(e)
        if e[0] == 'bin' and e[1] == '&&':
            a, b = self._cond(e[2]), self._cond(e[3])
            if a is False or b is False:
                return False
            if a is True:
                return b
            if b is True:
                return a
            return a | b
        if e[0] == 'bin' and e[1] in ('==', '!=', '<', '>', '<=', '>='):
            a, b = self._val(e[2]), self._val(e[3])
            d = a - b
            if d.is_const():
                v = d.value()
                return {'==': v == 0, '!=': v != 0, '<': v < 0, '>': v > 0, '<=': v <= 0, '>=': v >= 0}[e[1]]
            if e[1] == '!=':
                # sign-normalise
                key = d.key()
                nk = (-d).key()
                return frozenset([('ne', d if key <= nk else -d)])
            if e[1] in ('>', '<') and len(d.t) <= 2:
                syms = [k for k in d.t if k]
                if len(syms) == 1 and len(syms[0]) == 1 and abs(d.t[syms[0]]) == 1:
                    c = -d.t.get((), 0) * d.t[syms[0]]
                    op = e[1] if d.t[syms[0]] == 1 else {'>': '<', '<': '>'}[e[1]]
                    return frozenset([({'>': 'gt', '<': 'lt'}[op], syms[0][0], c)])
            raise SymGiveUp('comparison %s' % P.show(e))
        v = self._val(e)
        if v.is_const():
            return bool(v.value())
        raise SymGiveUp('condition %s' % P.show(e))

    def _block(self, stmts):
        for s in stmts:
            self.steps += 1
            if self.steps > 2000:
                raise SymGiveUp('too many steps')
            r = self._stmt(s)
            if r is not None:
                return r
        return None

    def _stmt(self, s):
        if s.kind == 'block':
            return self._block(s.body)
        if s.kind in ('label', 'pp'):
            return None
        if s.kind == 'if':
            c = self._cond(P._parse(s.text))
            if c is True:
                return self._block(P.as_list(s.body))
            if c is False:
                return self._block(P.as_list(s.orelse)) if s.orelse is not None else None
            # symbolic: the then-branch must be a failure exit; the check goes on under the negation
            body = P.as_list(s.body)
            if not P.terminates(body) or s.orelse is not None:
                raise SymGiveUp('symbolic condition guards something else than a failure exit')
            self.fails.append(c)
            return None
        if s.kind == 'while':
            n = 0
            while True:
                c = self._cond(P._parse(s.text))
                if c is False:
                    return None
                if c is not True:
                    raise SymGiveUp('loop condition not concrete')
                r = self._block(P.as_list(s.body))
                if r is not None:
                    return r
                n += 1
                if n > 16:
                    raise SymGiveUp('loop does not terminate for the concrete ndim')
        if s.kind == 'for':
            parts = P._split_top(s.text, ';')
            if len(parts) != 3:
                raise SymGiveUp('for header')
            self._stmt(P.St('simple', parts[0].strip()))
            n = 0
            while True:
                c = self._cond(P._parse(parts[1]))
                if c is False:
                    break
                if c is not True:
                    raise SymGiveUp('loop condition not concrete')
                r = self._block(P.as_list(s.body))
                if r is not None:
                    return r
                self._stmt(P.St('simple', parts[2].strip()))
                n += 1
                if n > 16:
                    raise SymGiveUp('loop does not terminate for the concrete ndim')
            return None
        if s.kind == 'simple':
            t = s.text.strip()
            if not t or t.startswith('CYTHON_'):
                return None
            if re.match(r'(return|goto)\b', t):
                return t
            if t.startswith('PyErr_'):
                return None
            m = re.fullmatch(r'(\w+)\s*(\+\+|--)|(\+\+|--)\s*(\w+)', t)
            if m:
                v = m.group(1) or m.group(4)
                self.env[v] = self._val(('id', v)) + Poly.const(1 if (m.group(2) or m.group(3)) == '++' else -1)
                return None
            d = P.Explorer._declaration(t)
            if d is not None:
                for name, rhs in d:
                    if rhs is not None:
                        self.env[name] = self._val(P._parse(rhs))
                return None
            m = re.fullmatch(r'(\w+)\s*(=|\*=|\+=|-=)\s*(.+)', t, re.S)
            if m:
                rhs = self._val(P._parse(m.group(3)))
                cur = self.env.get(m.group(1))
                if m.group(2) != '=' and cur is None:
                    raise SymGiveUp('compound assignment to unknown %s' % m.group(1))
                self.env[m.group(1)] = rhs if m.group(2) == '=' else cur * rhs if m.group(2) == '*=' else cur + rhs if m.group(2) == '+=' else cur - rhs
                return None
            raise SymGiveUp('statement %s' % t[:40])
        raise SymGiveUp('statement kind %s' % s.kind)


def contig_reference(order, ndim):
    """C / Fortran contiguity (PEP 3118, numpy): dimension d with more than one element has stride itemsize * prod(extents of the faster dimensions)."""
    out = set()
    for d in range(ndim):
        faster = range(d + 1, ndim) if order == 'C' else range(0, d)
        p = Poly.sym('itemsize')
        for j in faster:
            p = p * Poly.sym('shape%d' % j)
        diff = p - Poly.sym('strides%d' % d)
        diff = diff if diff.key() <= (-diff).key() else -diff
        out.add(frozenset([('ne', diff), ('gt', 'shape%d' % d, 1)]))
    return out


def contig_findings(body, params, macros, orders, ndims=(1, 2, 3)):
    """-> (instances, [(key, msg)], fastest axis per macro)"""
    chk = StrideChecker(body, params, macros)
    inst, bad, fastest = [], [], {}
    for macro, order in sorted(orders.items()):
        for nd in ndims:
            try:
                got = set(chk.run(nd, macros[macro]))
            except (SymGiveUp, cexpr.ParseError) as e:
                raise AnalysisError('__pyx_verify_contig: symbolic execution gave up (%s)' % e)
            want = contig_reference(order, nd)
            inst.append('%s:ndim=%d' % (macro, nd))
            if nd == 2:
                for cond in got:
                    for a in cond:
                        if a[0] == 'ne' and set(a[1].t) == {('itemsize',), ('strides0',)}:
                            fastest[macro] = 'first'
                        if a[0] == 'ne' and set(a[1].t) == {('itemsize',), ('strides1',)}:
                            fastest[macro] = 'last'
            if got != want:
                miss = want - got
                extra = got - want

                def fmt(c):
                    return ' && '.join(sorted('%s != 0' % (a[1],) if a[0] == 'ne' else '%s > %s' % (a[1], a[2]) for a in c))
                bad.append(('%s:ndim=%d' % (macro, nd),
                            "under %s a %d-dimensional buffer is %s-contiguous iff every dimension d with more than one element has stride itemsize * (product of the extents of the %s dimensions); "
                            "__pyx_verify_contig instead rejects on {%s} and lacks {%s}: %s arrays are refused / non-contiguous ones are accepted and indexed with the wrong strides"
                            % (macro, nd, order, 'following' if order == 'C' else 'preceding', '; '.join(sorted(map(fmt, extra))) or '-', '; '.join(sorted(map(fmt, miss))) or '-',
                               'C-ordered' if order == 'C' else 'Fortran-ordered')))
    return inst, bad, fastest


POSITIVE_CONTIG = """{
    int i;
    if (flag & IS_F) { Py_ssize_t stride = 1; for (i = ndim - 1; i > -1; i--) { if (unlikely(stride * buf->itemsize != buf->strides[i] && buf->shape[i] > 1)) { goto fail; } stride = stride * buf->shape[i]; } }
    else if (flag & IS_C) { Py_ssize_t stride = 1; for (i = ndim - 1; i > -1; i--) { if (unlikely(stride * buf->itemsize != buf->strides[i] && buf->shape[i] > 1)) { goto fail; } } }
    return 1;
fail:
    return 0;
}"""


def _macro_values(ctx, names_re):
    out = {}
    for m in re.finditer(r'#\s*define\s+(%s)\s+(\d+)\b' % names_re, ctx.read(MVC_C)):
        out[m.group(1)] = int(m.group(2))
    return out


def rule_contig(ctx, func):
    r = Rule('C17-CONTIG', '__pyx_verify_contig executed symbolically (ndim 1..3, symbolic extents / strides / itemsize) demands exactly the strides that define C / Fortran '
             'contiguity under __Pyx_IS_C_CONTIG / __Pyx_IS_F_CONTIG', floor=6)
    d = func(ctx, '__pyx_verify_contig')
    macros = _macro_values(ctx, r'__Pyx_IS_[CF]_CONTIG')
    if set(macros) != {'__Pyx_IS_C_CONTIG', '__Pyx_IS_F_CONTIG'}:
        raise AnalysisError('__Pyx_IS_C_CONTIG / __Pyx_IS_F_CONTIG not defined in MemoryView_C.c')
    names, types = d.param_names(), d.param_types()
    buf = [n for n, t in zip(names, types) if 'Py_buffer' in t]
    ints = [n for n, t in zip(names, types) if re.fullmatch(r'int', t.strip())]
    if len(buf) != 1 or len(ints) != 2:
        raise AnalysisError('__pyx_verify_contig: signature (Py_buffer*, int ndim, int flag) not recognised')
    nd = [n for n in ints if 'dim' in n]
    if len(nd) != 1:
        # the ndim parameter is the one the loop headers read
        nd = [n for n in ints if re.search(r'for\s*\([^;]*;[^;]*\b%s\b' % re.escape(n), d.body) or re.search(r'for\s*\([^;]*\b%s\b' % re.escape(n), d.body)]
    flag = [n for n in ints if n not in nd]
    if len(nd) != 1 or len(flag) != 1:
        raise AnalysisError('__pyx_verify_contig: cannot tell the ndim parameter from the flag parameter')
    inst, bad, fastest = contig_findings(d.body, (buf[0], nd[0], flag[0]), macros, {'__Pyx_IS_C_CONTIG': 'C', '__Pyx_IS_F_CONTIG': 'F'})
    for k in inst:
        r.inst('__pyx_verify_contig:%s' % k, sample='__pyx_verify_contig under %s' % k)
    for k, msg in bad:
        r.violate('__pyx_verify_contig:%s' % k, MVC_C, d.line, msg)
    rule_contig.fastest = fastest
    _i, pcbad, _f = contig_findings(POSITIVE_CONTIG, ('buf', 'ndim', 'flag'), {'IS_C': 1, 'IS_F': 2}, {'IS_C': 'C', 'IS_F': 'F'})
    r.positive_control({k for k, _ in pcbad} == {'IS_F:ndim=2', 'IS_F:ndim=3', 'IS_C:ndim=2', 'IS_C:ndim=3'}, 'descending loop under the Fortran flag; stride never accumulated under the C flag')
    return r


# CPython C-API, "Buffer Protocol / contiguity requests": PyBUF_C_CONTIGUOUS = last dimension varies the fastest, PyBUF_F_CONTIGUOUS = first dimension
PYBUF_FASTEST = {'PyBUF_C_CONTIGUOUS': 'last', 'PyBUF_F_CONTIGUOUS': 'first'}


def _pybuf_in(node):
    out = set()
    for c in _ast.walk(node):
        if isinstance(c, _ast.Constant) and isinstance(c.value, str):
            out |= set(re.findall(r'PyBUF_[CF]_CONTIGUOUS', c.value))
    return out


def cf_sites(mv_tree, pt_tree, buf_tree):
    """Facts about which axis is the fastest one at every site that decides on a declared C / Fortran layout."""
    from ..engine import tables as _t
    facts = {'spec': {}, 'macro': {}, 'mvflag': {}, 'legacyflag': {}, 'lookup': {}}
    # (1) MemoryView.is_cf_contig: which axis carries 'contig'
    fn = _t.find_function(mv_tree, 'is_cf_contig')
    if fn is None:
        raise AnalysisError('MemoryView.is_cf_contig vanished')
    for n in _ast.walk(fn):
        if not isinstance(n, _ast.If):
            continue
        targets = [t.id for s in n.body if isinstance(s, _ast.Assign) and isinstance(s.value, _ast.Constant) and s.value.value is True for t in s.targets if isinstance(t, _ast.Name)]
        axes = set()
        for c in _ast.walk(n.test):
            if isinstance(c, _ast.Compare) and isinstance(c.left, _ast.Subscript) and isinstance(c.ops[0], _ast.Eq):
                idx = c.left.slice
                base = c.left.value.id if isinstance(c.left.value, _ast.Name) else None
                try:
                    iv = _small_eval(idx, {'len(%s)' % base: 5})
                except PyGiveUp:
                    continue
                if iv == 4:
                    iv = -1
                comp = c.comparators[0]
                if any(isinstance(x, _ast.Constant) and x.value == 'contig' for x in _ast.walk(comp)):
                    axes.add('last' if iv == -1 else 'first' if iv == 0 else str(iv))
        for t in targets:
            if axes:
                facts['spec'].setdefault(t, set()).update(axes)
    # (2) attribute -> macro handed to the validator
    for n in _ast.walk(pt_tree):
        if isinstance(n, _ast.If) and isinstance(n.test, _ast.Attribute) and n.test.attr in facts['spec']:
            for s in n.body:
                if isinstance(s, _ast.Assign) and isinstance(s.value, _ast.Constant) and isinstance(s.value.value, str) and re.fullmatch(r'__Pyx_IS_\w+', s.value.value):
                    facts['macro'].setdefault(n.test.attr, set()).add(s.value.value)
    # (4) attribute -> PyBUF request
    fn = _t.find_function(mv_tree, 'get_buf_flags')
    if fn is None:
        raise AnalysisError('MemoryView.get_buf_flags vanished')
    for n in _ast.walk(fn):
        if isinstance(n, _ast.If) and isinstance(n.test, _ast.Name) and n.test.id in facts['spec']:
            for s in n.body:
                if isinstance(s, _ast.Return) and s.value is not None:
                    v = s.value
                    if isinstance(v, _ast.Name):
                        v = _t.module_assign(mv_tree, v.id) or v
                    for f in _pybuf_in(v):
                        facts['mvflag'].setdefault(n.test.id, set()).add(f)
    # (5) legacy mode -> PyBUF request ; (6) legacy mode -> lookup generator
    gens = {}
    for n in _ast.walk(buf_tree):
        if isinstance(n, _ast.If) and isinstance(n.test, _ast.Compare) and len(n.test.ops) == 1 and isinstance(n.test.ops[0], _ast.Eq) \
                and isinstance(n.test.comparators[0], _ast.Constant) and isinstance(n.test.comparators[0].value, str) \
                and isinstance(n.test.left, (_ast.Name, _ast.Attribute)) and (getattr(n.test.left, 'id', None) == 'mode' or getattr(n.test.left, 'attr', None) == 'mode'):
            mode = n.test.comparators[0].value
            for s in n.body:
                if isinstance(s, _ast.Assign) and isinstance(s.value, _ast.Name) and s.value.id.startswith('buf_lookup_'):
                    gens.setdefault(mode, set()).add(s.value.id)
    _fn, reqs = legacy_requests(buf_tree)
    for mode, txt in reqs.items():
        for f in set(re.findall(r'PyBUF_[CF]_CONTIGUOUS', txt)):
            facts['legacyflag'].setdefault(mode, set()).add(f)
    for mode, names in gens.items():
        for name in names:
            g = _t.find_function(buf_tree, name)
            if g is None:
                raise AnalysisError('Buffer.%s vanished' % name)
            ax = _lookup_axis(g)
            if ax is not None:
                facts['lookup'].setdefault(mode, set()).add(ax)
    return facts


def _small_eval(node, env):
    """integer value of a tiny arithmetic expression over names bound in env (for range bounds / index expressions of code generators)"""
    if isinstance(node, _ast.Constant) and isinstance(node.value, int):
        return node.value
    if isinstance(node, _ast.Name) and node.id in env:
        return env[node.id]
    if isinstance(node, _ast.UnaryOp) and isinstance(node.op, _ast.USub):
        return -_small_eval(node.operand, env)
    if isinstance(node, _ast.BinOp) and isinstance(node.op, (_ast.Add, _ast.Sub, _ast.Mult)):
        a, b = _small_eval(node.left, env), _small_eval(node.right, env)
        return a + b if isinstance(node.op, _ast.Add) else a - b if isinstance(node.op, _ast.Sub) else a * b
    if isinstance(node, _ast.Call) and isinstance(node.func, _ast.Name) and node.func.id == 'len' and len(node.args) == 1 and isinstance(node.args[0], _ast.Name) \
            and ('len(%s)' % node.args[0].id) in env:
        return env['len(%s)' % node.args[0].id]
    raise PyGiveUp(_ast.unparse(node))


def _lookup_axis(fn):
    """a buf_lookup_*_code generator that leaves one index without its stride: which one?  'last' / 'first' / 'conflict...' / None (all indices strided).
    Range bounds and the plain index are evaluated for nd = 3 and nd = 4."""
    nd = [a.arg for a in fn.args.args][-1] if fn.args.args else 'nd'
    answers = set()
    for ndv in (3, 4):
        env = {nd: ndv}
        skipped, plain = set(), set()
        for n in _ast.walk(fn):
            # " + ".join(["i%d * s%d" % (i, i) for i in range(...)])
            if isinstance(n, (_ast.ListComp, _ast.GeneratorExp)) and any(isinstance(c, _ast.Constant) and isinstance(c.value, str) and '*' in c.value for c in _ast.walk(n.elt)):
                it = n.generators[0].iter
                if isinstance(it, _ast.Call) and isinstance(it.func, _ast.Name) and it.func.id == 'range':
                    try:
                        idx = set(range(*[_small_eval(x, env) for x in it.args]))
                    except (PyGiveUp, TypeError):
                        return 'conflict(range %s not understood)' % _ast.unparse(it)
                    miss = set(range(ndv)) - idx
                    skipped.add('none' if not miss else 'last' if miss == {ndv - 1} else 'first' if miss == {0} else 'other%s' % sorted(miss))
            # "... + i%d)" % (..., <index>)
            if isinstance(n, _ast.BinOp) and isinstance(n.op, _ast.Mod) and isinstance(n.left, _ast.Constant) and isinstance(n.left.value, str) \
                    and re.search(r'\+\s*i%d\s*\)\s*$', n.left.value) and isinstance(n.right, _ast.Tuple):
                try:
                    v = _small_eval(n.right.elts[-1], env)
                except PyGiveUp:
                    return 'conflict(index %s not understood)' % _ast.unparse(n.right.elts[-1])
                plain.add('last' if v == ndv - 1 else 'first' if v == 0 else 'other[%d]' % v)
        if not plain and skipped <= {'none'}:
            answers.add(None)
        elif plain == skipped and len(plain) == 1:
            answers.add(next(iter(plain)))
        else:
            answers.add('conflict(%s vs %s)' % (sorted(skipped), sorted(plain)))
    return answers.pop() if len(answers) == 1 else 'conflict(%s)' % sorted(map(str, answers))


def cf_problems(facts, fastest):
    """-> (instances, [(key, msg)])"""
    inst, bad = [], []
    for attr, axes in sorted(facts['spec'].items()):
        inst.append('memview:%s' % attr)
        views = {'axis declared ::1 in MemoryView.is_cf_contig': axes}
        macros = facts['macro'].get(attr, set())
        if len(macros) != 1:
            bad.append(('memview:%s:macro' % attr, 'the contiguity flag passed to the validator for %s is not a single macro (%s)' % (attr, sorted(macros))))
            continue
        macro = next(iter(macros))
        if macro not in fastest:
            bad.append(('memview:%s:macro' % attr, '%s passes %s to __Pyx_ValidateAndInit_memviewslice, which __pyx_verify_contig does not test for' % (attr, macro)))
            continue
        views['stride == itemsize demanded by __pyx_verify_contig under %s' % macro] = {fastest[macro]}
        flags = facts['mvflag'].get(attr, set())
        if len(flags) != 1:
            bad.append(('memview:%s:pybuf' % attr, 'MemoryView.get_buf_flags requests %s for %s' % (sorted(flags), attr)))
            continue
        flag = next(iter(flags))
        views['fastest axis of the %s request made to the exporter' % flag] = {PYBUF_FASTEST[flag]}
        if len({frozenset(v) for v in views.values()}) != 1:
            bad.append(('memview:%s' % attr, 'the sites that handle a view declared %s disagree about the fastest-varying axis: %s: e.g. int[:, ::1] is validated / requested as the other '
                        'layout, so C-ordered arrays are refused and Fortran-ordered ones are indexed as if they were C-ordered' % (attr, '; '.join('%s = %s' % (k, '/'.join(sorted(v))) for k, v in views.items()))))
    for mode, flags in sorted(facts['legacyflag'].items()):
        inst.append('legacy:mode=%s' % mode)
        if len(flags) != 1:
            bad.append(('legacy:mode=%s' % mode, 'Buffer.py requests %s for mode=%r' % (sorted(flags), mode)))
            continue
        flag = next(iter(flags))
        look = facts['lookup'].get(mode, set())
        if len(look) != 1 or next(iter(look)) != PYBUF_FASTEST[flag]:
            bad.append(('legacy:mode=%s' % mode, "for buffers declared mode=%r Buffer.get_flags asks the exporter for %s (fastest axis: %s) but the element lookup generated for that mode leaves the %s index "
                        "without its stride: elements of 2-d buffers are read from the wrong address" % (mode, flag, PYBUF_FASTEST[flag], '/'.join(sorted(look)) or 'no')))
    return inst, bad


def rule_cf(ctx, fastest):
    r = Rule('C17-CF', 'every site that acts on a declared C / Fortran layout designates the same fastest-varying axis: the axis declared ::1 (MemoryView.is_cf_contig), the macro handed to and '
             'tested by __pyx_verify_contig, the PyBUF_*_CONTIGUOUS request (memoryviews and legacy buffers) and the unstrided index of the generated legacy lookup', floor=4)
    facts = cf_sites(ctx.parse('Cython/Compiler/MemoryView.py'), ctx.parse('Cython/Compiler/PyrexTypes.py'), ctx.parse('Cython/Compiler/Buffer.py'))
    if set(facts['spec']) != {'is_c_contig', 'is_f_contig'} or set(facts['legacyflag']) != {'c', 'fortran'}:
        raise AnalysisError('layout sites not found: spec=%s legacy=%s' % (sorted(facts['spec']), sorted(facts['legacyflag'])))
    inst, bad = cf_problems(facts, fastest)
    for k in inst:
        r.inst(k, sample=k)
    from ..engine import tables as _t
    for k, msg in bad:
        if k.startswith('legacy'):
            fn = _t.find_function(ctx.parse('Cython/Compiler/Buffer.py'), 'get_flags')
            r.violate(k, 'Cython/Compiler/Buffer.py', fn.lineno if fn else 0, msg)
        else:
            fn = _t.find_function(ctx.parse('Cython/Compiler/MemoryView.py'), 'is_cf_contig')
            r.violate(k, 'Cython/Compiler/MemoryView.py', fn.lineno if fn else 0, msg)
    pf = {'spec': {'is_c': {'last'}}, 'macro': {'is_c': {'M_F'}}, 'mvflag': {'is_c': {'PyBUF_C_CONTIGUOUS'}}, 'legacyflag': {'c': {'PyBUF_F_CONTIGUOUS'}}, 'lookup': {'c': {'last'}}}
    _i, pcbad = cf_problems(pf, {'M_F': 'first', 'M_C': 'last'})
    r.positive_control({k for k, _ in pcbad} == {'memview:is_c', 'legacy:mode=c'}, 'C-contiguous view validated with the Fortran macro; mode c requesting F-contiguous data')
    return r


# ---------------------------------------------------------------------------------------------------------------- C17-AXIS
def _decide(d, env, consts):
    """run one validator on a fully concrete abstract input -> its constant return value (AnalysisError when a condition stays undecided)"""
    st = P.PState()
    for k, v in env.items():
        st.env[k] = ('const', v)
    try:
        paths = P.Explorer(P.parse_body(d.body), consts=consts).function(st)
    except P.Unmodelled as e:
        raise AnalysisError('%s: %s' % (d.name, e))
    outs = set()
    for s1, ex in paths:
        undecided = [t for t, _, _ in s1.facts if not t.startswith('switch(')]
        if undecided:
            raise AnalysisError('%s: condition `%s` is not decided by (spec, strides, suboffsets, shape, dim): decision table cannot be built' % (d.name, undecided[0]))
        v = _ret_const(ex, s1)
        if v is None:
            raise AnalysisError('%s: non-constant return' % d.name)
        outs.add(v)
    if len(outs) != 1:
        raise AnalysisError('%s: not deterministic on a concrete input' % d.name)
    return outs.pop()


def _axis_params(d):
    names, types = d.param_names(), d.param_types()
    buf = [n for n, t in zip(names, types) if 'Py_buffer' in t]
    ints = [n for n, t in zip(names, types) if re.fullmatch(r'int', t.strip())]
    spec = [n for n in ints if re.search(r'\b%s\s*&' % re.escape(n), d.body)]
    dim = [n for n in ints if re.search(r'\[\s*%s\s*\]' % re.escape(n), d.body)]
    rest = [n for n in ints if n not in spec and n not in dim]
    if len(buf) != 1 or len(spec) != 1 or len(dim) != 1:
        raise AnalysisError('%s: parameters (buffer, dim, spec) not recognised' % d.name)
    return buf[0], dim[0], spec[0], (rest[0] if rest else None)


def suboffset_table(d, macros):
    buf, dim, spec, nd = _axis_params(d)
    rows = {}
    for access in ('DIRECT', 'PTR', 'FULL'):
        for packing in ('CONTIG', 'STRIDED', 'FOLLOW'):
            for sub in ('NULL', -1, 0, 1):
                env = {spec: macros['__Pyx_MEMVIEW_' + access] | macros['__Pyx_MEMVIEW_' + packing], dim: 0, '%s->suboffsets' % buf: 0 if sub == 'NULL' else 1}
                if nd:
                    env[nd] = 2
                if sub != 'NULL':
                    env['%s->suboffsets[%s]' % (buf, dim)] = sub
                rows[(access, packing, sub)] = _decide(d, env, macros)
    return rows


def suboffset_problems(rows):
    """PEP 3118: a negative suboffset (or suboffsets == NULL) means the dimension is not dereferenced; a value >= 0 means it is."""
    bad = {}
    for (access, packing, sub), ok in sorted(rows.items(), key=str):
        indirect = sub != 'NULL' and sub >= 0
        want = {'DIRECT': not indirect, 'PTR': indirect, 'FULL': True}[access]
        if bool(ok) != want:
            what = 'suboffsets == NULL' if sub == 'NULL' else 'suboffset %d' % sub
            if access == 'DIRECT':
                msg = ("a dimension declared for direct access %s a buffer dimension with %s; PEP 3118: suboffset >= 0 means the stride step yields a pointer that must be dereferenced, < 0 / NULL means "
                       "plain data: %s" % ('ACCEPTS' if ok else 'REFUSES', what, 'pointers are read as element data' if ok else 'ordinary buffers are refused'))
            elif access == 'PTR':
                msg = "a dimension declared indirect (ptr) %s a buffer dimension with %s: %s" % ('ACCEPTS' if ok else 'REFUSES', what, 'element data is dereferenced as a pointer' if ok else 'indirect buffers are refused')
            else:
                msg = "a dimension declared `full` (direct or indirect decided at run time) REFUSES %s" % what
            bad.setdefault('%s:%s' % (access.lower(), 'indirect' if indirect else 'plain'), msg)
    return sorted(bad.items())


def stride_table(d, macros):
    buf, dim, spec, nd = _axis_params(d)
    rows = {}
    for isz in (4, 16):
        consts = dict(macros)
        consts['sizeof(void*)'] = 8
        for packing in ('CONTIG', 'FOLLOW'):
            for rel in ('-2I', '-I', '-I+1', '-1', '0', '1', 'I-1', 'I', 'I+1', '2I'):
                stride = {'-2I': -2 * isz, '-I': -isz, '-I+1': -isz + 1, '-1': -1, '0': 0, '1': 1, 'I-1': isz - 1, 'I': isz, 'I+1': isz + 1, '2I': 2 * isz}[rel]
                env = {spec: macros['__Pyx_MEMVIEW_DIRECT'] | macros['__Pyx_MEMVIEW_' + packing], dim: 1, '%s->shape[%s]' % (buf, dim): 2,
                       '%s->strides' % buf: 1, '%s->strides[%s]' % (buf, dim): stride, '%s->itemsize' % buf: isz, '%s->suboffsets' % buf: 0}
                if nd:
                    env[nd] = 2
                rows[(packing, 'strides', rel, isz)] = _decide(d, env, consts)
        # strides == NULL: the buffer is C-contiguous by definition (PEP 3118)
        for dimv in (0, 1):
            env = {spec: macros['__Pyx_MEMVIEW_DIRECT'] | macros['__Pyx_MEMVIEW_CONTIG'], dim: dimv, '%s->shape[%s]' % (buf, dim): 2,
                   '%s->strides' % buf: 0, '%s->itemsize' % buf: isz, '%s->suboffsets' % buf: 0}
            if nd:
                env[nd] = 2
            rows[('CONTIG', 'nostrides', 'last' if dimv == 1 else 'first', isz)] = _decide(d, env, consts)
    return rows


def stride_problems(rows):
    bad = {}
    for (packing, kind, rel, isz), ok in sorted(rows.items(), key=str):
        if kind == 'strides' and packing == 'CONTIG':
            want = rel == 'I'
            if bool(ok) != want:
                bad.setdefault('contig:%s' % ('accepts-noncontiguous' if ok else 'refuses-contiguous'),
                               "a directly accessed dimension declared contiguous (::1) %s stride %s (I = itemsize = %d, extent 2): the elements of a contiguous dimension are exactly itemsize apart; "
                               "%s" % ('ACCEPTS' if ok else 'REFUSES', rel, isz, 'a step-2 slice a[::2] is acquired and read with step 1' if ok else 'contiguous arrays are refused'))
        elif kind == 'strides' and packing == 'FOLLOW':
            if ok and rel in ('-I+1', '-1', '0', '1', 'I-1'):
                bad.setdefault('follow:overlap', "a dimension that follows a contiguous one is accepted with |stride| < itemsize (stride %s, itemsize %d): elements overlap" % (rel, isz))
            if not ok and rel in ('I', '2I', '-I', '-2I'):
                bad.setdefault('follow:refused', "a dimension that follows a contiguous one is refused with stride %s (itemsize %d)" % (rel, isz))
        elif kind == 'nostrides':
            want = rel == 'last'
            if bool(ok) != want:
                bad.setdefault('contig:nostrides:%s' % rel, "a buffer without strides is C-contiguous (PEP 3118): a view whose %s dimension is declared ::1 must be %s" % (rel, 'accepted' if want else 'refused'))
    return sorted(bad.items())


def validator_use(entry, validators):
    """every validator of the section is consulted on a successful path of the entry point, and a failing answer never leads to success"""
    paths = _paths(entry.body, entry.name)
    bad = []
    succ = [(st, ex) for st, ex in paths if _ret_const(ex, st) == 0]
    for v in validators:
        called = False
        for st, ex in succ:
            for t, truth, _ in st.facts:
                if t.startswith(v.name + '('):
                    called = True
                    if not truth:
                        bad.append((v.name + ':ignored', "%s returns success on a path where %s reported a failure: the validator's answer is ignored" % (entry.name, v.name)))
            if any(ev[0] == 'call' and ev[1] == v.name for ev in st.events) and not any(t.startswith(v.name + '(') for t, _, _ in st.facts):
                bad.append((v.name + ':unchecked', "%s calls %s without testing its result" % (entry.name, v.name)))
                called = True
        if not called:
            bad.append((v.name + ':unused', "%s never consults %s on a successful path: what it validates (%s) is not checked at acquisition" % (
                entry.name, v.name, 'per-axis suboffsets: indirect buffers are accepted by direct views' if 'suboffset' in v.name else 'per-axis strides' if 'stride' in v.name else 'contiguity')))
    seen, out = set(), []
    for k, m in bad:
        if k not in seen:
            seen.add(k)
            out.append((k, m))
    return out


def rule_axis(ctx, func):
    r = Rule('C17-AXIS', 'per-axis validation of a memoryview acquisition: decision tables of __pyx_check_suboffsets (access mode x suboffset sign, PEP 3118) and of the contiguous / follow rows of '
             '__pyx_check_strides (stride relative to itemsize), and every validator of the section is consulted with its failure honoured', floor=70)
    macros = _macro_values(ctx, r'__Pyx_MEMVIEW_\w+')
    need = {'__Pyx_MEMVIEW_' + k for k in ('DIRECT', 'PTR', 'FULL', 'CONTIG', 'STRIDED', 'FOLLOW')}
    if not need <= set(macros):
        raise AnalysisError('__Pyx_MEMVIEW_* macros missing: %s' % sorted(need - set(macros)))
    vals = [macros[k] for k in need]
    if any(v & (v - 1) for v in vals) or len(set(vals)) != len(vals):
        r.violate('MemoryView_C.c:__Pyx_MEMVIEW_*:bits', MVC_C, 0, 'the axis-spec macros are not distinct single bits (%s): access and packing of an axis cannot be told apart' % sorted(macros.items()))
        return r
    sub = func(ctx, '__pyx_check_suboffsets')
    rows = suboffset_table(sub, macros)
    for k, v in rows.items():
        r.inst('__pyx_check_suboffsets:%s:%s:%s' % k, sample='access %s packing %s suboffset %s -> %s' % (k + ('ok' if v else 'fail',)))
    for k, msg in suboffset_problems(rows):
        r.violate('__pyx_check_suboffsets:%s' % k, MVC_C, sub.line, '__pyx_check_suboffsets: ' + msg)
    stf = func(ctx, '__pyx_check_strides')
    srows = stride_table(stf, macros)
    for k, v in srows.items():
        r.inst('__pyx_check_strides:%s:%s:%s:%d' % k, sample='packing %s %s %s itemsize %d -> %s' % (k + ('ok' if v else 'fail',)))
    for k, msg in stride_problems(srows):
        r.violate('__pyx_check_strides:%s' % k, MVC_C, stf.line, '__pyx_check_strides: ' + msg)
    entry = func(ctx, '__Pyx_ValidateAndInit_memviewslice')
    validators = [d for d in _section_of(ctx, entry.file, entry.section.name) if d.name != entry.name and any('Py_buffer' in t for t in d.param_types())]
    if len(validators) < 3:
        raise AnalysisError('only %d validators found next to %s' % (len(validators), entry.name))
    for v in validators:
        r.inst('%s:consults:%s' % (entry.name, v.name), sample='%s consults %s' % (entry.name, v.name))
    for k, msg in validator_use(entry, validators):
        r.violate('%s:%s' % (entry.name, k), MVC_C, entry.line, msg)

    class _D:
        name = 'pc'
        body = "{ if (spec & 1) { if (unlikely(buf->suboffsets && buf->suboffsets[dim] > 0)) goto fail; } if (spec & 2) { if (unlikely(!buf->suboffsets || (buf->suboffsets[dim] < 0))) goto fail; } return 1; fail: return 0; }"

        @staticmethod
        def param_names():
            return ['buf', 'dim', 'ndim', 'spec']

        @staticmethod
        def param_types():
            return ['Py_buffer *', 'int', 'int', 'int']
    pm = {'__Pyx_MEMVIEW_DIRECT': 1, '__Pyx_MEMVIEW_PTR': 2, '__Pyx_MEMVIEW_FULL': 4, '__Pyx_MEMVIEW_CONTIG': 8, '__Pyx_MEMVIEW_STRIDED': 16, '__Pyx_MEMVIEW_FOLLOW': 32}
    r.positive_control([k for k, _ in suboffset_problems(suboffset_table(_D, pm))] == ['direct:indirect'], 'suboffset 0 accepted for direct access')
    return r


# ---------------------------------------------------------------------------------------------------------------- C17-DIGITS
DIGITS = frozenset(range(ord('0'), ord('9') + 1))
NONDIGITS = frozenset(range(0, 256)) - DIGITS


class NonUniform(Exception):
    def __init__(self, cond, klass, odd):
        self.cond, self.klass, self.odd = cond, klass, odd


class DigitExec:
    """Symbolic execution of a leaf number parser `int f(const char **ts)` on the input  d0 d1 ... d(n-1) X  where every d is an arbitrary decimal digit and X an
    arbitrary non-digit byte.  A condition on an input character is evaluated for EVERY member of the character's class (complete enumeration of the byte domain);
    if the members disagree the classes are not respected and NonUniform is raised.  Arithmetic is carried as polynomials in the character symbols."""

    def __init__(self, body, param):
        self.param = param
        txt = re.sub(r'\*\s*%s\b' % re.escape(param), '__p', body)
        self.stmts = P.parse_body(txt)

    def run(self, n):
        self.n = n
        self.env = {'__p': ('pos', 0)}
        self.steps = 0
        r = self._block(self.stmts)
        if r is None:
            raise SymGiveUp('function falls off its end')
        return r, self.env['__p']

    def _sym(self, pos):
        if pos > self.n:
            raise SymGiveUp('the parser reads past the first non-digit')
        return Poly.sym('c%d' % pos)

    def _prep(self, text):
        """`*t++` -> placeholder read + deferred increment; returns (text, [vars to increment])"""
        incs = []

        def rep(m):
            incs.append(m.group(1))
            return '__rd_%s' % m.group(1)
        text = re.sub(r'\*\s*([A-Za-z_]\w*)\s*\+\+', rep, text)
        if re.search(r'\+\+|--', text):
            raise SymGiveUp('increment form in %r' % text)
        return text, incs

    def _val(self, e):
        k = e[0]
        if k in ('num', 'char'):
            return Poly.const(e[1])
        if k == 'cast':
            return self._val(e[2])
        if k == 'call' and e[1] in ('likely', 'unlikely') and len(e[2]) == 1:
            return self._val(e[2][0])
        if k == 'id':
            if e[1].startswith('__rd_'):
                v = self.env.get(e[1][5:])
                if not (isinstance(v, tuple) and v[0] == 'pos'):
                    raise SymGiveUp('dereference of %s' % e[1][5:])
                return self._sym(v[1])
            v = self.env.get(e[1])
            if isinstance(v, Poly):
                return v
            raise SymGiveUp('value of %s' % e[1])
        if k == 'un' and e[1] == '*' and e[2][0] == 'id':
            v = self.env.get(e[2][1])
            if isinstance(v, tuple) and v[0] == 'pos':
                return self._sym(v[1])
            raise SymGiveUp('dereference of %s' % e[2][1])
        if k == 'un' and e[1] == '-':
            return -self._val(e[2])
        if k == 'bin' and e[1] in ('+', '-', '*'):
            a, b = self._val(e[2]), self._val(e[3])
            return a + b if e[1] == '+' else a - b if e[1] == '-' else a * b
        raise SymGiveUp('expression %s' % P.show(e))

    def _truth(self, e, bind):
        """concrete truth of a condition once every character symbol is bound"""
        e = P._strip(e)
        if e[0] == 'bin' and e[1] in ('&&', '||'):
            a = self._truth(e[2], bind)
            if (e[1] == '&&') != a:
                return a
            return self._truth(e[3], bind)
        if e[0] == 'un' and e[1] == '!':
            return not self._truth(e[2], bind)
        if e[0] == 'bin' and e[1] in ('==', '!=', '<', '>', '<=', '>='):
            d = self._val(e[2]) - self._val(e[3])
            op = e[1]
        else:
            d = self._val(e)
            op = '!='
        v = 0
        for mono, coef in d.t.items():
            term = coef
            for sname in mono:
                if sname not in bind:
                    raise SymGiveUp('unbound symbol %s' % sname)
                term *= bind[sname]
            v += term
        return {'==': v == 0, '!=': v != 0, '<': v < 0, '>': v > 0, '<=': v <= 0, '>=': v >= 0}[op]

    def _symbols(self, e, out):
        e = P._strip(e)
        if e[0] == 'bin' and e[1] in ('&&', '||', '==', '!=', '<', '>', '<=', '>='):
            self._symbols(e[2], out)
            self._symbols(e[3], out)
        elif e[0] == 'un' and e[1] == '!':
            self._symbols(e[2], out)
        else:
            for mono in self._val(e).t:
                out.update(mono)

    def _cond(self, e, text):
        syms = set()
        self._symbols(e, syms)
        if not syms:
            return self._truth(e, {})
        if len(syms) != 1:
            raise SymGiveUp('condition on more than one input character: %s' % text)
        s = next(iter(syms))
        pos = int(s[1:])
        klass = DIGITS if pos < self.n else NONDIGITS
        res = {ch: self._truth(e, {s: ch}) for ch in klass}
        if len(set(res.values())) != 1:
            major = sum(res.values()) * 2 > len(res)
            raise NonUniform(text, 'digit' if pos < self.n else 'non-digit', sorted(ch for ch, t in res.items() if t != major))
        return next(iter(res.values()))

    def _apply_incs(self, incs):
        for v in incs:
            cur = self.env.get(v)
            if not (isinstance(cur, tuple) and cur[0] == 'pos'):
                raise SymGiveUp('increment of %s' % v)
            self.env[v] = ('pos', cur[1] + 1)

    def _assign(self, name, op, rhs):
        rhs, incs = self._prep(rhs)
        e = P._parse(rhs)
        s = P._strip(e)
        if op == '=' and s[0] == 'id' and isinstance(self.env.get(s[1]), tuple):
            self.env[name] = self.env[s[1]]
        else:
            v = self._val(e)
            cur = self.env.get(name)
            if op != '=' and not isinstance(cur, Poly):
                raise SymGiveUp('compound assignment to %s' % name)
            self.env[name] = v if op == '=' else cur * v if op == '*=' else cur + v if op == '+=' else cur - v
        self._apply_incs(incs)

    def _block(self, stmts):
        for s in stmts:
            self.steps += 1
            if self.steps > 500:
                raise SymGiveUp('too many steps')
            r = self._stmt(s)
            if r is not None:
                return r
        return None

    def _stmt(self, s):
        if s.kind == 'block':
            return self._block(s.body)
        if s.kind in ('label', 'pp'):
            return None
        if s.kind == 'if':
            t, incs = self._prep(s.text)
            c = self._cond(P._parse(t), s.text)
            self._apply_incs(incs)
            br = s.body if c else s.orelse
            return self._block(P.as_list(br)) if br is not None else None
        if s.kind == 'while':
            k = 0
            while True:
                t, incs = self._prep(s.text)
                c = self._cond(P._parse(t), s.text)
                self._apply_incs(incs)
                if not c:
                    return None
                r = self._block(P.as_list(s.body))
                if r is not None:
                    return r
                k += 1
                if k > self.n + 2:
                    raise SymGiveUp('loop does not stop at the non-digit')
        if s.kind == 'simple':
            t = s.text.strip()
            if not t:
                return None
            m = re.match(r'return\b\s*(.*)$', t, re.S)
            if m:
                txt, incs = self._prep(m.group(1))
                v = self._val(P._parse(txt))
                self._apply_incs(incs)
                return ('ret', v)
            m = re.fullmatch(r'([A-Za-z_]\w*)\s*\+\+|\+\+\s*([A-Za-z_]\w*)', t)
            if m:
                self._apply_incs([m.group(1) or m.group(2)])
                return None
            d = P.Explorer._declaration(t)
            if d is not None:
                for name, rhs in d:
                    if rhs is not None:
                        self._assign(name, '=', rhs)
                return None
            m = re.fullmatch(r'([A-Za-z_]\w*)\s*(=|\*=|\+=|-=)\s*(.+)', t, re.S)
            if m:
                self._assign(m.group(1), m.group(2), m.group(3))
                return None
            raise SymGiveUp('statement %s' % t[:40])
        raise SymGiveUp('statement kind %s' % s.kind)


def decimal_reference(n):
    """value of the decimal numeral c0 c1 ... c(n-1) as a polynomial in the character codes"""
    p = Poly.const(0)
    for i in range(n):
        p = p * Poly.const(10) + (Poly.sym('c%d' % i) - Poly.const(ord('0')))
    return p


def digit_findings(body, param):
    """-> [(key, msg)]"""
    ex = DigitExec(body, param)
    bad = []
    for n in (0, 1, 2, 3):
        try:
            (kind, val), pos = ex.run(n)
        except NonUniform as e:
            bad.append(('digit-class', "the test `%s` treats the %s byte(s) %s differently from the other %ss: a repeat count / array extent is a run of the decimal digits 0-9 "
                        "(struct module grammar), so e.g. '19i' or '(9)i' is mis-read" % (e.cond, e.klass, ', '.join(repr(chr(c)) if 32 <= c < 127 else str(c) for c in e.odd[:4]), e.klass)))
            break
        if n == 0:
            if not (val.is_const() and val.value() < 0) or pos != ('pos', 0):
                bad.append(('no-digit', "for an input that does not start with a digit the parser returns %s and moves the cursor to %s instead of returning a negative value in place" % (val, pos)))
            continue
        want = decimal_reference(n)
        if val != want:
            bad.append(('value', "for the %d-digit input c0..c%d the parser returns %s; the decimal value is %s: counts / extents with %s digits are mis-read" % (n, n - 1, val, want, 'two or more' if n > 1 else 'one')))
            break
        if pos != ('pos', n):
            bad.append(('cursor', "after a %d-digit number the cursor is left at offset %s instead of %d" % (n, pos[1], n)))
            break
    return bad


def rule_digits(ctx, section_funcs):
    r = Rule('C17-DIGITS', 'the number parser of the format scanner, executed symbolically on digit runs of length 0..3 (every condition evaluated on all 256 byte values per character class, '
             'arithmetic kept as polynomials), accepts exactly runs of 0-9, returns their decimal value and leaves the cursor behind them', floor=1)
    n = 0
    for d in section_funcs:
        names, types = d.param_names(), d.param_types()
        cur = [nm for nm, t in zip(names, types) if re.fullmatch(r'const\s+char\s*\*\s*\*', ' '.join(t.split()))]
        if len(cur) != 1 or len(names) != 1:
            continue
        if re.search(r'\b(?!while\b|if\b|for\b|return\b|sizeof\b|likely\b|unlikely\b)[A-Za-z_]\w*\s*\(', d.body):
            continue                # not a leaf: wrappers / error reporting
        n += 1
        r.inst('%s:decimal' % d.name, sample='%s(const char **%s)' % (d.name, cur[0]))
        try:
            bad = digit_findings(d.body, cur[0])
        except (SymGiveUp, cexpr.ParseError) as e:
            raise AnalysisError('%s: symbolic execution gave up: %s' % (d.name, e))
        for k, msg in bad:
            r.violate('%s:%s' % (d.name, k), BUFFER_C, d.line, '%s: %s' % (d.name, msg))
    if n == 0:
        raise AnalysisError('no leaf number parser `int f(const char **)` in the format scanner')
    pc1 = digit_findings("{ int c; const char* t = *ts; if (*t < '0' || *t > '9') { return -1; } c = *t++ - '0'; while (*t >= '0' && *t < '9') { c *= 10; c += *t++ - '0'; } *ts = t; return c; }", 'ts')
    pc2 = digit_findings("{ int c; const char* t = *ts; if (*t < '0' || *t > '9') { return -1; } c = *t++ - '0'; while (*t >= '0' && *t <= '9') { c *= 8; c += *t++ - '0'; } *ts = t; return c; }", 'ts')
    r.positive_control([k for k, _ in pc1] == ['digit-class'] and [k for k, _ in pc2] == ['value'], "digit 9 excluded by the loop test; radix 8")
    return r


# ---------------------------------------------------------------------------------------------------------------- C17-EQ
CMP_OPS = ('==', '!=', '<', '>', '<=', '>=')


def _skeleton(e, atoms):
    """boolean skeleton of a condition: comparison atoms and other leaves are collected in `atoms` and referenced by index"""
    e = P._strip(e)
    if e[0] == 'bin' and e[1] in ('&&', '||'):
        return (e[1], _skeleton(e[2], atoms), _skeleton(e[3], atoms))
    if e[0] == 'un' and e[1] == '!':
        return ('!', _skeleton(e[2], atoms))
    if e[0] == 'bin' and e[1] in CMP_OPS:
        atoms.append(('cmp', e[1], P.show(P._strip(e[2])), P.show(P._strip(e[3]))))
    else:
        atoms.append(('leaf', P.show(e)))
    return ('atom', len(atoms) - 1)


def _sk_eval(sk, vals):
    if sk[0] == 'atom':
        return vals[sk[1]]
    if sk[0] == '!':
        return not _sk_eval(sk[1], vals)
    a = _sk_eval(sk[1], vals)
    if sk[0] == '&&':
        return a and _sk_eval(sk[2], vals)
    return a or _sk_eval(sk[2], vals)


def asymmetric_pairs(cond_text, is_quantity):
    """pairs (x, y) compared in the condition, with x or y a descriptor quantity, for which the condition can tell x < y from x > y -> [(x, y)]"""
    try:
        e = P._parse(cond_text)
    except cexpr.ParseError:
        return None
    atoms = []
    sk = _skeleton(e, atoms)
    pairs = {}
    for i, a in enumerate(atoms):
        if a[0] == 'cmp' and (is_quantity(a[2]) or is_quantity(a[3])) and not re.fullmatch(r'-?\d+|NULL', a[2]) and not re.fullmatch(r'-?\d+|NULL', a[3]):
            pairs.setdefault(frozenset((a[2], a[3])), []).append(i)
    out = []
    import itertools
    for pair, idxs in pairs.items():
        free = [i for i in range(len(atoms)) if i not in idxs]
        if len(free) > 10:
            return None
        x = atoms[idxs[0]][2]
        asym = False
        for bits in itertools.product((False, True), repeat=len(free)):
            res = {}
            for order in (-1, 1):           # x < y , x > y
                vals = [None] * len(atoms)
                for i, b in zip(free, bits):
                    vals[i] = b
                for i in idxs:
                    _k, op, l, r_ = atoms[i]
                    o = order if l == x else -order
                    vals[i] = {'==': False, '!=': True, '<': o < 0, '>': o > 0, '<=': o < 0, '>=': o > 0}[op]
                res[order] = _sk_eval(sk, vals)
            if res[-1] != res[1]:
                asym = True
                break
        if asym:
            out.append(tuple(sorted(pair)))
    return out


def rule_eq(ctx, funcs_by_name):
    r = Rule('C17-EQ', 'compatibility is equality: no condition of the format checker, the dtype comparison or the acquisition entry points can tell `quantity of the declared type < '
             'quantity of the buffer` from `>` (sizes, extents, dimension counts are compared with == / != or an expression symmetric in the two)', floor=11)
    proto = ctx.cat.section('Buffer.c', 'BufferFormatStructs', 'proto')
    members = [m for m, t in struct_members(proto.text or proto.raw, '__Pyx_TypeInfo') if '*' not in t and not t.startswith('char') and not t.startswith('const char')]
    pat = re.compile(r'->(?:%s)(?:\[[^\]]*\])?$' % '|'.join(map(re.escape, members)))

    def is_quantity(text):
        return bool(pat.search(text.replace(' ', '')))
    n = 0
    for d in funcs_by_name:
        stmts = P.parse_body(re.sub(r'\$(\w+)', r'\1', d.body))
        k = 0
        for s in P.walk(stmts):
            if s.kind not in ('if', 'while', 'do'):
                continue
            if not pat.search(re.sub(r'\s+', '', s.text).replace(')', '').replace('(', '')) and not re.search(r'->\s*(?:%s)\b' % '|'.join(map(re.escape, members)), s.text):
                continue
            pairs = asymmetric_pairs(s.text, is_quantity)
            if pairs is None:
                r.info('%s: condition `%s` not analysed' % (d.name, s.text[:60]))
                continue
            k += 1
            n += 1
            r.inst('%s:cond#%d' % (d.name, k), sample='%s: %s' % (d.name, s.text[:70]))
            for x, y in pairs:
                r.violate('%s:%s<>%s' % (d.name, x, y), 'Cython/Utility/' + d.file, d.line,
                          "%s: the condition `%s` distinguishes `%s` being smaller than `%s` from it being larger: a buffer whose extent / size / dimension count differs from the declared type "
                          "in one direction is accepted (e.g. a sub-array '(5)i' for a field declared int[3])" % (d.name, s.text[:120], x, y))
    pc = asymmetric_pairs('i < ndim && (size_t) number < f->type->arraysize[i]', is_quantity if members else (lambda t: 'arraysize' in t))
    pc2 = asymmetric_pairs('a->ndim > b->ndim || a->ndim < b->ndim || !(a->size == b->size)', lambda t: bool(re.search(r'->(ndim|size)$', t)))
    r.positive_control(pc == [('f->type->arraysize[i]', 'number')] and pc2 == [], 'extent compared with <; a symmetric spelling of != stays silent')
    return r


# ---------------------------------------------------------------------------------------------------------------- C17-ALIGN
def align_sites(d):
    """statement runs `m = T % A; if (m > 0) T += A - m;` / `if (A && T % A) { T += A - (T % A); }` -> [(key, [stmts], T, A)]"""
    out = []
    stmts = P.parse_body(d.body)

    def lists(lst):
        yield lst
        for s in lst:
            if s.kind == 'switch':
                for a in P.switch_arms(s):
                    yield from lists(a.body)
                continue
            for sub in (s.body, s.orelse):
                if sub is not None:
                    yield from lists(P.as_list(sub))

    guarded = set()
    for lst in lists(stmts):
        for s in lst:
            if s.kind == 'if':
                guarded.update(id(x) for x in P.as_list(s.body))
    for lst in lists(stmts):
        for i, s in enumerate(lst):
            if s.kind == 'simple':
                if id(s) in guarded:
                    continue
                m = re.match(r'([A-Za-z_]\w*(?:->\w+)*)\s*\+=\s*(.+)$', s.text)
                mm = m and re.search(r'%s\s*%%\s*([A-Za-z_]\w*(?:->\w+)*)' % re.escape(m.group(1)), m.group(2))
                if mm:
                    out.append(([s], m.group(1), mm.group(1)))
                continue
            if s.kind != 'if' or s.orelse is not None:
                continue
            body = P.as_list(s.body)
            if not body or any(x.kind != 'simple' for x in body):
                continue
            inner = ' '.join(x.text for x in body)
            m = re.search(r'([A-Za-z_]\w*(?:->\w+)*)\s*\+=', inner)
            if not m:
                continue
            T = m.group(1)
            start = i
            mm = re.search(r'%s\s*%%\s*([A-Za-z_]\w*(?:->\w+)*)' % re.escape(T), s.text + ' ' + inner)
            if not mm and i > 0 and lst[i - 1].kind == 'simple':
                mm = re.search(r'%s\s*%%\s*([A-Za-z_]\w*(?:->\w+)*)' % re.escape(T), lst[i - 1].text)
                start = i - 1
            if mm:
                out.append((lst[start:i + 1], T, mm.group(1)))
    return out


def align_problems(run, T, A):
    bad = []
    for a in (1, 2, 3, 4, 8, 16):
        for off in range(0, 2 * a + 1):
            st = P.PState()
            st.env[re.sub(r'\s+', '', T)] = ('const', off)
            st.env[re.sub(r'\s+', '', A)] = ('const', a)
            try:
                res = P.Explorer(run).stmts(run, st)
            except P.Unmodelled as e:
                raise AnalysisError('alignment block: %s' % e)
            for s1, ex in res:
                if [t for t, _, _ in s1.facts]:
                    raise AnalysisError('alignment block depends on `%s`' % s1.facts[0][0])
                v = s1.env.get(re.sub(r'\s+', '', T))
                if v is None or v[0] != 'const':
                    raise AnalysisError('alignment block: value of %s not constant after the block' % T)
                want = (off + a - 1) // a * a
                if v[1] != want:
                    bad.append("with alignment %d an offset of %d becomes %d (the next multiple is %d)" % (a, off, v[1], want))
                    return bad
    return bad


def rule_align(ctx, section_funcs):
    r = Rule('C17-ALIGN', 'every round-up-to-alignment block of the format checker (offset % alignment -> offset += ...) yields the least multiple of the alignment that is >= the offset, '
             'for every residue class (alignments 1,2,3,4,8,16)', floor=2)
    for d in section_funcs:
        for k, (run, T, A) in enumerate(align_sites(d)):
            key = '%s:align(%s,%s)' % (d.name, re.sub(r'^\w+->', '', T), re.sub(r'^\w+->', '', A))
            r.inst(key, sample='%s rounds %s up to a multiple of %s' % (d.name, T, A))
            for msg in align_problems(run, T, A):
                r.violate(key, BUFFER_C, d.line, "%s: the block that aligns %s to %s is not a round-up: %s; native-mode struct formats with padding ('T{b:a:i:b:}') are laid out differently "
                          "from the C struct and are refused or mis-read" % (d.name, T, A, msg))
    run = P.parse_body("{ m = off % al; if (m > 0) off += m; }")
    r.positive_control(bool(align_problems(run, 'off', 'al')), 'offset += remainder instead of alignment - remainder')
    return r


# ---------------------------------------------------------------------------------------------------------------- C17-ACCESS
class PyGiveUp(Exception):
    pass


def _py_test(t, env):
    """truth of a test built from ==, !=, in, not in, and/or/not over names bound in env and string / tuple constants"""
    if isinstance(t, _ast.BoolOp):
        vals = [_py_test(v, env) for v in t.values]
        return all(vals) if isinstance(t.op, _ast.And) else any(vals)
    if isinstance(t, _ast.UnaryOp) and isinstance(t.op, _ast.Not):
        return not _py_test(t.operand, env)
    if isinstance(t, _ast.Compare) and len(t.ops) == 1:
        a, b = _py_value(t.left, env), _py_value(t.comparators[0], env)
        op = t.ops[0]
        if isinstance(op, _ast.Eq):
            return a == b
        if isinstance(op, _ast.NotEq):
            return a != b
        if isinstance(op, _ast.In):
            return a in b
        if isinstance(op, _ast.NotIn):
            return a not in b
    raise PyGiveUp('test %s' % _ast.unparse(t))


def _py_value(n, env):
    if isinstance(n, _ast.Constant):
        return n.value
    if isinstance(n, _ast.Name) and n.id in env:
        return env[n.id]
    if isinstance(n, (_ast.Tuple, _ast.List)):
        return tuple(_py_value(e, env) for e in n.elts)
    raise PyGiveUp('value %s' % _ast.unparse(n))


def _py_select(stmts, env):
    """follow an if/elif/else chain (asserts are checked, other statements collected) -> (list of statements executed, return value or None)"""
    done = []
    for s in stmts:
        if isinstance(s, _ast.If):
            br = s.body if _py_test(s.test, env) else s.orelse
            sub, ret = _py_select(br, env)
            done.extend(sub)
            if ret is not None:
                return done, ret
        elif isinstance(s, _ast.Assert):
            if not _py_test(s.test, env):
                raise PyGiveUp('assertion fails for %s' % env)
        elif isinstance(s, _ast.Return):
            return done, _py_value(s.value, env)
        elif isinstance(s, _ast.Expr) and isinstance(s.value, _ast.Constant):
            continue
        else:
            done.append(s)
    return done, None


def access_kinds(mv_tree, helper_bodies):
    """-> {access word: {packing word: 'plain' | 'deref' | 'runtime'}} : what the generated element lookup does with a dimension declared (access, packing)"""
    from ..engine import tables as _t
    fn = _t.find_function(mv_tree, 'get_memoryview_flag')
    if fn is None:
        raise AnalysisError('MemoryView.get_memoryview_flag vanished')
    params = [a.arg for a in fn.args.args]
    if len(params) != 2:
        raise AnalysisError('get_memoryview_flag: two parameters expected')
    words = {p: set() for p in params}
    for c in _ast.walk(fn):
        if isinstance(c, _ast.Compare) and isinstance(c.left, _ast.Name) and c.left.id in words:
            for x in _ast.walk(c.comparators[0]):
                if isinstance(x, _ast.Constant) and isinstance(x.value, str):
                    words[c.left.id].add(x.value)
        if isinstance(c, _ast.Compare) and isinstance(c.left, _ast.Tuple) and isinstance(c.comparators[0], _ast.Tuple):
            for l, rgt in zip(c.left.elts, c.comparators[0].elts):
                if isinstance(l, _ast.Name) and l.id in words and isinstance(rgt, _ast.Constant):
                    words[l.id].add(rgt.value)
    gen = None
    for n in _ast.walk(mv_tree):
        if isinstance(n, _ast.FunctionDef) and any(isinstance(c, _ast.Call) and isinstance(c.func, _ast.Name) and c.func.id == 'get_memoryview_flag' for c in _ast.walk(n)) \
                and any(isinstance(c, _ast.Constant) and isinstance(c.value, str) and '(char **)' in c.value for c in _ast.walk(n)):
            gen = n
    if gen is None:
        raise AnalysisError('the memoryview element-lookup generator (caller of get_memoryview_flag that emits pointer dereferences) was not found')
    flagvar = None
    for n in _ast.walk(gen):
        if isinstance(n, _ast.Assign) and isinstance(n.value, _ast.Call) and isinstance(n.value.func, _ast.Name) and n.value.func.id == 'get_memoryview_flag' and isinstance(n.targets[0], _ast.Name):
            flagvar = n.targets[0].id
            loop_body = None
    chain = None
    for n in _ast.walk(gen):
        if isinstance(n, _ast.For) and any(isinstance(x, _ast.Assign) and isinstance(x.value, _ast.Call) and getattr(x.value.func, 'id', None) == 'get_memoryview_flag' for x in n.body):
            chain = [s for s in n.body if isinstance(s, _ast.If) and any(isinstance(x, _ast.Name) and x.id == flagvar for x in _ast.walk(s.test))]
    if not flagvar or not chain:
        raise AnalysisError('%s: the branch on the memoryview flag was not found' % gen.name)
    out = {}
    for a in sorted(words[params[0]]):
        for p in sorted(words[params[1]]):
            try:
                _d, flag = _py_select(fn.body, {params[0]: a, params[1]: p})
                done, _r = _py_select(chain, {flagvar: flag})
            except PyGiveUp as e:
                raise AnalysisError('memoryview lookup generation for (%s, %s): %s' % (a, p, e))
            texts = [c.value for s in done for c in _ast.walk(s) if isinstance(c, _ast.Constant) and isinstance(c.value, str)]
            kind = 'plain'
            if any('(char **)' in t for t in texts):
                kind = 'deref'
            for t in texts:
                for h, hb in helper_bodies.items():
                    if h in t:
                        if re.search(r'if\s*\(\s*\w*suboffset\w*\s*>=\s*0\s*\)', hb) and '(char **)' in hb:
                            kind = 'runtime'
                        elif '(char **)' in hb:
                            kind = 'deref'
            out.setdefault(a, {})[p] = kind
    return out, gen


def rule_access(ctx, func):
    r = Rule('C17-ACCESS', 'for every access mode of a memoryview axis (direct / ptr / full) the macro the compiler passes to the validator admits exactly the buffers the generated '
             'element lookup can index: plain data for a lookup that never dereferences, indirect (suboffset >= 0) for one that always does, both for one that decides at run time; run-time decided dereferences happen exactly for suboffset >= 0', floor=5)
    from ..engine import tables as _t
    tree = ctx.parse('Cython/Compiler/MemoryView.py')
    d = _t.module_assign(tree, '_spec_to_const')
    if not isinstance(d, _ast.Dict):
        raise AnalysisError('MemoryView._spec_to_const is not a dict literal')
    word2macro = {}
    for k, v in zip(d.keys, d.values):
        if isinstance(v, _ast.Name):
            v = _t.module_assign(tree, v.id)
        if isinstance(k, _ast.Constant) and isinstance(v, _ast.Constant):
            word2macro[k.value] = v.value
    macros = _macro_values(ctx, r'__Pyx_MEMVIEW_\w+')
    rows = suboffset_table(func(ctx, '__pyx_check_suboffsets'), macros)
    helpers = {dd.name: dd.body for v in ctx.cat.decls.values() for dd in v if dd.kind == 'func' and dd.body and dd.file == 'MemoryView_C.c' and dd.section.name == 'MemviewSliceIndex'}
    kinds, gen = access_kinds(tree, helpers)
    # validator semantics of a macro: the table is keyed by the macro suffix
    admits = {}
    for (acc, packing, sub), ok in rows.items():
        a = admits.setdefault('__Pyx_MEMVIEW_' + acc, {'plain': False, 'indirect': False})
        if ok:
            a['indirect' if (sub != 'NULL' and sub >= 0) else 'plain'] = True
    for word, by_packing in sorted(kinds.items()):
        r.inst('access:%s' % word, sample='axis access %r: lookup %s, macro %s' % (word, '/'.join(sorted(set(by_packing.values()))), word2macro.get(word)))
    for key, msg in access_problems(kinds, word2macro, admits):
        r.violate(key, 'Cython/Compiler/MemoryView.py', gen.lineno if key.startswith('MemoryView.%s' % gen.name) else getattr(d, 'lineno', 0), msg)
    # run-time decided dereference: `if (suboffset >= 0) p = *((char **) p) + suboffset` -- PEP 3118 says exactly the non-negative suboffsets are dereferenced
    guards = []
    for name, hb in sorted(helpers.items()):
        for m in re.finditer(r'if\s*\(([^(){};]*)\)\s*\{?[^{};]*\*\s*\(\s*\(\s*char\s*\*\*\s*\)', hb):
            guards.append(('MemoryView_C.c:%s' % name, m.group(1), MVC_C, 0))
    btree = ctx.parse('Cython/Compiler/Buffer.py')
    for n in _ast.walk(btree):
        if isinstance(n, _ast.Constant) and isinstance(n.value, str):
            for m in re.finditer(r'if\s*\(([^(){};]*)\)\s*\w+\s*=\s*\*\s*\(\s*\(\s*char\s*\*\*\s*\)', n.value):
                guards.append(('Buffer.py:full-lookup', m.group(1), 'Cython/Compiler/Buffer.py', n.lineno))
    for key, cond, rel, line in guards:
        c = re.sub(r'%d', '', cond)
        ids = set(re.findall(r'[A-Za-z_]\w*', c))
        r.inst('%s:deref-guard' % key, sample='%s dereferences under `%s`' % (key, cond))
        if len(ids) != 1:
            r.info('%s: dereference guard `%s` not over a single variable: not decided' % (key, cond))
            continue
        v = next(iter(ids))
        try:
            got = [bool(cexpr.evaluate(cexpr.parse(c), {v: x})) for x in (-2, -1, 0, 1, 2)]
        except (cexpr.ParseError, cexpr.EvalError):
            r.info('%s: dereference guard `%s` not evaluable' % (key, cond))
            continue
        if got != [False, False, True, True, True]:
            r.violate('%s:deref-guard' % key, rel, line, "%s dereferences the indirect dimension under `%s`, i.e. for suboffsets %s; PEP 3118: a dimension is indirect exactly when its suboffset is >= 0 "
                      "(a suboffset of 0 is the common case): pointer tables are read as data or data as pointers" % (key, cond, [x for x, g in zip((-2, -1, 0, 1, 2), got) if g]))
    if len(guards) < 2:
        raise AnalysisError('run-time dereference guards (index helper, legacy full lookup) not found')
    if len(kinds) < 3:
        raise AnalysisError('fewer than three access modes found (%s)' % sorted(kinds))
    pk = {'direct': {'contig': 'plain'}, 'ptr': {'contig': 'deref'}, 'full': {'contig': 'runtime'}}
    pa = {'D': {'plain': True, 'indirect': False}, 'P': {'plain': False, 'indirect': True}, 'F': {'plain': True, 'indirect': True}}
    r.positive_control([k for k, _ in access_problems(pk, {'direct': 'P', 'ptr': 'D', 'full': 'F'}, pa)] == ['MemoryView.access:direct', 'MemoryView.access:ptr']
                       and not access_problems(pk, {'direct': 'D', 'ptr': 'P', 'full': 'F'}, pa), 'direct and ptr mapped to each other\'s macro')
    return r


def access_problems(kinds, word2macro, admits):
    out = []
    for word, by_packing in sorted(kinds.items()):
        ks = set(by_packing.values())
        macro = word2macro.get(word)
        if macro not in admits:
            out.append(('MemoryView._spec_to_const:%s' % word, "access mode %r maps to %r, which __pyx_check_suboffsets does not test for" % (word, macro)))
            continue
        if len(ks) != 1:
            out.append(('MemoryView.lookup:%s' % word, 'the lookup generated for access mode %r differs with the packing (%s)' % (word, by_packing)))
            continue
        kind = next(iter(ks))
        a = admits[macro]
        want = {'plain': (True, False), 'deref': (False, True), 'runtime': (True, True)}[kind]
        if (a['plain'], a['indirect']) != want:
            out.append(('MemoryView.access:%s' % word,
                        "an axis declared %r is validated with %s, under which __pyx_check_suboffsets admits %s; but the element lookup generated for it %s: %s" % (
                            word, macro, (' and '.join(k for k in ('plain', 'indirect') if a[k]) + ' dimensions') if (a['plain'] or a['indirect']) else 'nothing',
                            {'plain': 'never dereferences', 'deref': 'always dereferences a pointer', 'runtime': 'dereferences when suboffset >= 0'}[kind],
                            'ordinary (numpy) arrays are refused for plain views, or pointer tables are read as element data')))
    return out


# ---------------------------------------------------------------------------------------------------------------- C17-REQ
def pybuf_values():
    """PyBUF_* request flags from the CPython header of the running interpreter (reference table)"""
    import os
    from ..engine import tables as _t
    inc = _t.cpython_include()
    text = None
    for cand in ('pybuffer.h', 'cpython/object.h', 'object.h'):
        p = os.path.join(inc, cand)
        if os.path.exists(p) and 'PyBUF_FORMAT' in open(p).read():
            text = open(p).read()
            break
    if text is None:
        raise AnalysisError('PyBUF_* definitions not found in the CPython headers at %s' % inc)
    raw = dict(re.findall(r'#\s*define\s+(PyBUF_\w+)\s+(.+)', text))
    vals = {}

    def ev(name, depth=0):
        if name in vals:
            return vals[name]
        if depth > 6 or name not in raw:
            raise AnalysisError('PyBUF flag %s not defined' % name)
        expr = re.sub(r'/\*.*?\*/', '', raw[name]).strip()
        e = cexpr.parse(expr)
        env = {x[1]: ev(x[1], depth + 1) for x in cexpr.walk(e) if x[0] == 'id'}
        vals[name] = cexpr.evaluate(e, env)
        return vals[name]
    for n in raw:
        try:
            ev(n)
        except (cexpr.ParseError, cexpr.EvalError):
            pass
    return vals


def _flag_bits(text, vals):
    bits = 0
    for f in re.findall(r'PyBUF_\w+', text):
        if f not in vals:
            raise AnalysisError('request flag %s is not a CPython PyBUF flag' % f)
        bits |= vals[f]
    return bits


def legacy_requests(buf_tree):
    """mode -> concatenated request text of Buffer.get_flags (if-chain or dict form)"""
    from ..engine import tables as _t
    fn = _t.find_function(buf_tree, 'get_flags')
    if fn is None:
        raise AnalysisError('Buffer.get_flags vanished')
    base = ''
    out = {}
    for n in fn.body:
        if isinstance(n, _ast.Assign) and isinstance(n.value, _ast.Constant) and isinstance(n.value.value, str) and 'PyBUF' in n.value.value:
            base += ' ' + n.value.value
    for n in _ast.walk(fn):
        if isinstance(n, _ast.If) and isinstance(n.test, _ast.Compare) and isinstance(n.test.ops[0], _ast.Eq) and isinstance(n.test.comparators[0], _ast.Constant) \
                and isinstance(n.test.comparators[0].value, str) and isinstance(n.test.left, _ast.Name):
            txt = ' '.join(c.value for s in n.body for c in _ast.walk(s) if isinstance(c, _ast.Constant) and isinstance(c.value, str))
            if 'PyBUF' in txt:
                out[n.test.comparators[0].value] = base + ' ' + txt
        if isinstance(n, _ast.Dict) and all(isinstance(k, _ast.Constant) for k in n.keys):
            for k, v in zip(n.keys, n.values):
                txt = ' '.join(c.value for c in _ast.walk(v) if isinstance(c, _ast.Constant) and isinstance(c.value, str))
                if 'PyBUF' in txt:
                    out[k.value] = base + ' ' + txt
    return fn, out


def rule_req(ctx):
    r = Rule('C17-REQ', 'every buffer request made by an acquisition asks the exporter for what the acquisition then reads: PyBUF_FORMAT (the format is parsed), strides (copied per dimension), '
             'suboffsets for indirect access; flag composition taken from the CPython headers', floor=11)
    vals = pybuf_values()
    F, S, I = vals['PyBUF_FORMAT'], vals['PyBUF_STRIDES'], vals['PyBUF_INDIRECT']
    from ..engine import tables as _t
    btree = ctx.parse('Cython/Compiler/Buffer.py')
    fn, reqs = legacy_requests(btree)
    if len(reqs) < 4:
        raise AnalysisError('Buffer.get_flags: fewer than four modes found (%s)' % sorted(reqs))
    # which modes read suboffsets (put_unpack_buffer_aux_into_scope / lookup)
    sub_modes = set()
    for n in _ast.walk(btree):
        if isinstance(n, _ast.If) and isinstance(n.test, _ast.Compare) and isinstance(n.test.comparators[0], _ast.Constant) and isinstance(n.test.ops[0], _ast.Eq) \
                and any(isinstance(c, _ast.Constant) and c.value == 'suboffsets' for s in n.body for c in _ast.walk(s)):
            sub_modes.add(n.test.comparators[0].value)
    for mode, txt in sorted(reqs.items()):
        bits = _flag_bits(txt, vals)
        for what, need, why in (('format', F, 'buf->format is parsed by __Pyx_BufFmt_CheckString, and is NULL unless PyBUF_FORMAT was requested'),
                                ('strides', S, 'strides[] and shape[] are copied for every dimension'),
                                ('suboffsets', I if mode in sub_modes else 0, 'suboffsets[] are copied for every dimension')):
            if not need:
                continue
            r.inst('Buffer.get_flags:%s:%s' % (mode, what), sample='mode %r requests %s' % (mode, ' '.join(txt.split())))
            if bits & need != need:
                r.violate('Buffer.get_flags:%s:%s' % (mode, what), 'Cython/Compiler/Buffer.py', fn.lineno,
                          "a buffer declared mode=%r is requested with `%s`, which lacks %s although %s: NULL pointer read / the format is never checked" % (mode, ' '.join(txt.split()), what, why))
    mtree = ctx.parse('Cython/Compiler/MemoryView.py')
    gfn = _t.find_function(mtree, 'get_buf_flags')
    if gfn is None:
        raise AnalysisError('MemoryView.get_buf_flags vanished')
    k = 0
    for n in _ast.walk(gfn):
        if not isinstance(n, _ast.Return) or n.value is None:
            continue
        v = n.value
        name = v.id if isinstance(v, _ast.Name) else None
        if name:
            v = _t.module_assign(mtree, name)
        txt = ' '.join(c.value for c in _ast.walk(v) if isinstance(c, _ast.Constant) and isinstance(c.value, str)) if v is not None else ''
        if 'PyBUF' not in txt:
            raise AnalysisError('MemoryView.get_buf_flags returns something that is not a PyBUF request (%s)' % (name,))
        bits = _flag_bits(txt, vals)
        k += 1
        r.inst('MemoryView.get_buf_flags:%s:format' % name, sample='%s = %s' % (name, txt))
        if bits & F != F:
            r.violate('MemoryView.get_buf_flags:%s:format' % name, 'Cython/Compiler/MemoryView.py', n.lineno,
                      "memoryview acquisitions request `%s`, which lacks PyBUF_FORMAT: buf->format is NULL and __Pyx_BufFmt_CheckString dereferences it / no dtype check happens" % txt)
    # indirect access needs PyBUF_INDIRECT: the return taken when an axis is 'full' / 'ptr'
    for n in _ast.walk(gfn):
        if isinstance(n, _ast.If) and any(isinstance(c, _ast.Constant) and c.value in ('ptr', 'full') for c in _ast.walk(n.test)):
            for s in n.body:
                if isinstance(s, _ast.Return):
                    v = _t.module_assign(mtree, s.value.id) if isinstance(s.value, _ast.Name) else s.value
                    txt = ' '.join(c.value for c in _ast.walk(v) if isinstance(c, _ast.Constant) and isinstance(c.value, str))
                    r.inst('MemoryView.get_buf_flags:indirect', sample='indirect axes request %s' % txt)
                    if _flag_bits(txt, vals) & I != I:
                        r.violate('MemoryView.get_buf_flags:indirect', 'Cython/Compiler/MemoryView.py', s.lineno,
                                  "a view with an indirect ('ptr' / 'full') axis requests `%s`, which lacks PyBUF_INDIRECT: exporters with suboffsets refuse or hand out no suboffsets" % txt)
    if k < 3:
        raise AnalysisError('MemoryView.get_buf_flags: fewer than three request constants found')
    r.positive_control(_flag_bits('PyBUF_STRIDED_RO', vals) & F == 0 and _flag_bits('PyBUF_RECORDS_RO', vals) & F == F, 'PyBUF_STRIDED_RO lacks the format, PyBUF_RECORDS_RO has it')
    return r


# ---------------------------------------------------------------------------------------------------------------- C17-POOL
def pool_findings(check_body):
    """The scanner pools a format item with the pending chunk instead of opening a new one.  Whatever the new-chunk code records about an item (every context field it assigns from
    the item, except the count) must be compared by the pooling condition with the same source, or two different items are processed as one chunk."""
    stmts = P.parse_body(check_body)
    sw = None
    for s in P.walk(stmts):
        if s.kind == 'switch' and re.fullmatch(r'\*\s*(\w+)', s.text):
            sw = s
            break
    if sw is None:
        raise AnalysisError('no switch over the format cursor')
    arms = P.switch_arms(sw)
    out = []
    n = 0
    for a in arms:
        for s in a.body:
            if s.kind != 'if' or s.orelse is not None or not P.terminates(P.as_list(s.body)):
                continue
            # the new-chunk code: the statements executed when the condition is false, up to the end of the fall-through chain;
            # it starts by flushing the pending chunk (a call that is handed the context) and then records the item
            rest = [x for link in P.chain(arms, a.index) for x in link.body]
            rest = rest[rest.index(s) + 1:]
            ctxv, flushed = None, False
            recorded = {}
            for x in rest:
                if x.kind == 'if' and re.search(r'\w+\s*\(\s*(\w+)\s*\)', x.text) and not flushed:
                    ctxv = re.search(r'\w+\s*\(\s*(\w+)\s*\)', x.text).group(1)
                    flushed = True
                    continue
                if x.kind != 'simple' or not flushed:
                    continue
                mm = re.match(r'%s\s*->\s*(\w+)\s*=\s*(.+)$' % re.escape(ctxv), x.text)
                if mm and not re.fullmatch(r'\d+', mm.group(2).strip()):
                    recorded[mm.group(1)] = re.sub(r'\s+', '', mm.group(2))
            if not recorded or not any(re.search(r'%s\s*->\s*%s\b' % (re.escape(ctxv), re.escape(f)), s.text) for f in recorded):
                continue
            # the count is accumulated, not compared: the field the pooling branch adds to
            inner = ' '.join(x.text for x in P.walk(P.as_list(s.body)) if x.kind == 'simple')
            for f in list(recorded):
                if re.search(r'%s\s*->\s*%s\s*\+=' % (re.escape(ctxv), re.escape(f)), inner):
                    del recorded[f]
            cond = re.sub(r'\s+', '', s.text)
            for f, src in sorted(recorded.items()):
                n += 1
                a1 = '%s->%s==%s' % (ctxv, f, src)
                a2 = '%s==%s->%s' % (src, ctxv, f)
                if a1 not in cond and a2 not in cond:
                    out.append((f, "the scanner pools a format item with the pending chunk under `%s`, but a new chunk records %s->%s = %s and the condition does not require them to be equal: "
                                   "items that differ in %s (e.g. 'd' and 'Zd', or 'i' before and after a '=' prefix) are counted as one chunk and compared with the wrong size / group" % (s.text, ctxv, f, src, f)))
    return n, out


def rule_pool(ctx, func):
    r = Rule('C17-POOL', 'the pooling condition of the format scanner compares every attribute a new chunk records about an item (type character, complex flag, pack mode)', floor=2)
    cs = func(ctx, '__Pyx_BufFmt_CheckString')
    n, bad = pool_findings(cs.body)
    if n == 0:
        raise AnalysisError('__Pyx_BufFmt_CheckString: pooling condition / new-chunk assignments not found')
    for i in range(n):
        r.inst('__Pyx_BufFmt_CheckString:pool#%d' % i, sample='pooling condition covers a recorded attribute')
    for f, msg in bad:
        r.violate('__Pyx_BufFmt_CheckString:pool:%s' % f, BUFFER_C, cs.line, msg)
    pn, pbad = pool_findings("{ while (1) { switch (*p) { case 'a': case 'b': if (c->t == *p && !c->arr) { c->n += c->m; ++p; break; } "
                             "CYTHON_FALLTHROUGH; case 's': if (flush(c) == -1) return 0; c->n = c->m; c->mode = c->newmode; c->t = *p; ++p; break; default: return 0; } } }")
    r.positive_control(pn == 2 and [f for f, _ in pbad] == ['mode'], 'pooling without comparing the pack mode')
    return r


# ---------------------------------------------------------------------------------------------------------------- C17-CMPTAB / C17-CMPDIM (round 5)
# __pyx_typeinfo_cmp(a, b) == 1 lets a Cython memoryview object be re-acquired as dtype `a` WITHOUT the format check.  It is the second place that
# knows the "chars don't care about sign" exemption of __Pyx_BufFmt_ProcessTypeChunk, and the same obligations hold: the whole function is explored
# (checker's own path explorer, members of the two descriptors bound by role) for every point of
#     (type group of a) x (type group of b) x (size of a equal / larger / smaller) x (signedness of plain char on the platform) x dimensionality
# and the verdict is compared with: equal  <=>  same size, same array dimensionality, and same type group or a char on either side.
def _cmp_members(params, stmts, what):
    ids = set()
    for s in P.walk(stmts):
        ids |= {re.sub(r'\s+', '', m.group(0)) for m in re.finditer(r'\b(?:%s)\s*->\s*\w+' % '|'.join(map(re.escape, params)), s.text)}
    return ids


def cmp_table(body, params, letters, dims, char_letter='H', unsigned_letter='U', struct_letter='S'):
    """-> rows {(Ta, Tb, size relation, char signedness, dims): verdict}; verdict: 1 / 0 / 'arrays' (the verdict is left to the comparison of the array extents)"""
    what = '__pyx_typeinfo_cmp'
    a, b = params
    stmts = P.parse_body(body)
    members = _cmp_members(params, stmts, what)
    known = {'size', 'typegroup', 'is_unsigned', 'ndim', 'flags', 'fields', 'arraysize'}
    for m in sorted(members):
        if m.split('->')[1] not in known:
            raise AnalysisError('%s reads %s, which the decision table does not model' % (what, m))
    rows = {}
    for Ta in letters:
        for Tb in letters:
            for rel in (True, 'larger', 'smaller'):
                for char_unsigned in ((0, 1) if char_letter in (Ta, Tb) else (0,)):
                    for dim in dims:
                        st = P.PState()
                        st.env[a], st.env[b] = ('const', 1), ('const', 2)          # two distinct non-NULL descriptors
                        na, nb = {'scalar': (0, 0), 'a-array': (1, 0), 'b-array': (0, 1), 'arrays': (1, 1)}[dim]
                        for p, T, size, nd in ((a, Ta, {True: 4, 'larger': 8, 'smaller': 2}[rel], na), (b, Tb, 4, nb)):
                            st.env['%s->size' % p] = ('const', size)
                            st.env['%s->typegroup' % p] = ('const', ord(T))
                            st.env['%s->is_unsigned' % p] = ('const', 1 if T == unsigned_letter else char_unsigned if T == char_letter else 0)
                            st.env['%s->ndim' % p] = ('const', nd)
                            st.env['%s->flags' % p] = ('const', 0)
                            st.env['%s->fields' % p] = ('const', 0)                  # leaf descriptors; struct members are walked by C17-CMP
                        ex = P.Explorer(stmts, consts={'NULL': 0})
                        try:
                            res = ex.function(st)
                        except P.Unmodelled as e:
                            raise AnalysisError('%s: %s' % (what, e))
                        verdicts = set()
                        for s1, exit_ in res:
                            facts = [t for t, _, _ in s1.facts if not t.startswith('switch(')]
                            if any('arraysize' in t for t in facts) and all('arraysize' in t for t in facts):
                                verdicts.add('arrays')
                                continue
                            if exit_[0] != 'return':
                                raise AnalysisError('%s: a path ends without a return' % what)
                            try:
                                v = ex.const_of(P._parse(exit_[1]), s1)
                            except cexpr.ParseError:
                                v = None
                            if v is None or facts:
                                if dim == 'arrays':
                                    continue        # the zero-iteration abstraction of the extent loop
                                raise AnalysisError('%s: for groups %s / %s the verdict `return %s` depends on %s, not decidable from the modelled members'
                                                    % (what, Ta, Tb, exit_[1], ', '.join(facts[:2]) or 'its operands'))
                            verdicts.add(1 if v else 0)
                        if 'arrays' in verdicts:
                            verdicts = {'arrays'}
                        if len(verdicts) != 1:
                            raise AnalysisError('%s: verdict not deterministic for groups %s / %s (%s)' % (what, Ta, Tb, sorted(map(str, verdicts))))
                        rows[(Ta, Tb, rel, char_unsigned, dim)] = verdicts.pop()
    return rows


def cmp_table_problems(rows, char_letter='H'):
    out = {}
    for (Ta, Tb, rel, cu, dim), v in sorted(rows.items(), key=lambda kv: tuple(map(str, kv[0]))):
        scalars_equal = rel is True and (Ta == Tb or char_letter in (Ta, Tb))
        pair = "'%s' and '%s'" % (Ta, Tb)
        if dim == 'scalar':
            # (a verdict of 0 is always safe: the format check then runs -- only unjustified verdicts of 1 are findings)
            if not scalars_equal and v != 0:
                kind = 'size' if (Ta == Tb or char_letter in (Ta, Tb)) else 'group' if rel is True else 'both'
                out.setdefault('mismatch-equal:%s' % kind,
                               'descriptors of type groups %s%s compare EQUAL: a Cython memoryview of one dtype is accepted as the other without any format check and its bytes are re-interpreted'
                               % (pair, '' if rel is True else ' and different sizes'))
        elif dim in ('a-array', 'b-array'):
            if v != 0:
                out.setdefault('dimension-ignored', 'an array member and a scalar member (type groups %s, same item size) compare EQUAL: `char c[2]` is taken for `char c`; a struct view is accepted as '
                               'another struct dtype without any format check' % pair)
        else:
            if scalars_equal and v not in (0, 'arrays'):      # a verdict of 0 is always safe here too (the format check then runs)
                out.setdefault('extents-skipped', 'for two array members of type groups %s the verdict (%s) is reached without comparing the array extents: `char c[2]` equals `unsigned char c[3]`' % (pair, v))
            if not scalars_equal and v not in (0, 'arrays'):
                out.setdefault('mismatch-equal:arrays', 'array members of type groups %s with different item descriptors compare EQUAL' % pair)
    return sorted(out.items())


_CMP_PC = ("{ if (!a || !b) return 0; if (a == b) return 1; if (a->typegroup == 'H' || b->typegroup == 'H') return 1; "
           "if (a->size != b->size || a->typegroup != b->typegroup || a->is_unsigned != b->is_unsigned || a->ndim != b->ndim) return 0; "
           "if (a->ndim) { for (i = 0; i < a->ndim; i++) if (a->arraysize[i] != b->arraysize[i]) return 0; } return 1; }")


def _rule_cmptab(ctx, func, produced, rid, dims, floor, desc):
    r = Rule(rid, desc, floor=floor)
    d = func(ctx, '__pyx_typeinfo_cmp')
    params = [n for n, t in zip(d.param_names(), d.param_types()) if '__Pyx_TypeInfo' in t]
    if len(params) != 2:
        raise AnalysisError('__pyx_typeinfo_cmp: expected two __Pyx_TypeInfo parameters')
    letters = sorted(produced)
    # a comparison delegated to a pure helper that is handed both descriptors (`static int same(x, y) { return <expr>; }`) is read in the helper
    body = d.body
    for m in list(re.finditer(r'\b(\w+)\s*\(\s*(%s|%s)\s*,\s*(%s|%s)\s*\)' % (params[0], params[1], params[0], params[1]), d.body)):
        if m.group(1) == d.name or m.group(2) == m.group(3):
            continue
        for h in ctx.cat.decls.get(m.group(1), []):
            hp = [n for n, t in zip(h.param_names(), h.param_types()) if '__Pyx_TypeInfo' in t] if h.kind == 'func' and h.body else []
            one = re.fullmatch(r'\{\s*return\b([^;{}]+);\s*\}', h.body.strip()) if len(hp) == 2 else None
            if one:
                e = re.sub(r'\b%s\b' % re.escape(hp[0]), '\x00A', one.group(1))
                e = re.sub(r'\b%s\b' % re.escape(hp[1]), '\x00B', e)
                body = body.replace(m.group(0), '(%s)' % e.replace('\x00A', m.group(2)).replace('\x00B', m.group(3)).strip())
                break
    rows = cmp_table(body, params, letters, dims)
    for k, v in rows.items():
        r.inst('cmp:%s:%s:%s:%s:%s' % k, sample="a '%s' vs b '%s', size of a %s, plain char %s, %s -> %s" % (k[0], k[1], 'equal' if k[2] is True else k[2], 'unsigned' if k[3] else 'signed', k[4], v))
    for k, msg in cmp_table_problems(rows):
        r.violate('__pyx_typeinfo_cmp:table:%s' % k, BUFFER_C, d.line, '__pyx_typeinfo_cmp: ' + msg)
    pc = {k for k, _ in cmp_table_problems(cmp_table(_CMP_PC, ('a', 'b'), 'HIU', ('scalar', 'a-array', 'arrays')))}
    r.positive_control(pc >= {'mismatch-equal:size', 'dimension-ignored', 'extents-skipped'}, 'a char exemption that returns "equal" without looking at size, dimensionality or extents')
    return r


def rule_cmptab(ctx, func, produced):
    return _rule_cmptab(ctx, func, produced, 'C17-CMPTAB', ('scalar',), 100,
                        'decision table of the dtype-equality shortcut __pyx_typeinfo_cmp over (type group of a) x (type group of b) x (size equal / larger / smaller) x (signedness of plain char) '
                        'for scalar descriptors: equal exactly for the same size with the same type group or a char on either side (the exemption of the format checker, with its size test)')


def rule_cmpdim(ctx, func, produced):
    return _rule_cmptab(ctx, func, produced, 'C17-CMPDIM', ('a-array', 'b-array', 'arrays'), 300,
                        'the same decision table of __pyx_typeinfo_cmp for array members: an array never equals a scalar, and two arrays are only equal after their extents were compared '
                        '-- also under the char exemption')
