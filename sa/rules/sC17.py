"""C17-ORDER: the byte-order / size / alignment prefix characters of a PEP 3118 format string are decided as the struct module defines them.

The prefix arms of __Pyx_BufFmt_CheckString (`@ = < > !` and PEP 3118's `^`) are *decision code*: each arm either rejects the format
(`return NULL`) or stores a pack mode that __Pyx_BufFmt_ProcessTypeChunk later reads to choose native/standard sizes and alignment.
The rule executes each arm symbolically (the checker's own evaluator over the parsed C statements; conditions are evaluated with
engine/cexpr) for every point of the complete finite domain

        prefix character (6)  x  memory layout of the host (little, big)

where the value of __Pyx_Is_Little_Endian() for a layout is itself obtained by evaluating the type-punning probe in
ModuleSetupCode.c::IsLittleEndian under that layout.  The resulting decision table (accept / reject, stored mode -> size mode, alignment
mode as read back by ProcessTypeChunk) is compared with the table of the struct documentation ("Byte Order, Size, and Alignment") and
PEP 3118 (`^`).  A buffer whose format announces a byte order that is not the host's must be rejected (its elements would be read
byte-swapped), one in host order must be accepted, and explicit-order prefixes mean standard sizes without alignment.

Nothing is keyed to statement text or positions: arms are found by their case labels, the mode field by def-use (the field the `@` arm
stores the cursor character into; the field ProcessTypeChunk compares is linked through the copy assignments of CheckString)."""
import re

from ..core import Rule, AnalysisError
from ..engine import cexpr
from . import pC17 as P

BUFFER_C = 'Cython/Utility/Buffer.c'
SETUP_C = 'Cython/Utility/ModuleSetupCode.c'

# struct module documentation, section "Byte Order, Size, and Alignment" (+ PEP 3118 for '^'):
#   char : (byte order, size, alignment)
REFERENCE = {
    '@': ('native', 'native', 'native'),
    '=': ('native', 'standard', 'none'),
    '<': ('little', 'standard', 'none'),
    '>': ('big', 'standard', 'none'),
    '!': ('big', 'standard', 'none'),      # network byte order is big-endian (RFC 1700)
    '^': ('native', 'native', 'none'),     # PEP 3118: native data types, unaligned
}
LAYOUTS = ('little', 'big')


def _reference_selfcheck():
    """The frozen table must agree with the struct module of the running interpreter (reference cross-check, no repository code)."""
    import struct, sys
    for c, (order, size, _al) in REFERENCE.items():
        if c == '^':
            continue
        packed = struct.pack(c + 'H', 1)
        got = 'little' if packed == b'\x01\x00' else 'big'
        want = sys.byteorder if order == 'native' else order
        if got != want:
            raise AnalysisError('reference table for struct prefix %r disagrees with the struct module' % c)
        native = struct.calcsize('@l')
        if (struct.calcsize(c + 'l') == 4) != (size == 'standard') and native != 4:
            raise AnalysisError('reference size mode for struct prefix %r disagrees with the struct module' % c)


# ------------------------------------------------------------------------------------------------ the endianness probe
class Probe:
    """static int f(void) { union { uintN_t a; uint8_t b[K]; } S;  S.a = CONST;  return S.b[i] <op> v; }   ->  value under a layout."""

    def __init__(self, body):
        text = P.norm(body)
        um = re.search(r'\bunion\s*\{([^{}]*)\}\s*(\w+)\s*;', text)
        if not um:
            raise AnalysisError('__Pyx_Is_Little_Endian: no union probe found (cannot model the endianness test)')
        self.var = um.group(2)
        self.members = {}
        for decl in um.group(1).split(';'):
            decl = decl.strip()
            if not decl:
                continue
            m = re.fullmatch(r'(?:unsigned\s+char|uint(\d+)_t|char)\s+(\w+)(?:\s*\[\s*(\d+)\s*\])?', decl)
            if not m:
                raise AnalysisError('__Pyx_Is_Little_Endian: union member %r not modelled' % decl)
            bits = int(m.group(1)) if m.group(1) else 8
            self.members[m.group(2)] = (bits // 8, int(m.group(3)) if m.group(3) else None)
        rest = text[um.end():]
        sm = re.search(r'\b%s\s*\.\s*(\w+)\s*=\s*(0[xX][0-9a-fA-F]+|\d+)[uUlL]*\s*;' % re.escape(self.var), rest)
        rm = re.search(r'\breturn\b([^;]*);', rest)
        if not sm or not rm or sm.group(1) not in self.members:
            raise AnalysisError('__Pyx_Is_Little_Endian: store/return of the probe not found')
        self.store_member, self.value = sm.group(1), int(sm.group(2), 0)
        if self.members[self.store_member][1] is not None:
            raise AnalysisError('__Pyx_Is_Little_Endian: probe stores into an array member')
        try:
            self.ret = cexpr.parse(rm.group(1).strip())
        except cexpr.ParseError as e:
            raise AnalysisError('__Pyx_Is_Little_Endian: return expression not parsed: %s' % e)

    def evaluate(self, layout):
        width = self.members[self.store_member][0]
        raw = self.value.to_bytes(width, layout)       # the bytes of the stored scalar in memory

        def ev(e):
            if e[0] == 'bin' and e[1] == '[]' and e[2][0] == 'id' and e[2][1].startswith(self.var + '.'):
                mem = e[2][1].split('.', 1)[1]
                if mem not in self.members or self.members[mem][1] is None:
                    raise AnalysisError('__Pyx_Is_Little_Endian: subscript of non-array member %s' % mem)
                size, n = self.members[mem]
                i = ev(e[3])
                if not (0 <= i < n) or (i + 1) * size > len(raw):
                    raise AnalysisError('__Pyx_Is_Little_Endian: probe index out of the stored scalar')
                return int.from_bytes(raw[i * size:(i + 1) * size], layout)
            if e[0] == 'id' and e[1].startswith(self.var + '.'):
                mem = e[1].split('.', 1)[1]
                if mem not in self.members or self.members[mem][1] is not None:
                    raise AnalysisError('__Pyx_Is_Little_Endian: member %s not modelled' % mem)
                return int.from_bytes(raw[:self.members[mem][0]], layout)
            if e[0] in ('num', 'char'):
                return e[1]
            if e[0] == 'bin':
                return cexpr.evaluate(('bin', e[1], ('num', ev(e[2])), ('num', ev(e[3]))), {})
            if e[0] == 'un':
                return cexpr.evaluate(('un', e[1], ('num', ev(e[2]))), {})
            if e[0] == 'cast':
                return ev(e[2])
            if e[0] == 'tern':
                return ev(e[2]) if ev(e[1]) else ev(e[3])
            raise AnalysisError('__Pyx_Is_Little_Endian: expression node %s not modelled' % (e[0],))
        return int(bool(ev(self.ret)))


# ------------------------------------------------------------------------------------------------ symbolic execution of a prefix arm
class Undecidable(Exception):
    pass


def _subst_cursor(e, cursor, ch):
    """replace  *cursor  by the character value"""
    if not isinstance(e, tuple):
        return e
    if e[0] == 'un' and e[1] == '*' and e[2] == ('id', cursor):
        return ('num', ord(ch))
    return tuple([_subst_cursor(x, cursor, ch) for x in y] if isinstance(y, list) else _subst_cursor(y, cursor, ch) for y in e)


def _eval(text, cursor, ch, host_little, probe_name):
    t = re.sub(r'(\+\+|--)\s*$', '', text.strip())           # `*ts++` yields the old value
    t = re.sub(r'\b(%s)\s*(\+\+|--)' % re.escape(cursor), r'\1', t)
    if re.search(r'(\+\+|--)', t):
        raise Undecidable('pre-increment inside %r' % text)
    try:
        e = cexpr.parse(t)
    except cexpr.ParseError as ex:
        raise Undecidable('%r: %s' % (text, ex))
    e = _subst_cursor(e, cursor, ch)
    try:
        return cexpr.evaluate(e, {}, calls={probe_name: lambda: host_little})
    except cexpr.EvalError as ex:
        raise Undecidable('%r: %s' % (text, ex))


ASSIGN = re.compile(r'^(?P<lhs>\w+\s*(?:->|\.)\s*(?P<field>\w+))\s*=(?!=)\s*(?P<rhs>.+)$')
RETURN = re.compile(r'^return\b\s*(?P<e>.*)$')


class ArmRun:
    """Outcome of entering the switch at label `ch` on a host whose probe returns host_little."""

    def __init__(self, arms, arm, cursor, ch, host_little, probe_name):
        self.cursor, self.ch, self.h, self.probe = cursor, ch, host_little, probe_name
        self.stores = {}            # field -> character value stored
        self.outcome = None         # 'reject' | 'accept'
        for link in P.chain(arms, arm.index):
            if self._block(link.body):
                break
        if self.outcome is None:
            self.outcome = 'accept'

    def _block(self, stmts):
        """-> True when control left the arm"""
        for st in stmts:
            if st.kind == 'block':
                if self._block(st.body):
                    return True
            elif st.kind == 'if':
                v = _eval(st.text, self.cursor, self.ch, self.h, self.probe)
                branch = st.body if v else st.orelse
                if branch is not None and self._block(P.as_list(branch)):
                    return True
            elif st.kind == 'simple':
                t = st.text
                if not t or t.startswith('CYTHON_FALLTHROUGH'):
                    continue
                if t == 'break':
                    return True
                m = RETURN.match(t)
                if m:
                    e = P.strip_parens(m.group('e'))
                    if e in ('NULL', '0'):
                        self.outcome = 'reject'
                        return True
                    raise Undecidable('return %s inside a prefix arm' % e)
                if t.startswith('goto') or t == 'continue':
                    raise Undecidable('%s inside a prefix arm' % t)
                m = ASSIGN.match(t)
                if m:
                    try:
                        self.stores[m.group('field')] = chr(_eval(m.group('rhs'), self.cursor, self.ch, self.h, self.probe))
                    except (Undecidable, ValueError):
                        self.stores[m.group('field')] = None
            elif st.kind in ('pp', 'label'):
                continue
            else:
                raise Undecidable('%s statement inside a prefix arm' % st.kind)
        return False


class Reader:
    """How __Pyx_BufFmt_ProcessTypeChunk reads the pack mode: mode character -> (size mode, alignment mode)."""

    def __init__(self, body, fields):
        self.fields = fields
        self.size_if = self.align_if = None
        for st in P.walk(P.parse_body(body)):
            if st.kind != 'if' or not any(re.search(r'\b%s\b' % re.escape(f), st.text) for f in fields):
                continue
            tb = ' '.join(s.text for s in P.walk(P.as_list(st.body)))
            eb = ' '.join(s.text for s in P.walk(P.as_list(st.orelse))) if st.orelse is not None else ''
            if 'NativeSize' in tb and 'StandardSize' in eb:
                self.size_if = (st.text, True)
            elif 'StandardSize' in tb and 'NativeSize' in eb:
                self.size_if = (st.text, False)
            elif 'TypeCharToAlignment' in tb and self.align_if is None:
                self.align_if = (st.text, True)
        if self.size_if is None or self.align_if is None:
            raise AnalysisError('__Pyx_BufFmt_ProcessTypeChunk: the native/standard size choice or the alignment choice on the pack mode was not found')

    def _cond(self, text, mode):
        e = cexpr.parse(text)
        env = {}
        for x in cexpr.walk(e):
            if x[0] == 'id':
                if any(re.fullmatch(r'\w+(->|\.)%s' % re.escape(f), x[1]) for f in self.fields):
                    env[x[1]] = ord(mode)
        try:
            return bool(cexpr.evaluate(e, env))
        except cexpr.EvalError as ex:
            raise AnalysisError('__Pyx_BufFmt_ProcessTypeChunk: pack-mode condition %r not decidable from the mode alone: %s' % (text, ex))

    def modes(self, mode):
        s = self._cond(self.size_if[0], mode)
        a = self._cond(self.align_if[0], mode)
        return ('native' if s == self.size_if[1] else 'standard', 'native' if a else 'none')


def decision_table(check_body, chunk_body, probe_body, probe_name='__Pyx_Is_Little_Endian'):
    """-> (rows, mode field, reader)   rows: {(char, layout): (outcome, stored mode or None)}   or raises AnalysisError"""
    stmts = P.parse_body(check_body)
    sw = cursor = None
    for st in P.walk(stmts):
        if st.kind == 'switch':
            m = re.fullmatch(r'\*\s*(\w+)', st.text)
            if m:
                sw, cursor = st, m.group(1)
                break
    if sw is None:
        raise AnalysisError('__Pyx_BufFmt_CheckString: no switch over the format cursor')
    arms = P.switch_arms(sw)
    by_label = {}
    for a in arms:
        for lab in a.labels:
            by_label.setdefault(lab, a)
    probe = Probe(probe_body)
    host = {L: probe.evaluate(L) for L in LAYOUTS}
    runs = {}
    for c in REFERENCE:
        arm = by_label.get(c)
        for L in LAYOUTS:
            if arm is None:
                runs[(c, L)] = None
                continue
            try:
                runs[(c, L)] = ArmRun(arms, arm, cursor, c, host[L], probe_name)
            except Undecidable as ex:
                raise AnalysisError('__Pyx_BufFmt_CheckString: arm of prefix %r cannot be decided: %s' % (c, ex))
    # the mode field: what the accepting runs of the native prefixes store the cursor character into
    cands = None
    for (c, L), run in runs.items():
        if run is None or run.outcome != 'accept':
            continue
        fs = {f for f, v in run.stores.items() if v is not None}
        cands = fs if cands is None else (cands & fs)
    if not cands or len(cands) != 1:
        raise AnalysisError('__Pyx_BufFmt_CheckString: the pack-mode field stored by the prefix arms is not unique (%s)' % sorted(cands or ()))
    field = next(iter(cands))
    # fields that receive a copy of it (ctx->enc_packmode = ctx->new_packmode)
    linked = {field}
    for st in P.walk(stmts):
        if st.kind == 'simple':
            m = ASSIGN.match(st.text)
            if m and re.fullmatch(r'\w+\s*(?:->|\.)\s*%s' % re.escape(field), m.group('rhs').strip()):
                linked.add(m.group('field'))
    reader = Reader(chunk_body, linked)
    rows = {}
    for k, run in runs.items():
        rows[k] = None if run is None else (run.outcome, run.stores.get(field))
    return rows, field, reader, host


def problems(rows, reader, host):
    """-> [(construct suffix, message)]"""
    out = []
    if host['little'] == host['big']:
        out.append(('probe', '__Pyx_Is_Little_Endian() evaluates to %d on a little-endian AND on a big-endian memory layout: it does not detect the host byte order, '
                    'so explicit byte-order prefixes are accepted/rejected for the wrong hosts' % host['little']))
    elif not host['little']:
        out.append(('probe', '__Pyx_Is_Little_Endian() is 0 on a little-endian layout and 1 on a big-endian one (inverted probe): "<" formats are rejected and ">"/"!" '
                    'formats accepted on little-endian hosts, elements are read byte-swapped'))
    for c, (order, size, align) in REFERENCE.items():
        for L in LAYOUTS:
            row = rows[(c, L)]
            if row is None:
                out.append(('%s' % c, 'prefix %r has no arm in the format scanner: a %s-order format "%si" is refused although struct/PEP 3118 define it' % (c, order, c)))
                break
            outcome, mode = row
            want = 'accept' if order in ('native', L) else 'reject'
            if outcome != want:
                if want == 'reject':
                    msg = ('prefix %r means %s-endian data (struct module) but is ACCEPTED on a %s-endian host: e.g. format "%si" is acquired by an int[:] view and every '
                           'element reads byte-swapped instead of raising ValueError' % (c, order, L, c))
                else:
                    msg = 'prefix %r means %s byte order but is REJECTED on a %s-endian host: a compatible buffer with format "%si" cannot be acquired' % (c, order, L, c)
                out.append(('%s:%s-host' % (c, L), msg))
                continue
            if outcome != 'accept':
                continue
            if mode is None:
                out.append(('%s:mode' % c, 'prefix %r is accepted without storing a decidable pack mode' % c))
                continue
            got = reader.modes(mode)
            if got != (size, align):
                out.append(('%s:mode' % c, 'prefix %r stores pack mode %r which __Pyx_BufFmt_ProcessTypeChunk reads as %s sizes / %s alignment; struct defines %s sizes / %s alignment '
                            '(e.g. "%sl" has %s bytes per item): formats with a different item layout are accepted' % (
                                c, mode, got[0], got[1], size, align, c, '4' if size == 'standard' else 'sizeof(long)')))
                break
    return out


POSITIVE_CHECK = """{
  while (1) { switch (*p) {
    case 0: return p;
    case 'x': ctx->cur = ctx->mode; ++p; break;
    case '<': case '>': case '!':
      if ((*p == '>') == is_le()) { return NULL; }
      ctx->mode = '='; ++p; break;
    case '=': case '@': case '^':
      ctx->mode = *p++; break;
    default: return NULL;
  } }
}"""
POSITIVE_CHUNK = """{
  if (ctx->cur == '@' || ctx->cur == '^') { size = TypeCharToNativeSize(t); } else { size = TypeCharToStandardSize(t); }
  if (ctx->cur == '@') { a = TypeCharToAlignment(t); }
}"""
POSITIVE_PROBE = "{ union { uint32_t u32; uint8_t u8[4]; } S; S.u32 = 0x01020304; return S.u8[0] == 4; }"


def rule_order(ctx, func):
    r = Rule('C17-ORDER', 'byte-order/size/alignment prefixes of a buffer format (@ = < > ! ^) are accepted, rejected and read back exactly as the struct module / PEP 3118 '
             'define them, for both host byte orders (decision table of the prefix arms of the format scanner x the endianness probe)', floor=12)
    _reference_selfcheck()
    cs = func(ctx, '__Pyx_BufFmt_CheckString')
    pc = func(ctx, '__Pyx_BufFmt_ProcessTypeChunk')
    pr = func(ctx, '__Pyx_Is_Little_Endian')
    rows, field, reader, host = decision_table(cs.body, pc.body, pr.body)
    r.inst('ModuleSetupCode.c:__Pyx_Is_Little_Endian:probe', sample='__Pyx_Is_Little_Endian(): little layout -> %d, big layout -> %d' % (host['little'], host['big']))
    for (c, L), row in sorted(rows.items()):
        r.inst('Buffer.c:__Pyx_BufFmt_CheckString:prefix:%s:%s-host' % (c, L),
               sample='prefix %r on a %s-endian host: %s' % (c, L, 'no arm' if row is None else '%s%s' % (row[0], '' if row[1] is None else ', mode %r' % row[1])))
    for suffix, msg in problems(rows, reader, host):
        if suffix == 'probe':
            r.violate('ModuleSetupCode.c:__Pyx_Is_Little_Endian:probe', SETUP_C, pr.line, msg)
        else:
            r.violate('Buffer.c:__Pyx_BufFmt_CheckString:prefix:%s' % suffix, BUFFER_C, cs.line, msg)
    # embedded positive example: '!' slips through a merged guard
    prow, _f, preader, phost = decision_table(POSITIVE_CHECK, POSITIVE_CHUNK, POSITIVE_PROBE, probe_name='is_le')
    got = {s for s, _ in problems(prow, preader, phost)}
    r.positive_control(got == {'!:little-host', '!:big-host'}, "merged guard `(*p == '>') == is_le()` lets '!' through on little-endian hosts")
    return r
