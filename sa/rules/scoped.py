"""V3 — visitor state discipline: attributes that carry scoped state (directives, env stacks) are restored after children are visited."""
import ast

from ..core import Rule, AnalysisError, node_src
from ..engine import pyflow
from ..engine.pyindex import walk_no_nested, is_self_attr


def rule_V3_attr(ctx, attrs=('directives', 'current_directives'), floor=2, rid='V3'):
    """In every visitor method that re-binds self.<attr> after having saved it (`old = self.<attr>`), the attribute is bound to
    the saved value again on every normal exit."""
    ix = ctx.index
    r = Rule(rid, 'visitor methods that rebind scoped visitor state (%s) restore the saved value on every normal exit' % ', '.join('self.' + a for a in attrs), floor)

    def analyse(fn, attr):
        def tr(n, state):
            s = set(state)
            if isinstance(n, ast.Assign):
                for t in n.targets:
                    if is_self_attr(t) and t.attr == attr:
                        if isinstance(n.value, ast.Name) and ('saved', n.value.id) in s:
                            s.discard('MOD')
                        else:
                            s.add('MOD')
                    elif isinstance(t, ast.Name):
                        s.discard(('saved', t.id))
                        if is_self_attr(n.value) and n.value.attr == attr and 'MOD' not in s:
                            s.add(('saved', t.id))
            return frozenset(s)
        o = pyflow.Flow(tr).run(fn)
        return any('MOD' in st for st in o.normal | o.returns)

    tv = ix.cls('Visitor', 'TreeVisitor')
    for v in [tv] + ix.subclasses(tv):
        for name, fn in v.methods.items():
            if name in ('__init__', '__call__') or not (name.startswith('visit') or name.startswith('_visit') or name.startswith('_process')):
                continue
            for attr in attrs:
                stores = [n for n in walk_no_nested(fn) if isinstance(n, ast.Assign) and any(is_self_attr(t) and t.attr == attr for t in n.targets)]
                saves = [n for n in walk_no_nested(fn) if isinstance(n, ast.Assign) and is_self_attr(n.value) and n.value.attr == attr and isinstance(n.targets[0], ast.Name)]
                if not stores:
                    continue
                key = '%s.%s:self.%s' % (v.qual, name, attr)
                r.inst(key, sample='%s rebinds self.%s (%d store(s), %d save(s))' % (key, attr, len(stores), len(saves)), nontrivial=bool(saves))
                if not saves:
                    continue     # entering a new module/function scope for good (no enclosing state to return to)
                if analyse(fn, attr):
                    r.violate(key, v.module.rel, fn.lineno,
                              '%s.%s rebinds self.%s but on some normal path returns without restoring the saved value: the directive scope leaks into the code that follows the block/decorated function' % (v.name, name, attr))
    pc = ast.parse("def visit_X(self, node):\n    old = self.directives\n    self.directives = node.directives\n    if node.skip:\n        return node\n    self.visitchildren(node)\n    self.directives = old\n    return node\n").body[0]
    r.positive_control(analyse(pc, 'directives'), 'early return without restoring directives')
    return r
