"""GEN rule family: code-generation protocols of Nodes.py / ExprNodes.py / ... (G1..G5)."""
import ast, re

from ..core import Rule, AnalysisError, node_src, norm_stmt
from ..engine import pyflow
from ..engine.pyindex import walk_no_nested, is_self_attr

GEN_MODULES = ('Nodes', 'ExprNodes', 'UtilNodes', 'MatchCaseNodes', 'ModuleNode', 'FusedNode', 'Buffer', 'MemoryView', 'Code')
KINDS = ('continue', 'break', 'return', 'error')


def _code_call(n, names):
    """code.<name>(...) or code.funcstate.<name>(...) -> name"""
    if isinstance(n, ast.Call) and isinstance(n.func, ast.Attribute) and n.func.attr in names:
        v = n.func.value
        if isinstance(v, ast.Name) and v.id == 'code':
            return n.func.attr
        if isinstance(v, ast.Attribute) and v.attr == 'funcstate' and isinstance(v.value, ast.Name) and v.value.id == 'code':
            return n.func.attr
    return None


def _code_label_attr(n):
    """code.<kind>_label -> kind"""
    if isinstance(n, ast.Attribute) and isinstance(n.value, ast.Name) and n.value.id == 'code':
        m = re.match(r'(continue|break|return|error)_label$', n.attr)
        if m:
            return m.group(1)
    return None


def gen_functions(ctx, modules=GEN_MODULES):
    ix = ctx.index
    for ms in modules:
        m = ix.mod(ms)
        for qn, owner, fn in ix.functions_of(m):
            args = [a.arg for a in fn.args.args]
            if 'code' in args:
                yield m, qn, owner, fn


# ---------------------------------------------------------------------------- G3
def _g3_transfer(vars_key='V'):
    """State facts: ('L', kind) = label slot currently modified; ('V', var, kind, was_modified)."""
    def set_kind(state, kind, modified):
        s = set(f for f in state if not (f[0] == 'L' and f[1] == kind))
        if modified:
            s.add(('L', kind))
        return s

    def save(state, var, kinds):
        s = set(f for f in state if not (f[0] == 'V' and f[1] == var))
        for k in kinds:
            s.add(('V', var, k, ('L', k) in state))
        return s

    def restore(state, var, kinds):
        s = set(state)
        saved = {f[2]: f[3] for f in state if f[0] == 'V' and f[1] == var}
        for k in kinds:
            if k in saved:
                s = set_kind(s, k, saved[k])
            else:
                s = set_kind(s, k, True)
        return s

    def transfer(node, state):
        s = set(state)
        if isinstance(node, ast.Assign) and len(node.targets) == 1:
            tgt, val = node.targets[0], node.value
            tname = ast.unparse(tgt) if isinstance(tgt, (ast.Name, ast.Attribute)) else None
            k = _code_label_attr(tgt)
            if k:
                # code.K_label = <expr>
                vname = ast.unparse(val) if isinstance(val, (ast.Name, ast.Attribute)) else None
                saved = {f[2]: f[3] for f in s if f[0] == 'V' and f[1] == vname}
                if k in saved:
                    return frozenset(set_kind(s, k, saved[k]))
                return frozenset(set_kind(s, k, True))
            c = _code_call(val, ('new_loop_labels', 'new_error_label', 'all_new_labels'))
            if c and tname:
                kinds = {'new_loop_labels': ('continue', 'break'), 'new_error_label': ('error',), 'all_new_labels': KINDS}[c]
                s = save(s, tname, kinds)
                for k in kinds:
                    s = set_kind(s, k, True)
                return frozenset(s)
            k = _code_label_attr(val)
            if k and tname:
                return frozenset(save(s, tname, (k,)))
            c = _code_call(val, ('get_loop_labels', 'get_all_labels'))
            if c and tname:
                kinds = ('continue', 'break') if c == 'get_loop_labels' else KINDS
                return frozenset(save(s, tname, kinds))
        for call in pyflow.calls_in(node):
            c = _code_call(call, ('new_loop_labels', 'new_error_label', 'all_new_labels', 'set_loop_labels', 'set_all_labels'))
            if not c:
                continue
            if c in ('new_loop_labels', 'new_error_label', 'all_new_labels'):
                if isinstance(node, ast.Assign) and node.value is call:
                    continue  # handled above
                kinds = {'new_loop_labels': ('continue', 'break'), 'new_error_label': ('error',), 'all_new_labels': KINDS}[c]
                for k in kinds:
                    s = set_kind(s, k, True)
            else:
                kinds = ('continue', 'break') if c == 'set_loop_labels' else KINDS
                a = call.args[0] if call.args else None
                if isinstance(a, (ast.Name, ast.Attribute)):
                    s = restore(s, ast.unparse(a), kinds)
                else:
                    # expression such as  self.old_loop_labels + (self.old_return_label, self.old_error_label)
                    parts = []
                    for n in ast.walk(a) if a is not None else []:
                        if isinstance(n, (ast.Name, ast.Attribute)) and any(f[0] == 'V' and f[1] == ast.unparse(n) for f in s):
                            parts.append(ast.unparse(n))
                    done = set()
                    for p in parts:
                        pk = [f[2] for f in s if f[0] == 'V' and f[1] == p]
                        s = restore(s, p, [k for k in pk if k in kinds])
                        done.update(pk)
                    for k in kinds:
                        if k not in done:
                            s = set_kind(s, k, True)
        return frozenset(s)
    return transfer


def _desugar_ifexp_assign(fn):
    """`saved = code.all_new_labels() if flag else None` is `if flag: saved = ...; else: saved = None` for the label analysis (the flow engine then
    correlates the later `if flag:` restore with it).  Returns fn itself when there is nothing to rewrite, else a rewritten copy."""
    import copy

    def hit(s):
        return isinstance(s, ast.Assign) and isinstance(s.value, ast.IfExp) and any(
            _code_call(x, ('new_loop_labels', 'new_error_label', 'all_new_labels', 'get_loop_labels', 'get_all_labels')) for x in ast.walk(s.value))
    if not any(hit(s) for s in walk_no_nested(fn)):
        return fn
    fn = copy.deepcopy(fn)

    class T(ast.NodeTransformer):
        def visit_FunctionDef(self, node):
            if node is not fn:
                return node
            self.generic_visit(node)
            return node

        def visit_Assign(self, node):
            if not hit(node):
                return node
            a = ast.Assign(targets=node.targets, value=node.value.body)
            b = ast.Assign(targets=copy.deepcopy(node.targets), value=node.value.orelse)
            new = ast.If(test=node.value.test, body=[a], orelse=[b])
            for x in (a, b, new):
                ast.copy_location(x, node)
            return ast.fix_missing_locations(new)
    return T().visit(fn)


def rule_G3(ctx, floor=9):
    """Label context: whatever a code-generating function does to the function-state label slots
    (error/break/continue/return) is undone on every normal exit."""
    r = Rule('G3', 'loop/error/return label slots modified by a generator function are restored from the saved values on every normal exit', floor)
    tr = _g3_transfer()
    for m, qn, owner, fn in gen_functions(ctx):
        if m.short == 'Code':
            continue
        touches = False
        for n in walk_no_nested(fn):
            if _code_call(n, ('new_loop_labels', 'new_error_label', 'all_new_labels')) or \
                    (isinstance(n, ast.Attribute) and isinstance(n.ctx, ast.Store) and _code_label_attr(n)):
                touches = True
        if not touches:
            continue
        key = '%s.%s' % (m.short, qn)
        # class-level save in self.old_* (ParallelStatNode.setup_parallel_control_flow_block): paired across methods
        cross = any(isinstance(n, ast.Assign) and is_self_attr(n.targets[0]) and
                    (_code_call(n.value, ('new_loop_labels', 'new_error_label', 'all_new_labels')) or _code_label_attr(n.value))
                    for n in walk_no_nested(fn))
        if cross:
            _g3_cross(ctx, r, m, owner, fn, key)
            continue
        try:
            o = pyflow.Flow(tr).run(_desugar_ifexp_assign(fn))
        except pyflow.TooManyStates:
            r.info('%s: state explosion, skipped' % key)
            continue
        r.inst(key, sample=key)
        bad = set()
        for st in o.normal | o.returns:
            for f in st:
                if f[0] == 'L':
                    bad.add(f[1])
        for k in sorted(bad):
            r.violate('%s:%s' % (key, k), m.rel, fn.lineno,
                      '%s leaves code.%s_label modified on some normal exit path: a later break/continue/return/error '
                      'jump in the enclosing construct goes to the wrong label' % (qn, k))
    pc = ast.parse("def f(self, code):\n    old = code.new_loop_labels()\n    if self.x:\n        return\n    code.set_loop_labels(old)\n").body[0]
    o = pyflow.Flow(tr).run(pc)
    r.positive_control(any(f[0] == 'L' for st in o.returns for f in st), 'early return without set_loop_labels')
    return r


def _g3_cross(ctx, r, m, owner, fn, key):
    """self.old_X = code.new_*_labels()/code.K_label in one method must be consumed by a restoring call in a
    sibling method of the same class."""
    saved = {}
    for n in walk_no_nested(fn):
        if isinstance(n, ast.Assign) and is_self_attr(n.targets[0]):
            c = _code_call(n.value, ('new_loop_labels', 'new_error_label', 'all_new_labels'))
            k = _code_label_attr(n.value)
            if c or k:
                saved[n.targets[0].attr] = n
    restored = set()
    if owner is not None:
        for k in ctx.index.mro(owner):
            for mn, f2 in k.methods.items():
                for n in walk_no_nested(f2):
                    if _code_call(n, ('set_loop_labels', 'set_all_labels')):
                        for a in ast.walk(n):
                            if is_self_attr(a):
                                restored.add(a.attr)
                    if isinstance(n, ast.Assign) and _code_label_attr(n.targets[0]) and is_self_attr(n.value):
                        restored.add(n.value.attr)
    for attr, n in saved.items():
        r.inst('%s:self.%s' % (key, attr), sample='%s saves self.%s' % (key, attr))
        if attr not in restored:
            r.violate('%s:self.%s' % (key, attr), m.rel, n.lineno,
                      'labels saved in self.%s are never restored by any method of %s' % (attr, owner.name if owner else '?'))


# ---------------------------------------------------------------------------- G4
def rule_G4(ctx, floor=25):
    """Every label created with code.new_label() and held in a local is placed (put_label / emitted as `label:`)
    or handed to label_interceptor / stored / returned; and is placed at most once on any path."""
    r = Rule('G4', 'labels from code.new_label() are placed exactly once (put_label / interceptor) before the function ends', floor)

    def check(m, qn, fn, report=True):
        labels = {}
        for n in walk_no_nested(fn):
            if isinstance(n, ast.Assign):
                v = n.value
                if isinstance(v, ast.IfExp):
                    v = v.body
                if _code_call(v, ('new_label',)):
                    for t in n.targets:
                        if isinstance(t, ast.Name):
                            labels.setdefault(t.id, n)
                        elif isinstance(t, ast.Attribute) or isinstance(t, ast.Tuple):
                            pass
        out = []
        for var, asg in labels.items():
            placed = used = escaped = False
            for n in walk_no_nested(fn):
                if isinstance(n, ast.Call):
                    nm = n.func.attr if isinstance(n.func, ast.Attribute) else getattr(n.func, 'id', None)
                    argnames = [a.id for a in ast.walk(n) if isinstance(a, ast.Name) and a is not n.func]
                    if var not in argnames:
                        continue
                    if nm == 'put_label':
                        placed = True
                    elif nm in ('put_goto', 'label_used', 'error_goto', 'error_goto_if', 'error_goto_if_null', 'error_goto_if_neg', 'use_label'):
                        used = True
                    elif nm == 'label_interceptor':
                        placed = True
                    elif nm in ('putln', 'put', 'put_safe') or nm is None:
                        # "%s:" % label  emits the label by hand
                        txt = ast.unparse(n)
                        if re.search(r"%s:|\{%s\}:" % (var, var), txt) or ':' in txt:
                            placed = True
                        used = True
                    else:
                        escaped = True
                elif isinstance(n, (ast.Return, ast.Yield)) and n.value is not None and \
                        any(isinstance(a, ast.Name) and a.id == var for a in ast.walk(n.value)):
                    escaped = True
                elif isinstance(n, ast.Assign) and n is not asg and \
                        any(isinstance(a, ast.Name) and a.id == var for a in ast.walk(n.value)):
                    escaped = True   # aliased / stored (code.error_label = x, self.l = x, (a, b) lists)
                elif isinstance(n, ast.BinOp) and isinstance(n.op, ast.Mod) and \
                        any(isinstance(a, ast.Name) and a.id == var for a in ast.walk(n.right)):
                    used = True
                    if isinstance(n.left, ast.Constant) and isinstance(n.left.value, str) and ':' in n.left.value:
                        placed = True
                elif isinstance(n, ast.JoinedStr) and any(isinstance(a, ast.Name) and a.id == var for a in ast.walk(n)):
                    used = True
                    if ':' in ast.unparse(n):
                        placed = True
            out.append((var, asg, placed, used, escaped))
        return out

    for m, qn, owner, fn in gen_functions(ctx):
        if m.short == 'Code':
            continue
        for var, asg, placed, used, escaped in check(m, qn, fn):
            key = '%s.%s:%s' % (m.short, qn, var)
            r.inst(key, sample=key)
            if used and not placed and not escaped:
                r.violate(key, m.rel, asg.lineno,
                          'label %r created by code.new_label() in %s is %s but never placed with put_label/label_interceptor: '
                          'any goto to it produces C that does not compile' % (var, qn, 'jumped to' if used else 'never used'))
    pc = ast.parse("def f(self, code):\n    end = code.new_label('e')\n    code.put_goto(end)\n").body[0]
    res = check(None, 'f', pc)
    r.positive_control(res and res[0][3] and not res[0][2] and not res[0][4], 'label never placed')
    return r


# ---------------------------------------------------------------------------- interceptor alignment
def rule_G4b(ctx, floor=3):
    """label_interceptor(new, orig): position i of both lists is the same kind of label."""
    r = Rule('G4b', 'label_interceptor(new_labels, orig_labels) pairs labels of the same kind (error/break/continue/return) position by position', floor)

    def kinds_of(fn):
        kind = {}
        for n in walk_no_nested(fn):
            if isinstance(n, ast.Assign) and len(n.targets) == 1:
                t, v = n.targets[0], n.value
                if isinstance(t, ast.Name):
                    k = _code_label_attr(v)
                    if k:
                        kind[t.id] = k
                    elif _code_call(v, ('new_error_label',)):
                        kind[t.id] = 'error'
                k = _code_label_attr(t)
                if k and isinstance(v, ast.Name):
                    kind.setdefault(v.id, k)
        return kind

    def seq_kinds(node, kind):
        if isinstance(node, (ast.List, ast.Tuple)):
            out = []
            for e in node.elts:
                if isinstance(e, ast.Name):
                    out.append(kind.get(e.id))
                else:
                    out.append(_code_label_attr(e))
            return out
        c = _code_call(node, ('get_loop_labels', 'get_all_labels'))
        if c:
            return ['continue', 'break'] if c == 'get_loop_labels' else list(KINDS)
        return None

    def var_seq(fn, name):
        for n in walk_no_nested(fn):
            if isinstance(n, ast.Assign) and any(isinstance(t, ast.Name) and t.id == name for t in n.targets):
                c = _code_call(n.value, ('new_loop_labels', 'get_loop_labels', 'all_new_labels', 'get_all_labels'))
                if c:
                    return ['continue', 'break'] if 'loop' in c else list(KINDS)
        return None

    def check(m, qn, fn):
        kind = kinds_of(fn)
        res = []
        for n in walk_no_nested(fn):
            if isinstance(n, ast.Call) and isinstance(n.func, ast.Attribute) and n.func.attr == 'label_interceptor' and len(n.args) >= 2:
                a = seq_kinds(n.args[0], kind) or (var_seq(fn, n.args[0].id) if isinstance(n.args[0], ast.Name) else None)
                b = seq_kinds(n.args[1], kind) or (var_seq(fn, n.args[1].id) if isinstance(n.args[1], ast.Name) else None)
                res.append((n, a, b))
        return res

    for m, qn, owner, fn in gen_functions(ctx):
        for n, a, b in check(m, qn, fn):
            key = '%s.%s:%s' % (m.short, qn, norm_stmt(n.args[0])[:40])
            r.inst(key, sample='%s: %s -> %s' % (key, a, b), nontrivial=bool(a and b))
            if a is None or b is None:
                continue
            if len(a) != len(b):
                r.violate(key, m.rel, n.lineno, 'label_interceptor lists differ in length: %s vs %s' % (a, b))
                continue
            for i, (x, y) in enumerate(zip(a, b)):
                if x and y and x != y:
                    r.violate(key, m.rel, n.lineno,
                              'label_interceptor position %d intercepts a %s label but dispatches to the saved %s label' % (i, x, y))
    pc = ast.parse("def f(self, code):\n    ob = code.break_label\n    oc = code.continue_label\n    nb = code.new_label()\n    code.break_label = nb\n"
                   "    for _ in code.label_interceptor([nb], [oc]):\n        pass\n").body[0]
    res = check(None, 'f', pc)
    r.positive_control(res and res[0][1] == ['break'] and res[0][2] == ['continue'], 'break intercepted to continue')
    return r


def label_rules(ctx):
    return [rule_G3(ctx), rule_G4(ctx), rule_G4b(ctx)]
