"""Sixth-round rules for C31 (match statements).

  C31-PROBE   a key / keyword / positional attribute named by a pattern is LOOKED UP on the subject whether or not its value is wanted.  A wildcard
              sub-pattern (`{"k": _}`, `C(attr=_)`, `C(_)`) has no sub-subject (None in the Python arrays, a NULL slot in the C arrays), but the lookup
              *is* the test: the key must be present, the attribute must exist, the getter runs and may raise.
              C side: in every counted loop of a MatchCase.c helper that reads the slot array (`PyObject **subjects[]`), every path through one
              iteration that goes on to the next element performs a lookup call with this iteration's key (path exploration, every #if / Tempita
              variant).  Python side: ClassPatternNode / MatchMappingPatternNode evaluated on mock nodes for every wildcard mask: every keyword
              attribute is read inside the `try` of the lookup stage, in keyword order, exactly once; the key / name arrays and the counts handed
              to the helpers count the wildcard sub-patterns too; the extraction helper is called whenever there is a key.
  C31-EXACT   a type test that selects a path on which a helper PARAMETER (the subject) is handed to the concrete-layout C-API (PyDict_*, PyList_*,
              PyTuple_*, PySet_* — directly or through another helper of the file) is an EXACT type test.  For an instance of a subclass these
              functions read the underlying storage and bypass the methods (`get`, `__len__`, `__getitem__`, `keys` ...) that CPython's match
              statement calls.  Exactness is resolved through the macro / inline definitions of the utility catalogue (every #if variant).
"""
import itertools, re

from ..core import Rule, AnalysisError
from ..engine.cutil import split_args
from ..engine import cexpr as _cx
from . import pC17 as P
from . import sC31 as S
from .sC31 import (CFILE, MOD, WORD, NS, OPQ, CDeclMock, Rec, Sym, c_funcs, ctor_is, explore, strip_casts, subject_mock, timeline, variants, walk_ns, balanced, with_flag_facts,
                   _key_mock, FOR_HDR)

REL_C = 'Cython/Utility/' + CFILE


# ====================================================================================================== C31-PROBE, C side
def slot_arrays(d):
    """names of the parameters declared `T **name[]` / `T ***name`: arrays of addresses of sub-subjects, an element may be NULL (value not wanted)"""
    out = []
    for n, p in zip(d.param_names(), d.params or []):
        if not n:
            continue
        stars = p.count('*') + (1 if re.search(r'\[\s*\]\s*$', p) else 0)
        if stars >= 3:
            out.append(n)
    return out


def _idents(text):
    return set(re.findall(r'(?<![\w>.])%s\b' % WORD, text))


def _uses_index(text, var):
    """the loop variable occurs as a subscript or as a call argument"""
    return re.search(r'\[\s*%s\s*\]' % re.escape(var), text) is not None or re.search(r'[(,]\s*%s\s*[,)]' % re.escape(var), text) is not None


def probe_loops(d):
    """-> ([(variant, loop var, slot array, [(lookup calls, slot wanted?)] per path that reaches the next element)], notes): one entry per counted loop whose body reads
    slots[var] and looks something up for the element on at least one path (the extraction loops)"""
    slots = slot_arrays(d)
    out, notes = [], []
    if not slots:
        return out, notes
    for ch, text in variants(d.body):
        text = strip_casts(text)
        if not balanced(text):
            notes.append('variant %s: unbalanced braces' % (ch,))
            continue
        try:
            top = P.parse_body(text)
        except AnalysisError as e:
            notes.append('variant %s: %s' % (ch, e))
            continue
        for st in P.walk(top):
            if st.kind != 'for':
                continue
            m = FOR_HDR.match(st.text)
            if not m:
                continue
            var = m.group(1)
            body = P.as_list(st.body)
            btxt = ' '.join(x.text for x in P.walk(body))
            slot = next((a for a in slots if re.search(r'(?<![\w>.])%s\s*\[\s*%s\s*\]' % (re.escape(a), re.escape(var)), btxt)), None)
            if slot is None:
                continue
            try:
                paths = P.Explorer(body).stmts(body, P.PState())
            except (P.Unmodelled, AnalysisError) as e:
                notes.append('variant %s: loop over %s: %s' % (ch, slot, e))
                continue
            rows, looks_up = [], False
            for state, ex in paths:
                keys, slot_alias, arrays_with_key = set(), {'%s[%s]' % (slot, var)}, set()
                lookups, wanted = [], None
                for it in timeline(state):
                    if it[0] == 'write' and isinstance(it[2], tuple) and it[2][0] == '=':
                        rhs = it[2][1]
                        if re.search(r'(?<![\w>.])%s\s*\[\s*%s\s*\]' % (re.escape(slot), re.escape(var)), rhs):
                            slot_alias.add(it[1])
                        elif _uses_index(rhs, var) and re.fullmatch(WORD, it[1]):
                            keys.add(it[1])                      # key = keys[i];  name = GET_ITEM(match_args, i)
                        elif re.fullmatch(WORD, it[1]) and _idents(rhs) & keys and rhs.lstrip().startswith('{'):
                            arrays_with_key.add(it[1])           # PyObject *args[] = { self, key, dummy }
                    elif it[0] == 'fact' and isinstance(it[2], bool) and re.sub(r'\s+', '', it[1]) in {re.sub(r'\s+', '', a) for a in slot_alias}:
                        wanted = it[2]
                    elif it[0] == 'call':
                        args = [a.strip() for a in (it[2] or [])]
                        if len(args) < 2:
                            continue
                        has_key = any((_idents(a) & (keys | arrays_with_key)) or (_uses_index(a, var) and not re.search(r'(?<![\w>.])%s\s*\[' % re.escape(slot), a)) for a in args)
                        other = any(re.fullmatch(WORD, a) and a not in keys and a not in arrays_with_key and a != var and a not in ('NULL',) for a in args)
                        if has_key and other:
                            lookups.append('%s(%s)' % (it[1], ', '.join(args)))
                looks_up = looks_up or bool(lookups)
                if ex[0] in ('fall', 'continue'):                # (return / goto / break leave the loop: not a path to the next element)
                    rows.append((lookups, wanted))
            if looks_up:                                         # a loop that looks nothing up on any path (initialisation / clean-up of the slots) is not an extraction loop
                out.append((ch, var, slot, rows))
    return out, notes


PROBE_PC_BAD = '''{
    Py_ssize_t i;
    for (i=0; i<nKeys; ++i) {
        PyObject *key = keys[i];
        PyObject **subject = subjects[i];
        PyObject *value;
        if (!subject) continue;
        value = lookup2(mapping, key);
        if (!value) return -1;
        *subject = value;
    }
    return 1;
}'''
PROBE_PC_GOOD = '''{
    Py_ssize_t i;
    for (i=0; i<nKeys; ++i) {
        PyObject **subject = subjects[i];
        if (!subject) {
            int c = PyDict_Contains(mapping, keys[i]);
            if (c <= 0) return c;
        } else {
            PyObject *value = PyDict_GetItemWithError(mapping, keys[i]);
            if (!value) return -1;
            *subject = value;
        }
    }
    return 1;
}'''


PROBE_PC_MIXED = PROBE_PC_GOOD.replace('PyDict_Contains', 'PySequence_Contains').replace('PyDict_GetItemWithError(mapping, keys[i])', 'call_get(getter, keys[i], marker)')


def _protocol_sets(lst):
    """[(variant, callees on NULL-slot paths, callees on wanted paths)] — concrete-layout API calls (unobservable on an exact dict / list / tuple) left out"""
    out = []
    for ch, var, rows in lst:
        n_set = {lk.split('(')[0] for lookups, wanted in rows if wanted is False for lk in lookups}
        w_set = {lk.split('(')[0] for lookups, wanted in rows if wanted is True for lk in lookups}
        out.append((ch, {x for x in n_set if not LAYOUT_API.match(x)}, {x for x in w_set if not LAYOUT_API.match(x)}))
    return out


def _probe_silent_paths(d):
    loops, _ = probe_loops(d)
    return [(slot, wanted) for _, _, slot, rows in loops for lookups, wanted in rows if not lookups]


def rule_probe(ctx, sym=None, floor=150):
    sym = sym or Sym(ctx)
    r = Rule('C31-PROBE', 'a key / keyword / positional attribute named by a mapping or class pattern is looked up on the subject whether or not its value is wanted: a wildcard '
             'sub-pattern only drops the sub-subject (NULL slot / no temp), never the lookup — presence of the key / attribute is the test, and the getter is an observable call', floor)
    # ---------------- C helpers
    for d in c_funcs(ctx):
        loops, notes = probe_loops(d)
        for n in notes:
            r.info('%s: %s' % (d.name, n))
        by_slot = {}
        for ch, var, slot, rows in loops:
            by_slot.setdefault(slot, []).append((ch, var, rows))
        for slot, lst in sorted(by_slot.items()):
            key = '%s:%s:lookup-per-element:%s' % (CFILE, d.name, slot)
            n_paths = sum(len(rows) for _, _, rows in lst)
            sample = next((lk[0] for _, _, rows in lst for lk, _ in rows if lk), None)
            r.inst(key, sample='%s: %d path(s) to the next element of %s[] in %d variant(s), e.g. %s' % (d.name, n_paths, slot, len(lst), sample))
            if n_paths == 0:
                r.info('%s: no path through the loop over %s[] reaches the next element' % (d.name, slot))
            done = False
            for ch, var, rows in lst:
                for lookups, wanted in rows:
                    if not lookups and not done:
                        done = True
                        r.violate(key, REL_C, d.line, '%s: a path through one iteration of the loop over %s[%s] %s reaches the next element without any lookup call for this element\'s '
                                  'key / attribute name: a pattern whose sub-pattern is a wildcard (`{"k": _}`, `C(_)`, `C(a=_)`) matches although the key / attribute is missing, '
                                  'and the lookup (get(), property getter) CPython performs is not made%s' % (
                                      d.name, slot, var, '(on which the slot is NULL — value not wanted)' if wanted is False else '(slot wanted)' if wanted else '',
                                      '' if not ch else ' [variant %s]' % (ch,)))
            # which method of the subject is called must not depend on whether the value is wanted (only the dict-only API on an exact dict is unobservable)
            key2 = '%s:%s:same-protocol:%s' % (CFILE, d.name, slot)
            r.inst(key2, sample='%s: callees on NULL-slot paths %s, on wanted paths %s' % (d.name, sorted(_protocol_sets(lst)[0][1]) if lst else [], sorted(_protocol_sets(lst)[0][2]) if lst else []))
            for ch, n_set, w_set in _protocol_sets(lst):
                if n_set and w_set and n_set != w_set:
                    r.violate(key2, REL_C, d.line, '%s: for an element of %s[] whose value is not wanted the subject is queried through %s, for a wanted value through %s: whether a '
                              'sub-pattern is a wildcard changes which method of the subject runs (CPython calls the same lookup — subject.get(key, marker) / getattr — in both cases), so '
                              'logging / overriding mappings observe other calls and can select another case%s' % (
                                  d.name, slot, sorted(n_set), sorted(w_set), '' if not ch else ' [variant %s]' % (ch,)))
                    break
    params = ['PyObject *mapping', 'PyObject *keys[]', 'Py_ssize_t nKeys', 'PyObject **subjects[]']
    bad, good, mixed = CDeclMock('f', params, PROBE_PC_BAD), CDeclMock('f', params, PROBE_PC_GOOD), CDeclMock('f', params, PROBE_PC_MIXED)

    def proto(d):
        return [(n, w) for _, _, slot, rows in [x for x in probe_loops(d)[0]] for _, n, w in _protocol_sets([(None, None, rows)])]
    r.positive_control(_probe_silent_paths(bad) == [('subjects', False)] and probe_loops(good)[0] and not _probe_silent_paths(good) and
                       all(n == w for n, w in proto(good)) and any(n and w and n != w for n, w in proto(mixed)),
                       '`if (!subject) continue;` before the lookup recognised; PyDict_Contains for unwanted / PyDict_GetItem for wanted values of an exact dict accepted; '
                       'contains() for unwanted / get() for wanted values of a generic mapping recognised')
    # ---------------- node builders
    _probe_python(r, sym)
    return r


# ====================================================================================================== C31-PROBE, Python side
def _wild(label):
    rec = Rec(label, targets=set(), irrefutable=True)
    rec.ns.__dict__['is_match_and_assign_pattern'] = True            # `_`: MatchAndAssignPatternNode without a target
    rec.wild = True
    return rec


def _wanted(label):
    rec = Rec(label)
    rec.wild = False
    return rec


def _helper_name(call):
    pos = call.__dict__.get('_pos') or []
    return pos[1] if len(pos) > 1 and isinstance(pos[1], str) else call.__dict__.get('function_name')


def _under(root, attr):
    """mock nodes below root.<attr>"""
    return list(walk_ns(root.__dict__.get(attr)))


def _probe_python(r, sym):
    seen = {}

    def bad(key, line, msg):
        seen.setdefault(key, (line, msg))
    # ---- class patterns
    c = sym.cls('ClassPatternNode')
    f_assign = sym.method(c, 'create_main_pattern_assignment_list')[1]
    f_cmp = sym.method(c, 'get_comparison_node')[1]
    for npos, nkw in ((0, 1), (0, 2), (1, 1), (2, 2), (0, 3), (2, 0), (1, 0)):
        for mask in itertools.product((False, True), repeat=npos + nkw):
            if not any(mask):
                continue                                       # no wildcard: C31-PAIR
            pos_recs = [(_wild if mask[i] else _wanted)('pos%d' % i) for i in range(npos)]
            kw_recs = [(_wild if mask[npos + i] else _wanted)('kw%d' % i) for i in range(nkw)]
            names = [NS('name%d' % i, _ctor='MockName', name='attr%d' % i, pos='POSN%d' % i, analyse_declarations=lambda env: None) for i in range(nkw)]
            class_ = NS('class_', _ctor='MockClassRef', type=NS('t'), pos='POSC', clone_node=None)
            o = sym.obj(c, pos='POS', class_=class_, positional_patterns=[x.ns for x in pos_recs], keyword_pattern_names=list(names),
                        keyword_pattern_patterns=[x.ns for x in kw_recs], class_known_type=None, as_targets=[])
            shape = '%s' % ''.join('_' if m else 'p' for m in mask[:npos]) + '|' + ''.join('_' if m else 'p' for m in mask[npos:])
            what = 'class pattern C(%s)' % ', '.join(['_' if x.wild else 'p%d' % i for i, x in enumerate(pos_recs)] + ['attr%d=%s' % (i, '_' if x.wild else 'p') for i, x in enumerate(kw_recs)])
            subj = subject_mock(sym)
            sym.run('ClassPatternNode.create_main_pattern_assignment_list', f_assign, [o, subj, NS('env')])
            cmp_ = sym.run('ClassPatternNode.get_comparison_node', f_cmp, [o, subj, None])
            nodes = list(walk_ns(cmp_))
            if nkw:
                key = '%s.ClassPatternNode:keyword-lookup' % MOD
                r.inst('%s:%s' % (key, shape), sample=what)
                tries = [x for x in nodes if ctor_is(x, 'TryExceptStatNode')]
                if len(tries) != 1:
                    bad(key + ':try', f_cmp.lineno, '%s: the comparison contains %d try/except statements for the keyword attribute lookups (expected one)' % (what, len(tries)))
                    continue
                order = []
                for st in _under(tries[0], 'body'):
                    node = st.__dict__.get('rhs') if ctor_is(st, 'SingleAssignmentNode') else st.__dict__.get('expr') if ctor_is(st, 'ExprStatNode') else None
                    if ctor_is(node, 'AttributeNode') and isinstance(node.__dict__.get('attribute'), str):
                        order.append(node.attribute)
                want = ['attr%d' % i for i in range(nkw)]
                if order != want:
                    missing = [a for a in want if a not in order]
                    wild_missing = [a for a, x in zip(want, kw_recs) if a in missing and x.wild]
                    bad(key, f_cmp.lineno, '%s: the guarded lookup stage reads the subject attributes %s, the pattern names %s%s' % (
                        what, order, want, ': the attribute of a wildcard keyword sub-pattern is never read, so `C(attr=_)` matches objects without that attribute and its getter '
                        'is not called' if wild_missing else ': an attribute is not read / read twice / read out of keyword order'))
            if npos:
                key = '%s.ClassPatternNode:positional-slots' % MOD
                r.inst('%s:%s' % (key, shape), sample=what)
                arrs = [x for x in nodes if ctor_is(x, 'EvaluateWithKeysAndSubjectsArrays')]
                if len(arrs) != 1:
                    bad(key + ':helper', f_cmp.lineno, '%s: the positional helper call is missing from the comparison (found %d)' % (what, len(arrs)))
                    continue
                sa_ = arrs[0].__dict__.get('subjects_array')
                call_ = arrs[0].__dict__.get('arg')
                ints = [a.__dict__.get('value') for a in (call_.__dict__.get('args') or []) if ctor_is(a, 'IntNode')] if ctor_is(call_, 'PythonCapiCallNode') else []
                if not isinstance(sa_, list) or len(sa_) != npos or not ints or ints[-1] != npos:
                    bad(key, f_cmp.lineno, '%s: the positional helper receives %s slot(s) and the count %s for %d positional sub-patterns: a wildcard position must keep its (NULL) slot, the '
                        'helper still has to look up __match_args__[i] on the subject and to count it against the number of allowed positions' % (
                            what, len(sa_) if isinstance(sa_, list) else '?', ints[-1] if ints else '?', npos))
                elif [t is None for t in sa_] != [x.wild for x in pos_recs]:
                    bad(key + ':which', f_cmp.lineno, '%s: NULL slots %s do not coincide with the wildcard positions %s' % (what, [t is None for t in sa_], [x.wild for x in pos_recs]))
    # ---- mapping patterns
    c = sym.cls('MatchMappingPatternNode')
    f_val = sym.method(c, 'validate_keys')[1]
    f_assign = sym.method(c, 'create_main_pattern_assignment_list')[1]
    f_cmp = sym.method(c, 'get_comparison_node')[1]
    for nk in (1, 2, 3):
        for mask in itertools.product((False, True), repeat=nk):
            if not any(mask):
                continue
            for dstar in (False, True):
                recs = [(_wild if mask[i] else _wanted)('v%d' % i) for i in range(nk)]
                keys = [_key_mock('k%d' % i, True) for i in range(nk)]
                ds_target = NS('rest', _ctor='MockName', name='rest', pos='POSR', analyse_declarations=lambda env: None) if dstar else None
                o = sym.obj(c, pos='POS', keys=list(keys), value_patterns=[x.ns for x in recs], double_star_capture_target=ds_target, as_targets=[])
                shape = ''.join('_' if m else 'p' for m in mask) + ('**' if dstar else '')
                what = 'mapping pattern {%s%s}' % (', '.join('k%d: %s' % (i, '_' if m else 'p') for i, m in enumerate(mask)), ', **rest' if dstar else '')
                sym.run('MatchMappingPatternNode.validate_keys', f_val, [o])
                subj = subject_mock(sym)
                sym.run('MatchMappingPatternNode.create_main_pattern_assignment_list', f_assign, [o, subj, NS('env')])
                cmp_ = sym.run('MatchMappingPatternNode.get_comparison_node', f_cmp, [o, subj, None])
                nodes = list(walk_ns(cmp_))
                key = '%s.MatchMappingPatternNode:key-lookup' % MOD
                r.inst('%s:%s' % (key, shape), sample=what)
                arrs = [x for x in nodes if ctor_is(x, 'EvaluateWithKeysAndSubjectsArrays')]
                extract = [x for x in nodes if ctor_is(x, 'PythonCapiCallNode') and isinstance(_helper_name(x), str) and 'Extract' in _helper_name(x)]
                if len(arrs) != 1 or len(extract) != 1:
                    bad(key + ':helper', f_cmp.lineno, '%s: the comparison contains %d key-extraction helper call(s) (expected one): the keys of the pattern are not looked up in the '
                        'subject, so the pattern matches mappings that lack them' % (what, len(extract)))
                    continue
                ka, sa_ = arrs[0].__dict__.get('keys_array'), arrs[0].__dict__.get('subjects_array')
                ints = [a.__dict__.get('value') for a in (extract[0].__dict__.get('args') or []) if ctor_is(a, 'IntNode')]
                if not isinstance(ka, list) or not isinstance(sa_, list) or len(ka) != nk or len(sa_) != nk or ints != [nk]:
                    bad(key, f_cmp.lineno, '%s: the extraction helper receives %s key(s), %s slot(s) and the count %s for %d keys: the key of a wildcard value must stay in the key array '
                        '(with a NULL slot) — its presence in the subject is part of the test' % (what, len(ka) if isinstance(ka, list) else '?', len(sa_) if isinstance(sa_, list) else '?', ints, nk))
                elif not all(any(k is k0 for k in ka) for k0 in keys):
                    bad(key + ':which', f_cmp.lineno, '%s: the key array does not hold every key of the pattern' % what)
    # ---- sequence patterns: a wildcard / capture element needs no test of its own, but it still counts for the length the subject must have
    c = sym.cls('MatchSequencePatternNode')
    f_assign = sym.method(c, 'create_main_pattern_assignment_list')[1]
    f_cmp = sym.method(c, 'get_comparison_node')[1]
    star_cls = sym.cls('MatchAndAssignPatternNode')
    for n in (1, 2, 3):
        for star in [None] + list(range(n)):
            for kinds in itertools.product('pc_', repeat=n):
                if star is not None and kinds[star] == 'p':
                    continue                                    # a starred element is a capture or a wildcard
                if all(k == 'p' for i, k in enumerate(kinds) if i != star) and (star is None or kinds[star] == 'c'):
                    continue                                    # nothing irrefutable besides a plain `*rest`: C31-SEQ
                recs = []
                for i, k in enumerate(kinds):
                    rec = Rec('e%d' % i) if k == 'p' else Rec('e%d' % i, irrefutable=True) if k == 'c' else Rec('e%d' % i, targets=set(), irrefutable=True)
                    if k != 'p':
                        rec.ns.__dict__.update(is_match_and_assign_pattern=True, _ctor='MatchAndAssignPatternNode', _cls=star_cls)
                    if i == star:
                        rec.ns.__dict__.update(is_star=True)
                    recs.append(rec)
                o = sym.obj(c, pos='POS', patterns=[x.ns for x in recs], as_targets=[], length_temp=NS('length_temp', _ctor='LengthTemp'))
                shape = ''.join(('*' if i == star else '') + k for i, k in enumerate(kinds))
                what = 'sequence pattern [%s]' % ', '.join(('*' if i == star else '') + {'p': 'p%d' % i, 'c': 'name%d' % i, '_': '_'}[k] for i, k in enumerate(kinds))
                subj = subject_mock(sym)
                sym.run('MatchSequencePatternNode.create_main_pattern_assignment_list', f_assign, [o, subj, NS('env', directives={})])
                cmp_ = sym.run('MatchSequencePatternNode.get_comparison_node', f_cmp, [o, subj, None])
                tests = []
                for x in walk_ns(cmp_):
                    if ctor_is(x, 'PrimaryCmpNode') and any(ctor_is(y, 'NameNode') and y.__dict__.get('name') == 'len' for y in walk_ns(x.__dict__.get('operand1'))):
                        c2 = x.__dict__.get('operand2')
                        tests.append((x.__dict__.get('operator'), c2.__dict__.get('value') if isinstance(c2, NS) else None))
                key = '%s.MatchSequencePatternNode:length-counts-wildcards' % MOD
                r.inst('%s:%s' % (key, shape), sample='%s: length tests %s' % (what, tests))
                if any(op not in S.CMP or not isinstance(v, int) for op, v in tests):
                    bad(key + ':shape', f_cmp.lineno, '%s: the length test %s is not a comparison of len(subject) with a constant' % (what, tests))
                    continue
                for L in range(0, n + 3):
                    got = all(S.CMP[op](L, v) for op, v in tests)
                    want = (L >= n - 1) if star is not None else (L == n)
                    if got != want:
                        bad(key, f_cmp.lineno, '%s: a subject of length %d is %s by the length test %s; CPython %s it (needs %s) — elements matched by a wildcard or a capture need no test '
                            'of their own but still count for the length' % (what, L, 'accepted' if got else 'rejected', ' and '.join('len %s %d' % t for t in tests) or '(none)',
                                                                             'accepts' if want else 'rejects', 'len >= %d' % (n - 1) if star is not None else 'len == %d' % n))
                        break
    for key, (line, msg) in sorted(seen.items()):
        r.violate(key, sym.m.rel, line, msg)


# ====================================================================================================== C31-EXACT
LAYOUT_API = re.compile(r'^(?:__Pyx_)?_?Py(Dict|List|Tuple|Set|FrozenSet|AnySet|AnyDict|FrozenDict)_(?!Check|New\b|Type)\w+$')
API_EXACT = re.compile(r'^_?Py[A-Z][A-Za-z]*_CheckExact$')
API_INEXACT = re.compile(r'^_?Py[A-Z][A-Za-z]*_Check$')
INEXACT_2 = {'PyObject_TypeCheck', 'PyObject_IsInstance', 'PyObject_IsSubclass', 'PyType_IsSubtype', '__Pyx_IsSubtype', '__Pyx_TypeCheck', '__Pyx_TypeCheck2'}


class TypeTests:
    """classification of a predicate NAME(x, ...) as a test of the type of x: 'exact' (x is an instance of exactly one of the named types), 'inexact' (subclasses pass) or
    None (not a type test / not resolvable); __Pyx_ names are resolved through their macro / inline definitions in the utility catalogue, all #if variants"""

    def __init__(self, ctx):
        self.ctx, self.memo, self.why, self.facts = ctx, {}, {}, {}

    def of_name(self, name, depth=0):
        if name in self.memo:
            return self.memo[name]
        self.memo[name] = None                                  # recursion guard
        res = self._of_name(name, depth)
        self.memo[name] = res
        return res

    def _of_name(self, name, depth):
        if name == 'Py_IS_TYPE' or API_EXACT.match(name):
            return 'exact'
        if API_INEXACT.match(name) or name in INEXACT_2:
            return 'inexact'
        if not name.startswith('__Pyx') or depth > 5:
            return None
        decls = [d for d in self.ctx.cat.decls.get(name, []) if d.kind in ('macro', 'func') and d.body]
        if not decls:
            return None
        kinds = set()
        self.why.pop(name, None)
        for d in decls:
            params = [re.search(r'(%s)\s*$' % WORD, p).group(1) for p in (d.params or []) if re.search(r'(%s)\s*$' % WORD, p)]
            if not params:
                return None
            if d.kind == 'macro':
                text = d.body
            else:
                m = re.fullmatch(r'\{\s*return\s+(.*?);\s*\}', ' '.join(d.body.split()), re.S)
                if not m:
                    return None
                text = m.group(1)
            try:
                e = P._parse(strip_casts(text))
            except _cx.ParseError:
                return None
            k = self.of_expr(e, params[0], depth + 1)
            if k is None:
                return None
            kinds.add(k)
            if k == 'inexact' and name not in self.why:
                self.why[name] = 'its definition at %s:%d%s is `%s`' % (d.file, d.line, (' (variant: %s)' % '; '.join(d.conds)) if d.conds else '', ' '.join(text.split()))
        return 'inexact' if 'inexact' in kinds else 'exact'

    def of_expr(self, e, obj, depth=0):
        """kind of the test `e` makes on the identifier obj, or None"""
        e = P._strip(e)
        if e[0] == 'bin' and e[1] == '||':
            a, b = self.of_expr(e[2], obj, depth), self.of_expr(e[3], obj, depth)
            return None if a is None or b is None else ('inexact' if 'inexact' in (a, b) else 'exact')
        if e[0] == 'bin' and e[1] == '&&':
            a, b = self.of_expr(e[2], obj, depth), self.of_expr(e[3], obj, depth)
            if a is None and b is None:
                return None
            return 'exact' if 'exact' in (a, b) else 'inexact'
        if e[0] == 'bin' and e[1] == '==':
            for x, y in ((e[2], e[3]), (e[3], e[2])):
                x = P._strip(x)
                if x[0] == 'call' and x[1] == 'Py_TYPE' and len(x[2]) == 1 and self._is(x[2][0], obj):
                    return 'exact'
            return None
        if e[0] == 'call' and e[2] and self._is(e[2][0], obj):
            return self.of_name(e[1], depth)
        return None

    @staticmethod
    def _is(e, obj):
        e = P._strip(e)
        while e[0] == 'cast':
            e = P._strip(e[2])
        return e[0] == 'id' and e[1] == obj

    def of_fact(self, text):
        """fact text of the explorer -> (object identifier, predicate text, kind) or None"""
        if text not in self.facts:
            self.facts[text] = self._of_fact(text)
        return self.facts[text]

    def _of_fact(self, text):
        try:
            e = P._strip(P._parse(text))
        except _cx.ParseError:
            return None
        obj = None
        if e[0] == 'call' and e[2]:
            a = P._strip(e[2][0])
            if a[0] == 'id':
                obj = a[1]
        elif e[0] == 'bin' and e[1] == '==':
            for x in (e[2], e[3]):
                x = P._strip(x)
                if x[0] == 'call' and x[1] == 'Py_TYPE' and len(x[2]) == 1 and P._strip(x[2][0])[0] == 'id':
                    obj = P._strip(x[2][0])[1]
        if obj is None:
            return None
        k = self.of_expr(e, obj)
        if k is None:
            return None
        return obj, (e[1] if e[0] == 'call' else text), k


def pointer_params(d):
    return [n for n, p in zip(d.param_names(), d.params or []) if n and p.count('*') == 1 and not re.search(r'\[\s*\]\s*$', p) and re.search(r'\bPyObject\b', p)]


def layout_needs(ctx, tt):
    """{function: {parameter index: [api]}}: parameters handed to the concrete-layout API (or to such a parameter of another helper) on a path without any type test of them"""
    funcs = {d.name: d for d in c_funcs(ctx)}
    need = {}
    for _ in range(5):
        changed = False
        for d in funcs.values():
            params = d.param_names()
            ptrs = set(pointer_params(d))
            res, _notes = explore(d.body)
            for ch, paths in res:
                for state, ex in paths:
                    tested = set()
                    for it in with_flag_facts(timeline(state)):
                        if it[0] == 'fact' and it[2] is True:
                            f = tt.of_fact(it[1])
                            if f:
                                tested.add(f[0])
                        elif it[0] == 'call':
                            fname, args = it[1], [a.strip() for a in (it[2] or [])]
                            idxs = [0] if LAYOUT_API.match(fname) else sorted(need.get(fname, ())) if fname != d.name else []
                            for i in idxs:
                                if i < len(args) and args[i] in ptrs and args[i] not in tested:
                                    slot = need.setdefault(d.name, {}).setdefault(params.index(args[i]), [])
                                    if fname not in slot:
                                        slot.append(fname)
                                        changed = True
        if not changed:
            break
    return need, funcs


EXACT_PC_BAD = '''{
    if (PyList_Check(x)) {
        return PyList_GetSlice(x, start, end);
    }
    return generic_slice(x, start, end);
}'''
EXACT_PC_GOOD = '''{
    if (likely(Py_TYPE(x) == &PyList_Type) || PyTuple_CheckExact(x)) {
        return PyList_GetSlice(x, start, end);
    }
    return generic_slice(x, start, end);
}'''


def exact_obligations(d, tt, need):
    """-> {(object, sink): (guards [(predicate, kind)], ok?)} over all variants and paths of d"""
    out = {}
    ptrs = set(pointer_params(d))
    res, notes = explore(d.body)
    for ch, paths in res:
        for state, ex in paths:
            guards = {}
            for it in with_flag_facts(timeline(state)):
                if it[0] == 'fact' and it[2] is True:
                    f = tt.of_fact(it[1])
                    if f:
                        guards.setdefault(f[0], []).append((f[1], f[2]))
                elif it[0] == 'write' and it[1] in guards:
                    del guards[it[1]]
                elif it[0] == 'call':
                    fname, args = it[1], [a.strip() for a in (it[2] or [])]
                    idxs = [0] if LAYOUT_API.match(fname) else sorted(need.get(fname, ())) if fname != d.name else []
                    for i in idxs:
                        if i < len(args) and args[i] in ptrs and guards.get(args[i]):
                            g = guards[args[i]]
                            ok = any(k == 'exact' for _, k in g)
                            cur = out.get((args[i], fname))
                            if cur is None or (cur[1] and not ok):
                                out[(args[i], fname)] = (list(g), ok)
    return out, notes


def rule_exact(ctx, floor=4):
    r = Rule('C31-EXACT', 'a type test of a helper parameter (the subject) that selects the path on which the parameter is handed to the concrete-layout C-API (PyDict_*, PyList_*, '
             'PyTuple_*, PySet_*; directly or through another MatchCase.c helper) is an EXACT type test in every #if variant of its definition: for instances of subclasses these '
             'functions bypass the overridable methods (get, __len__, __getitem__, keys) CPython\'s match statement calls', floor)
    tt = TypeTests(ctx)
    need, funcs = layout_needs(ctx, tt)
    for d in funcs.values():
        obl, notes = exact_obligations(d, tt, need)
        for n in notes:
            r.info('%s: %s' % (d.name, n))
        for (obj, sink), (g, ok) in sorted(obl.items()):
            key = '%s:%s:%s->%s' % (CFILE, d.name, obj, sink)
            r.inst(key, sample='%s: %s(%s ...) behind %s' % (d.name, sink, obj, ['%s [%s]' % x for x in g]))
            if not ok:
                r.violate(key, REL_C, d.line, '%s hands its parameter `%s` to %s on a path selected only by %s, which also accepts instances of SUBCLASSES: for such a subject the '
                          'concrete-layout API reads the underlying storage and bypasses the methods the subclass overrides (CPython looks keys up through subject.get(), takes '
                          'len(subject), iterates / indexes the subject) — a different case is selected, other values are bound, the overriding methods are not called; only an exact '
                          'type test (…_CheckExact / Py_IS_TYPE) may select this path' % (d.name, obj, sink, ' and '.join('%s(%s) [%s%s]' % (p, obj, k, (': ' + tt.why[p]) if p in tt.why else '') for p, k in g)))
    pb = CDeclMock('f', ['PyObject *x', 'Py_ssize_t start', 'Py_ssize_t end'], EXACT_PC_BAD, ret='PyObject *')
    pg = CDeclMock('f', ['PyObject *x', 'Py_ssize_t start', 'Py_ssize_t end'], EXACT_PC_GOOD, ret='PyObject *')
    ob, _ = exact_obligations(pb, tt, {})
    og, _ = exact_obligations(pg, tt, {})
    r.positive_control(bool(ob) and not any(ok for _, ok in ob.values()) and bool(og) and all(ok for _, ok in og.values()) and
                       tt.of_name('PyDict_CheckExact') == 'exact' and tt.of_name('PyDict_Check') == 'inexact',
                       'PyList_Check(x) before PyList_GetSlice(x) recognised as inexact; Py_TYPE(x) == &T || …_CheckExact(x) accepted')
    return r


# ====================================================================================================== C31-SUBORDER (pending finding, FINDING_1 of /tmp/strengthen6/I3)
def _and_leaves(node):
    """operands of a (nested) `and` tree, left to right"""
    if ctor_is(node, 'BinopNode') and node.__dict__.get('operator') == 'and':
        return _and_leaves(node.__dict__.get('operand1')) + _and_leaves(node.__dict__.get('operand2'))
    return [node]


def suborder_of(sym, npos, nkw):
    """owners ('pos0', 'kw1' ...) of the sub-pattern tests of ClassPatternNode.get_comparison_node in evaluation order"""
    c = sym.cls('ClassPatternNode')
    f_assign = sym.method(c, 'create_main_pattern_assignment_list')[1]
    f_cmp = sym.method(c, 'get_comparison_node')[1]
    pos_recs = [Rec('pos%d' % i) for i in range(npos)]
    kw_recs = [Rec('kw%d' % i) for i in range(nkw)]
    names = [NS('name%d' % i, _ctor='MockName', name='attr%d' % i, pos='POSN%d' % i, analyse_declarations=lambda env: None) for i in range(nkw)]
    class_ = NS('class_', _ctor='MockClassRef', type=NS('t'), pos='POSC', clone_node=None)
    o = sym.obj(c, pos='POS', class_=class_, positional_patterns=[x.ns for x in pos_recs], keyword_pattern_names=list(names),
                keyword_pattern_patterns=[x.ns for x in kw_recs], class_known_type=None, as_targets=[])
    subj = subject_mock(sym)
    sym.run('ClassPatternNode.create_main_pattern_assignment_list', f_assign, [o, subj, NS('env')])
    cmp_ = sym.run('ClassPatternNode.get_comparison_node', f_cmp, [o, subj, None])
    roots = [x for x in walk_ns(cmp_) if ctor_is(x, 'BinopNode') and x.__dict__.get('operator') == 'and']
    if not roots:
        raise AnalysisError('ClassPatternNode.get_comparison_node no longer builds an `and` chain of its tests')
    leaves = _and_leaves(roots[0])
    return [x.__dict__.get('owner') for x in leaves if ctor_is(x, 'MockTest')], f_cmp.lineno


def rule_suborder(ctx, sym=None, floor=4):
    """pending finding (FINDING_1): fires on ClassPatternNode.make_subpattern_checks of the unmodified tree (keyword sub-patterns are matched before the positional ones)"""
    sym = sym or Sym(ctx)
    r = Rule('C31-SUBORDER', 'class patterns: the sub-patterns are matched against the extracted attributes in CPython\'s order — positional sub-patterns left to right, then keyword '
             'sub-patterns left to right (the first failing sub-pattern ends the match, so the order decides which __eq__ / nested lookups run)', floor)
    for npos, nkw in ((1, 1), (2, 1), (1, 2), (2, 2), (2, 0), (0, 2)):
        got, line = suborder_of(sym, npos, nkw)
        want = ['pos%d' % i for i in range(npos)] + ['kw%d' % i for i in range(nkw)]
        key = '%s.ClassPatternNode:subpattern-order' % MOD
        r.inst('%s:%d+%d' % (key, npos, nkw), sample='C(%d positional, %d keyword): tests in order %s' % (npos, nkw, got))
        if got != want and not r.findings:                       # (one report; evaluation goes on so that the instance count does not depend on the outcome)
            r.violate(key, sym.m.rel, line, 'class pattern with %d positional and %d keyword sub-pattern(s): the sub-patterns are tested in the order %s, CPython tests %s — for '
                      '`case P(0, b=1)` the comparison b == 1 runs (and can end the match) before a == 0: other __eq__ methods / nested attribute lookups are called' % (npos, nkw, got, want))
    r.positive_control(_and_leaves(NS('b', _ctor='BinopNode', operator='and', operand1=NS('b2', _ctor='BinopNode', operator='and', operand1=1, operand2=2), operand2=3)) == [1, 2, 3],
                       'left-to-right flattening of a nested `and` tree')
    return r
