"""Helpers for property C14 (optimised loops): typestate of the C container-iteration helpers (clang AST), the
return-value protocol between those helpers and the *IterationNextNode emitters, the for-from relation tables,
symbolic comparison of the two reversed-range start formulas, the loop-label protocol of the loop statement nodes,
directive pinning of synthesised arithmetic nodes and the `reversed` guard discipline of IterationTransform.

Everything here reads source text / ASTs below ctx.repo; nothing from the repository is imported or executed.
"""
import ast, itertools, re

from ..core import Rule, AnalysisError, node_src
from ..engine import pyflow, tables
from ..engine.absint import clang_function_ast, c_walk, c_strip, c_name
from ..engine.pyindex import walk_no_nested, is_self_attr
from .iface import str_template, PLACEHOLDER

# CPython C-API functions that walk the internal table of a live container and therefore must not be used on a
# container that may have been resized since the walk started (C-API reference: PyDict_Next "The dictionary p should
# not be mutated during iteration"; _PySet_NextEntry is the set counterpart used by CPython's own set iterator).
RAW_WALKERS = {'PyDict_Next': 'dict', '_PySet_NextEntry': 'set'}

C_KEYWORDS = {'if', 'while', 'for', 'switch', 'return', 'sizeof', 'do', 'else', 'case', 'goto', 'defined'}
KNOWN_C_TYPES = {'PyObject', 'Py_ssize_t', 'Py_hash_t', 'int', 'long', 'char', 'const', 'void', 'unsigned', 'double', 'size_t', 'short', 'signed'}


def reference_exception(kind):
    """The exception type the running interpreter raises when a container of `kind` is resized while iterated."""
    c = {1: 1, 2: 2} if kind == 'dict' else {1, 2}
    try:
        for k in c:
            if kind == 'dict':
                c[k + 10] = 1
            else:
                c.add(k + 10)
    except Exception as e:      # noqa - the reference behaviour is exactly what is wanted
        return type(e).__name__
    raise AnalysisError('reference interpreter does not raise on %s mutation during iteration' % kind)


# ------------------------------------------------------------------------------------------------ iteration sections
def iteration_sections(ctx, classes):
    """Utility sections (file, name) loaded by the given node classes through UtilityCode.load_cached("N", "F") in
    their generate_execution_code, closed under @requires inside the same file."""
    out = []
    for c in classes:
        fn = c.methods.get('generate_execution_code')
        if fn is None:
            raise AnalysisError('%s.generate_execution_code vanished' % c.qual)
        for n in walk_no_nested(fn):
            if isinstance(n, ast.Call) and isinstance(n.func, ast.Attribute) and n.func.attr in ('load_cached', 'load') and len(n.args) >= 2:
                a, b = tables.literal(n.args[0]), tables.literal(n.args[1])
                if isinstance(a, str) and isinstance(b, str):
                    for f2, n2 in ctx.cat.closure(b, a):
                        if f2 == b and (f2, n2) not in out:
                            out.append((f2, n2))
    return out


def section_functions(ctx, sections):
    want = set(sections)
    out = []
    for name, decls in ctx.cat.decls.items():
        for d in decls:
            if d.kind == 'func' and d.body and (d.file, d.section.name) in want:
                out.append(d)
    return sorted(out, key=lambda d: (d.file, d.line))


# ------------------------------------------------------------------------------------------------ clang snippet
def _strip_strings(text):
    return re.sub(r'"(?:\\.|[^"\\])*"', '""', text)


def config_space(body):
    """Preprocessor/configuration macros used as *values* in a C function body -> {name: [values]}.
    Macros compared with a numeric literal get the values around each threshold, others 0/1."""
    txt = _strip_strings(body)
    in_if = set()
    for ln in txt.split('\n'):
        m = re.match(r'\s*#\s*(?:if|elif)\b(.*)', ln)
        if m:
            in_if |= set(re.findall(r'\b[A-Z][A-Z0-9_]{2,}\b', m.group(1)))
    names = set(in_if)
    for m in re.finditer(r'\b((?:CYTHON|PY)_[A-Z0-9_]+)\b(?!\s*\()', txt):
        names.add(m.group(1))
    names -= {'NULL'}
    space = {}
    for n in sorted(names):
        th = set()
        for m in re.finditer(r'\b%s\s*(?:>=|<=|==|!=|<|>)\s*(0[xX][0-9a-fA-F]+|\d+)' % re.escape(n), txt):
            th.add(int(m.group(1), 0))
        if th:
            vals = set()
            for t in th:
                vals |= {t - 1, t}
            if re.search(r'\b%s\s*(?:==|!=|<=|>)' % re.escape(n), txt):
                vals |= {t + 1 for t in th}
            space[n] = sorted(v for v in vals if v >= 0)
        else:
            space[n] = [0, 1]
    return space


def build_snippet(ctx, d, config):
    """A self-contained translation unit for one utility function under one configuration."""
    body = d.body
    head_txt = '%s %s(%s)' % (d.ret, d.name, ', '.join(d.params or []))
    lines = ['typedef struct _object PyObject;', 'typedef long Py_ssize_t;', 'typedef long Py_hash_t;',
             '#define NULL ((void*)0)', '#define likely(x) (x)', '#define unlikely(x) (x)', '#define assert(x) ((void)(x))']
    for k, v in sorted(config.items()):
        lines.append('#define %s %d' % (k, v))
    defined = set(config) | {'likely', 'unlikely', 'assert'}
    # attribute-like macros in the function head (CYTHON_INLINE, CYTHON_NCP_UNUSED, ...) expand to nothing
    for m in sorted(set(re.findall(r'\b(CYTHON_[A-Z0-9_]+)\b', head_txt))):
        if m not in defined:
            lines.append('#define %s' % m)
            defined.add(m)
    txt = _strip_strings(body)
    # function-like all-caps CYTHON_ helpers (CYTHON_UNUSED_VAR(x), ...) -> evaluate the argument, nothing else
    for m in sorted(set(re.findall(r'\b(CYTHON_[A-Z0-9_]+)\s*\(', txt))):
        if m not in defined:
            lines.append('#define %s(x) ((void)(x))' % m)
            defined.add(m)
    api = tables.cpython_api()
    for m in sorted(set(re.findall(r'\b(PyExc_\w+)\b', txt))):
        lines.append('extern PyObject *%s;' % m)
    called = set(re.findall(r'\b([A-Za-z_]\w*)\s*\(', txt)) - C_KEYWORDS - defined - {d.name}
    for name in sorted(called):
        proto = None
        if name in api:
            ret, params = api[name]
            words = set(re.findall(r'[A-Za-z_]\w*', ret + ' ' + ' '.join(re.sub(r'\b[a-z_]\w*\s*$', '', p) for p in params)))
            if words <= KNOWN_C_TYPES:
                proto = '%s %s(%s);' % (ret, name, ', '.join(params) if params else 'void')
        if proto is None:
            ptr = any(dd.ret and '*' in dd.ret for dd in ctx.cat.decls.get(name, []) if dd.kind in ('func', 'proto'))
            proto = ('void *%s();' if ptr else 'long %s();') % name
        lines.append(proto)
    lines.append(head_txt + ' ' + body)
    return '\n'.join(lines) + '\n'


# ------------------------------------------------------------------------------------------------ S2 typestate
class Unsupported(Exception):
    pass


def _callee(n):
    if n.get('kind') != 'CallExpr' or not n.get('inner'):
        return None
    return c_name(n['inner'][0])


def _call_args(n):
    return n['inner'][1:]


def _neg_const(e):
    e = c_strip(e)
    if e.get('kind') == 'UnaryOperator' and e.get('opcode') == '-':
        v = c_strip(e['inner'][0])
        if v.get('kind') == 'IntegerLiteral':
            return -int(v['value'], 0)
    if e.get('kind') == 'IntegerLiteral':
        return int(e['value'], 0)
    return None


def size_test(cond, int_params, ptr_params):
    """('ne'|'eq', container) if `cond` compares a by-value integer parameter with a call on a pointer parameter."""
    cond = c_strip(cond)
    k = cond.get('kind')
    if k == 'CallExpr' and _callee(cond) == '__builtin_expect':
        return size_test(_call_args(cond)[0], int_params, ptr_params)
    if k == 'UnaryOperator' and cond.get('opcode') == '!':
        r = size_test(cond['inner'][0], int_params, ptr_params)
        if r:
            return ('eq' if r[0] == 'ne' else 'ne', r[1])
        return None
    if k == 'BinaryOperator' and cond.get('opcode') in ('!=', '=='):
        a, b = cond['inner']
        for x, y in ((a, b), (b, a)):
            if c_name(x) in int_params and c_strip(y).get('kind') == 'CallExpr':
                cont = [c_name(arg) for arg in _call_args(c_strip(y)) if c_name(arg) in ptr_params]
                if len(cont) == 1:
                    return ('ne' if cond['opcode'] == '!=' else 'eq', cont[0])
    return None


def fails_with(stmt, exc_cname):
    """Every path through `stmt` ends in `return <negative constant>` and the block raises `exc_cname`. -> (ok, why)"""
    def all_return_negative(s):
        k = s.get('kind')
        if k == 'ReturnStmt':
            v = _neg_const(s['inner'][0]) if s.get('inner') else None
            return v is not None and v < 0
        if k == 'CompoundStmt':
            inner = s.get('inner') or []
            return bool(inner) and all_return_negative(inner[-1])
        if k == 'IfStmt':
            inner = s['inner']
            return len(inner) > 2 and all_return_negative(inner[1]) and all_return_negative(inner[2])
        return False
    if not all_return_negative(stmt):
        return False, 'does not return a negative error code on every path'
    raised = set()
    for n in c_walk(stmt):
        cn = _callee(n)
        if cn and cn.startswith('PyErr_'):
            for a in _call_args(n):
                if (c_name(a) or '').startswith('PyExc_'):
                    raised.add(c_name(a))
    if exc_cname not in raised:
        return False, 'raises %s instead of %s' % (sorted(raised) or 'nothing', exc_cname)
    return True, ''


def s2_function(ast_fn, walker, exc_cname):
    """Typestate over the structured statements of one clang function AST.
    -> (number of walker calls seen, [problem text])"""
    params = [c for c in ast_fn.get('inner', []) if c.get('kind') == 'ParmVarDecl']
    int_params = {p['name'] for p in params if '*' not in p['type']['qualType']}
    ptr_params = {p['name'] for p in params if '*' in p['type']['qualType']}
    body = [c for c in ast_fn['inner'] if c.get('kind') == 'CompoundStmt'][0]
    problems, seen, notes = [], [0], []

    def scan_expr(e, state):
        for n in c_walk(e):
            if _callee(n) == walker:
                seen[0] += 1
                args = _call_args(n)
                cont = c_name(args[0]) if args else None
                if ('checked', cont) not in state:
                    why = '; '.join(notes) if notes else 'no comparison of the remembered length with the current size precedes it'
                    problems.append('%s(%s, ...) is reached on a path where the container was not verified to still have its original size (%s)'
                                    % (walker, cont, why))

    def run(s, states):
        """-> set of states that fall through"""
        k = s.get('kind')
        if k == 'CompoundStmt':
            cur = states
            for ch in s.get('inner') or []:
                if not cur:
                    break
                cur = run(ch, cur)
            return cur
        if k == 'IfStmt':
            inner = s['inner']
            cond, then = inner[0], inner[1]
            els = inner[2] if len(inner) > 2 else None
            for st in states:
                scan_expr(cond, st)
            t_states, f_states = set(states), set(states)
            st_ = size_test(cond, int_params, ptr_params)
            if st_:
                changed, same = (then, els) if st_[0] == 'ne' else (els, then)
                if changed is None:
                    notes.append('the size comparison on %s has no branch for the changed case' % st_[1])
                else:
                    ok, why = fails_with(changed, exc_cname)
                    if ok:
                        add = {('checked', st_[1])}
                        if st_[0] == 'ne':
                            f_states = {st | add for st in states}
                        else:
                            t_states = {st | add for st in states}
                    else:
                        notes.append('the size-changed branch %s' % why)
            out = run(then, t_states)
            out |= run(els, f_states) if els is not None else f_states
            return out
        if k == 'ReturnStmt':
            for st in states:
                scan_expr(s, st)
            return set()
        if k in ('WhileStmt', 'ForStmt', 'DoStmt'):
            for st in states:
                scan_expr(s, st)       # conservatively: everything inside is evaluated in the entry state
            return set(states)
        if k in ('GotoStmt', 'LabelStmt', 'SwitchStmt', 'IndirectGotoStmt'):
            raise Unsupported(k)
        for st in states:
            scan_expr(s, st)
        return set(states)

    run(body, {frozenset()})
    return seen[0], sorted(set(problems))


S2_CONTROL = ('typedef struct _object PyObject; typedef long Py_ssize_t; extern PyObject *PyExc_RuntimeError;\n'
              'int PyDict_Next(PyObject *, Py_ssize_t *, PyObject **, PyObject **); Py_ssize_t PyDict_Size(PyObject *); void PyErr_SetString(PyObject *, const char *);\n'
              'static int pc_fn(PyObject *d, Py_ssize_t orig, Py_ssize_t *pos) { PyObject *k, *v;\n'
              '  if (!PyDict_Next(d, pos, &k, &v)) return 0;\n'
              '  if (orig != PyDict_Size(d)) { PyErr_SetString(PyExc_RuntimeError, "x"); return -1; }\n  return 1; }\n')


def rule_S2(ctx, funcs):
    r = Rule('C14-S2', 'in the dict/set iteration helpers every path to PyDict_Next/_PySet_NextEntry first compares the remembered '
             'length with the current size and otherwise raises RuntimeError and returns a negative code (each preprocessor configuration)', floor=2)
    found = {w: 0 for w in RAW_WALKERS}
    jobs = []
    for d in funcs:
        for walker, kind in RAW_WALKERS.items():
            if not re.search(r'\b%s\s*\(' % re.escape(walker), _strip_strings(d.body)):
                continue
            space = config_space(d.body)
            names = sorted(space)
            for combo in itertools.product(*[space[n] for n in names]):
                jobs.append((d, walker, kind, dict(zip(names, combo))))
    # clang is only a parser here; the parses are independent, run them concurrently
    from concurrent.futures import ThreadPoolExecutor
    with ThreadPoolExecutor(max_workers=8) as ex:
        snippets = [(j[0].name, build_snippet(ctx, j[0], j[3])) for j in jobs] + [('pc_fn', S2_CONTROL)]
        asts = list(ex.map(lambda ns: clang_function_ast(ns[1], ns[0], prelude=''), snippets))
    pc_ast = asts.pop()
    for (d, walker, kind, config), fast in zip(jobs, asts):
        exc = 'PyExc_' + reference_exception(kind)
        try:
            seen, problems = s2_function(fast, walker, exc)
        except Unsupported as e:
            raise AnalysisError('%s uses control flow the typestate walker does not model (%s)' % (d.name, e))
        if not seen:
            continue
        found[walker] += seen
        cfg = ','.join('%s=%s' % (k, hex(v) if v > 9 else v) for k, v in sorted(config.items()))
        key = '%s:%s[%s]' % (d.name, walker, cfg)
        r.inst(key, sample='%s under %s: %d call(s) of %s' % (d.name, cfg or 'any configuration', seen, walker))
        for p in problems:
            r.violate('%s:%s' % (d.name, walker), 'Cython/Utility/' + d.file, d.line,
                      '%s [%s]: %s — resizing the %s inside the loop body would walk a reallocated table instead of raising %s'
                      % (d.name, cfg, p, kind, exc[6:]))
    for w, n in found.items():
        if not n:
            raise AnalysisError('no call of %s found in the iteration helper sections (anchor vanished)' % w)
    # positive control: the check sits after the walk
    seen, problems = s2_function(pc_ast, 'PyDict_Next', 'PyExc_RuntimeError')
    r.positive_control(seen == 1 and bool(problems), 'size test after PyDict_Next')
    return r


# ------------------------------------------------------------------------------------------------ return protocol
def return_constants(ctx, d, depth=0, seen=None):
    """Integer constants a C helper can return, following `return f(...)` and `x = f(...); return x` into helpers
    defined in the utility library.  -> (set of ints, set of unresolved expression texts)"""
    seen = seen if seen is not None else set()
    if d.name in seen or depth > 4:
        return set(), set()
    seen.add(d.name)
    consts, unknown = set(), set()
    body = _strip_strings(d.body)
    for m in re.finditer(r'\breturn\b\s*([^;]*);', body):
        e = m.group(1).strip()
        while e.startswith('(') and e.endswith(')'):
            e = e[1:-1].strip()
        if re.fullmatch(r'-?\s*\d+', e):
            consts.add(int(e.replace(' ', '')))
            continue
        callee = None
        mc = re.fullmatch(r'([A-Za-z_]\w*)\s*\(.*\)', e, re.S)
        if mc:
            callee = mc.group(1)
        elif re.fullmatch(r'[A-Za-z_]\w*', e):
            rhs = [re.fullmatch(r'([A-Za-z_]\w*)\s*\(.*\)', x.strip(), re.S)
                   for x in re.findall(r'(?<![\w.>])%s\s*=(?!=)\s*([^;]*);' % re.escape(e), body)]
            if rhs and all(rhs) and len({x.group(1) for x in rhs}) == 1:
                callee = rhs[0].group(1)
        sub = [x for x in ctx.cat.decls.get(callee, []) if x.kind == 'func' and x.body] if callee else []
        if sub:
            for x in sub:
                c2, u2 = return_constants(ctx, x, depth + 1, seen)
                consts |= c2
                unknown |= u2
        else:
            unknown.add(e)
    return consts, unknown


def _parse_c_test(text):
    """`§ == -1`, `unlikely(§ == 0)`, `!§`, `§ < 0` -> predicate on an int, or None."""
    t = text.strip()
    while True:
        m = re.fullmatch(r'(?:un)?likely\s*\((.*)\)', t, re.S)
        if m:
            t = m.group(1).strip()
            continue
        if t.startswith('(') and t.endswith(')'):
            t = t[1:-1].strip()
            continue
        break
    P = re.escape(PLACEHOLDER)
    if re.fullmatch(r'!\s*' + P, t):
        return lambda v: v == 0
    if re.fullmatch(P, t):
        return lambda v: v != 0
    m = re.fullmatch(P + r'\s*(==|!=|<=|>=|<|>)\s*(-?\s*\d+)', t)
    if m:
        c = int(m.group(2).replace(' ', ''))
        op = m.group(1)
        return {'==': lambda v: v == c, '!=': lambda v: v != c, '<': lambda v: v < c, '<=': lambda v: v <= c,
                '>': lambda v: v > c, '>=': lambda v: v >= c}[op]
    return None


def result_dispatch(fn, helper):
    """In an emitter method: the ordered list of (action, predicate, text, line) applied to the variable that receives the
    result of the emitted call `X = helper(...)`.  action in {'break', 'error'}."""
    var = None
    stmts = sorted([n for n in walk_no_nested(fn) if isinstance(n, ast.Call)], key=lambda n: (n.lineno, n.col_offset))
    for n in stmts:
        for a in n.args:
            t = str_template(a)
            if t and re.match(r'\s*%s\s*=\s*%s\s*\(' % (re.escape(PLACEHOLDER), re.escape(helper)), t[0]) and t[1] and isinstance(t[1][0], ast.Name):
                var = t[1][0].id
    if var is None:
        return None, []
    out = []
    for n in stmts:
        if not (isinstance(n.func, ast.Attribute)):
            continue
        name = n.func.attr
        if name in ('error_goto_if', 'error_goto_if_neg', 'error_goto_if_null') and n.args:
            t = str_template(n.args[0])
            if isinstance(n.args[0], ast.Name) and n.args[0].id == var:
                t = (PLACEHOLDER, [n.args[0]])
            if t and len(t[1]) == 1 and isinstance(t[1][0], ast.Name) and t[1][0].id == var:
                text = t[0] if name == 'error_goto_if' else (t[0] + (' < 0' if name == 'error_goto_if_neg' else ' == 0'))
                out.append(('error', _parse_c_test(text), text, n.lineno))
        elif name in ('putln', 'put') and n.args:
            t = str_template(n.args[0])
            if t and len(t[1]) == 1 and isinstance(t[1][0], ast.Name) and t[1][0].id == var:
                m = re.fullmatch(r'\s*if\s*\((.*)\)\s*break\s*;\s*', t[0], re.S)
                if m:
                    out.append(('break', _parse_c_test(m.group(1)), m.group(1), n.lineno))
    return var, out


def classify(dispatch, v):
    for action, pred, text, line in dispatch:
        if pred(v):
            return action
    return 'continue'


# ------------------------------------------------------------------------------------------------ small evaluator
def eval_decision(fn, env):
    """Evaluate a pure decision function (nested if/else on its parameters, returning constant tuples)."""
    def ev(e):
        if isinstance(e, ast.Name):
            if e.id in env:
                return env[e.id]
            raise AnalysisError('%s reads %s, not a parameter: no longer a pure decision table' % (fn.name, e.id))
        if isinstance(e, ast.UnaryOp) and isinstance(e.op, ast.Not):
            return not ev(e.operand)
        if isinstance(e, ast.BoolOp):
            vals = [ev(v) for v in e.values]
            return all(vals) if isinstance(e.op, ast.And) else any(vals)
        if isinstance(e, ast.Compare) and len(e.ops) == 1 and isinstance(e.ops[0], (ast.Eq, ast.NotEq, ast.Is, ast.IsNot)):
            a, b = ev(e.left), ev(e.comparators[0])
            return (a == b) == isinstance(e.ops[0], (ast.Eq, ast.Is))
        v = tables.literal(e)
        if v is not None or (isinstance(e, ast.Constant) and e.value is None):
            return v
        raise AnalysisError('%s: expression %s is outside the decision-table fragment' % (fn.name, node_src(e)))

    def block(stmts):
        for s in stmts:
            if isinstance(s, ast.If):
                r = block(s.body if ev(s.test) else s.orelse)
                if r is not None:
                    return r
            elif isinstance(s, ast.Return):
                return ('ret', ev(s.value) if s.value is not None else None)
            elif isinstance(s, ast.Expr) and isinstance(s.value, ast.Constant):
                continue
            else:
                raise AnalysisError('%s: statement %s is outside the decision-table fragment' % (fn.name, node_src(s)))
        return None
    r = block(fn.body)
    return r[1] if r else None


# ------------------------------------------------------------------------------------------------ SIB: symbolic trees
COMMUTATIVE = {'+', '*'}
PY_OPS = {ast.Add: '+', ast.Sub: '-', ast.Mult: '*', ast.FloorDiv: '//', ast.Div: '/', ast.Mod: '%'}


def canon(t):
    if isinstance(t, tuple) and t and t[0] == 'op':
        a, b = canon(t[2]), canon(t[3])
        if t[1] in COMMUTATIVE and repr(b) < repr(a):
            a, b = b, a
        return ('op', t[1], a, b)
    return t


def show(t):
    if isinstance(t, tuple) and t and t[0] == 'op':
        return '(%s %s %s)' % (show(t[2]), t[1], show(t[3]))
    if isinstance(t, tuple):
        return str(t[1])
    return str(t)


def branch_envs(fn, test_name):
    """For a function that assigns names in `if <test on test_name>: ... else: ...` blocks: ({name: expr} when the
    test is true, same when false), for every such if; earlier plain assignments are included in both."""
    t_env, f_env = {}, {}
    for s in fn.body:
        if isinstance(s, ast.Assign) and len(s.targets) == 1 and isinstance(s.targets[0], ast.Name):
            t_env[s.targets[0].id] = s.value
            f_env[s.targets[0].id] = s.value
        elif isinstance(s, ast.If) and any(isinstance(x, ast.Name) and x.id == test_name for x in ast.walk(s.test)):
            for body, env in ((s.body, t_env), (s.orelse, f_env)):
                for a in body:
                    if isinstance(a, ast.Assign) and len(a.targets) == 1 and isinstance(a.targets[0], ast.Name):
                        env[a.targets[0].id] = a.value
    return t_env, f_env


def py_formula(e, env, leaf, depth=0):
    """Python arithmetic expression -> symbolic tree; names are resolved through env, leaves through leaf()."""
    if depth > 12:
        raise AnalysisError('formula too deep')
    l = leaf(e)
    if l is not None:
        return l
    if isinstance(e, ast.BinOp) and type(e.op) in PY_OPS:
        return ('op', PY_OPS[type(e.op)], py_formula(e.left, env, leaf, depth + 1), py_formula(e.right, env, leaf, depth + 1))
    if isinstance(e, ast.Constant) and isinstance(e.value, int):
        return ('const', e.value)
    if isinstance(e, ast.Name) and e.id in env:
        return py_formula(env[e.id], env, leaf, depth + 1)
    raise AnalysisError('cannot interpret %s as an arithmetic formula' % node_src(e))


def node_formula(e, env, leaf, binop_classes, problems, depth=0):
    """Expression that *constructs* arithmetic nodes (ExprNodes.binop_node / MulNode / DivNode / SubNode /
    IntNode.for_int ...) -> symbolic tree of the run-time expression it denotes."""
    if depth > 14:
        raise AnalysisError('node construction too deep')
    l = leaf(e)
    if l is not None:
        return l
    if isinstance(e, ast.Name) and e.id in env:
        return node_formula(env[e.id], env, leaf, binop_classes, problems, depth + 1)
    if isinstance(e, ast.Call):
        fname = e.func.attr if isinstance(e.func, ast.Attribute) else getattr(e.func, 'id', None)
        kw = {k.arg: k.value for k in e.keywords if k.arg}
        recv = e.func.value if isinstance(e.func, ast.Attribute) else None
        if fname in ('for_int', 'for_size') and isinstance(recv, ast.Attribute) and recv.attr == 'IntNode' or \
                fname in ('for_int', 'for_size') and isinstance(recv, ast.Name) and recv.id == 'IntNode':
            if len(e.args) < 2:
                raise AnalysisError('IntNode.%s without a value' % fname)
            return py_formula(e.args[1], env, leaf, depth + 1)
        if fname == 'binop_node' or (fname and fname.endswith('Node') and 'operand1' in kw and 'operand2' in kw):
            if fname == 'binop_node':
                args = list(e.args)
                op_e = kw.get('operator') or (args[1] if len(args) > 1 else None)
                o1 = kw.get('operand1') or (args[2] if len(args) > 2 else None)
                o2 = kw.get('operand2') or (args[3] if len(args) > 3 else None)
            else:
                op_e, o1, o2 = kw.get('operator'), kw['operand1'], kw['operand2']
            ops = None
            if op_e is not None:
                oe = op_e
                if isinstance(oe, ast.Name) and oe.id in env:
                    oe = env[oe.id]
                v = tables.literal(oe)
                ops = v if isinstance(v, str) else None
            if ops is None:
                raise AnalysisError('operator of %s is not a resolvable constant' % node_src(e, 60))
            if fname != 'binop_node':
                want = binop_classes.get(ops)
                if want is not None and want != fname:
                    problems.append('%s(...) is constructed with operator %r, but binop_node_classes maps %r to %s: the node would generate code for a different operation'
                                    % (fname, ops, ops, want))
            return ('op', ops, node_formula(o1, env, leaf, binop_classes, problems, depth + 1),
                    node_formula(o2, env, leaf, binop_classes, problems, depth + 1))
    raise AnalysisError('cannot interpret %s as a node construction' % node_src(e, 80))


# ------------------------------------------------------------------------------------------------ LOOP protocol
def _is_code_call(c, name):
    return isinstance(c, ast.Call) and isinstance(c.func, ast.Attribute) and c.func.attr == name and \
        isinstance(c.func.value, ast.Name) and c.func.value.id == 'code'


def _is_code_attr(e, name):
    return isinstance(e, ast.Attribute) and e.attr == name and isinstance(e.value, ast.Name) and e.value.id == 'code'


def _gen_exec_on(c, attr):
    """self.<attr>.generate_execution_code(code)"""
    return isinstance(c, ast.Call) and isinstance(c.func, ast.Attribute) and c.func.attr == 'generate_execution_code' and \
        is_self_attr(c.func.value) and c.func.value.attr == attr


def loop_protocol(fn, body_attr='body', else_attr='else_clause'):
    """Problems in the label protocol of one loop statement's generate_execution_code.  -> (problems {code: text}, facts seen)"""
    def transfer(node, state):
        s = set(state)
        new = any(isinstance(f, tuple) and f[0] == 'new' for f in s)
        if isinstance(node, ast.Assign) and len(node.targets) == 1 and isinstance(node.targets[0], ast.Name):
            t = node.targets[0].id
            if _is_code_call(node.value, 'new_loop_labels'):
                s.add(('new', t))
                return frozenset(s)
            if _is_code_attr(node.value, 'break_label') and new:
                s.add(('brk', t))
                return frozenset(s)
        for c in pyflow.calls_in(node):
            new = any(isinstance(f, tuple) and f[0] == 'new' for f in s)
            if _is_code_call(c, 'set_loop_labels') and c.args and isinstance(c.args[0], ast.Name):
                s = {f for f in s if not (isinstance(f, tuple) and f[0] == 'new' and f[1] == c.args[0].id)}
            elif _is_code_call(c, 'label_interceptor') and len(c.args) >= 2 and new:
                a, b = c.args[0], c.args[1]
                if isinstance(a, (ast.List, ast.Tuple)) and isinstance(b, (ast.List, ast.Tuple)) and len(a.elts) == len(b.elts):
                    for x, y in zip(a.elts, b.elts):
                        if _is_code_attr(x, 'break_label') and isinstance(y, ast.Name):
                            s.add(('brk', y.id))
            elif _gen_exec_on(c, body_attr):
                if not new:
                    s.add(('BAD', 'body-outside'))
                s.add('body')
            elif _gen_exec_on(c, else_attr):
                if new:
                    s.add(('BAD', 'else-inside'))
                if 'brkput' in s:
                    s.add(('BAD', 'break-before-else'))
                s.add('else')
            elif _is_code_call(c, 'put_label') and c.args:
                a = c.args[0]
                if _is_code_attr(a, 'continue_label'):
                    if not new:
                        s.add(('BAD', 'continue-outside'))
                    elif 'body' not in s:
                        s.add(('BAD', 'continue-before-body'))
                    else:
                        s.add('cont')
                elif (isinstance(a, ast.Name) and ('brk', a.id) in s) or (_is_code_attr(a, 'break_label') and new):
                    s.add('brkput')
        return frozenset(s)

    o = pyflow.Flow(transfer).run(fn)
    problems = {}
    TEXT = {
        'body-outside': 'generates the loop body while the loop\'s own break/continue labels are not installed (code.new_loop_labels() missing or already undone): break/continue in the body jump to the enclosing loop',
        'else-inside': 'generates the else clause while the loop\'s own labels are still installed: a `break`/`continue` inside the else clause must belong to the enclosing loop',
        'break-before-else': 'places the break label before the else clause is generated: `break` would run the else clause',
        'continue-outside': 'places code.continue_label after the loop labels were restored: that is the enclosing loop\'s continue label',
        'continue-before-body': 'places the continue label before the loop body: `continue` would re-run the body without advancing',
    }
    exits = o.normal | o.returns
    if not exits:
        raise AnalysisError('%s has no normal exit' % fn.name)
    for st in exits:
        for f in st:
            if isinstance(f, tuple) and f[0] == 'BAD':
                problems[f[1]] = TEXT[f[1]]
        if 'body' not in st:
            problems['no-body'] = 'has an exit path on which the loop body was never generated'
        if 'cont' not in st:
            problems['no-continue'] = 'has an exit path on which code.continue_label was not placed after the body while the loop labels were installed: `continue` jumps to a label that does not exist or to the wrong place'
        if 'brkput' not in st:
            problems['no-break'] = 'has an exit path on which the loop\'s break label (saved from code.break_label / redirected by label_interceptor) was never placed'
        if 'else' not in st and not any(isinstance(f, tuple) and f[0] == '?' and f[1] == 'self.%s' % else_attr and f[2] is False for f in st):
            problems['else-skipped'] = 'has an exit path on which the else clause is not generated although self.%s may be set' % else_attr
    return problems


# ------------------------------------------------------------------------------------------------ REV guards
def implies_false(state, name):
    """Do the branch facts of a pyflow state ('?', test text, truth, names) imply that the variable `name` is false?
    Decided by assuming `name` true and evaluating every recorded test in three-valued logic over the recorded atoms:
    a test whose value then contradicts its recorded truth refutes the assumption."""
    facts = [(f[1], f[2]) for f in state if isinstance(f, tuple) and len(f) == 4 and f[0] == '?']
    atoms = {t: v for t, v in facts}
    if atoms.get(name) is False:
        return True
    if atoms.get(name) is True:
        return False

    def ev(e):
        if isinstance(e, ast.Name) and e.id == name:
            return True
        if isinstance(e, ast.UnaryOp) and isinstance(e.op, ast.Not):
            v = ev(e.operand)
            return None if v is None else not v
        if isinstance(e, ast.BoolOp):
            vals = [ev(v) for v in e.values]
            if isinstance(e.op, ast.And):
                return False if any(v is False for v in vals) else (True if all(v is True for v in vals) else None)
            return True if any(v is True for v in vals) else (False if all(v is False for v in vals) else None)
        return atoms.get(ast.unparse(e))
    for text, truth in facts:
        if name not in text:
            continue
        try:
            e = ast.parse(text, mode='eval').body
        except SyntaxError:
            continue
        if not isinstance(e, (ast.BoolOp, ast.UnaryOp)):
            continue
        v = ev(e)
        if v is not None and v != truth:
            return True
    return False


def reversed_discipline(ix, cls, param='reversed'):
    """For every method of `cls` with a parameter `param`: calls to sibling loop-rewriting methods (first parameter
    `node`) must forward `param` or be reached only where `param` is known false.
    -> list of (method, callee, kind, line, ok, text)"""
    out = []
    methods = {}
    for k in reversed(ix.mro(cls)):
        methods.update(k.methods)
    for mname, fn in sorted(cls.methods.items()):
        pnames = [a.arg for a in fn.args.args]
        if param not in pnames:
            continue
        used = any(isinstance(n, ast.Name) and n.id == param and isinstance(n.ctx, ast.Load) for n in walk_no_nested(fn))
        out.append((mname, None, 'uses', fn.lineno, used,
                    '%s accepts `%s` but never reads it: the reversed loop would run in forward order' % (mname, param)))
        sites = []

        def transfer(node, state, sites=sites):
            for c in pyflow.calls_in(node):
                if isinstance(c.func, ast.Attribute) and isinstance(c.func.value, ast.Name) and c.func.value.id == 'self' and c.func.attr in methods:
                    callee = methods[c.func.attr]
                    cp = [a.arg for a in callee.args.args]
                    if len(cp) < 2 or cp[1] != 'node' or callee is fn and False:
                        continue
                    known_false = implies_false(state, param)
                    passed = None
                    if param in cp:
                        i = cp.index(param) - 1
                        if len(c.args) > i:
                            passed = c.args[i]
                        for k in c.keywords:
                            if k.arg == param:
                                passed = k.value
                    sites.append((c, param in cp, passed, known_false))
            return state
        pyflow.Flow(transfer).run(fn)
        by_call = {}
        for c, has, passed, kf in sites:
            e = by_call.setdefault(id(c), [c, has, passed, True])
            e[3] = e[3] and kf
        for c, has, passed, kf in by_call.values():
            callee = c.func.attr
            if has and passed is not None:
                ok = isinstance(passed, ast.Name) and passed.id == param or kf
                out.append((mname, callee, 'forwards', c.lineno, ok,
                            '%s calls %s with %s=%s instead of forwarding its own `%s`' % (mname, callee, param, node_src(passed, 30), param)))
            elif has:
                out.append((mname, callee, 'forwards', c.lineno, kf,
                            '%s calls %s without forwarding `%s` on a path where it may be true: reversed(...) would be iterated in forward order' % (mname, callee, param)))
            else:
                out.append((mname, callee, 'guarded', c.lineno, kf,
                            '%s reaches %s (which has no `%s` parameter and always iterates forward) on a path where `%s` may be true: '
                            'reversed(...) of this iterable would be iterated in forward order' % (mname, callee, param, param)))
    return out


# ------------------------------------------------------------------------------------------------ PIN
def late_bound_directive_attrs(ix, module='ExprNodes'):
    """{class name: {attr: directive}} for node classes that fill `self.A` from a compiler directive when it is still
    None at analysis/generation time (`if self.A is None: self.A = ...directives['D'] ...`)."""
    out = {}
    m = ix.mod(module)
    for c in m.classes.values():
        for fn in c.methods.values():
            for n in walk_no_nested(fn):
                if not (isinstance(n, ast.If) and isinstance(n.test, ast.Compare) and is_self_attr(n.test.left) and len(n.test.ops) == 1
                        and isinstance(n.test.ops[0], ast.Is) and isinstance(n.test.comparators[0], ast.Constant) and n.test.comparators[0].value is None):
                    continue
                attr = n.test.left.attr
                for s in n.body:
                    if isinstance(s, ast.Assign) and any(is_self_attr(t) and t.attr == attr for t in s.targets):
                        for x in ast.walk(s.value):
                            if isinstance(x, ast.Subscript) and isinstance(x.value, ast.Attribute) and x.value.attr == 'directives' \
                                    and isinstance(x.slice, ast.Constant) and isinstance(x.slice.value, str):
                                out.setdefault(c.name, {})[attr] = x.slice.value
    return out


def binop_class_table(ix, module='ExprNodes'):
    m = ix.mod(module)
    v = tables.module_assign(m.tree, 'binop_node_classes')
    if not isinstance(v, ast.Dict):
        raise AnalysisError('ExprNodes.binop_node_classes vanished')
    out = {}
    for k, val in zip(v.keys, v.values):
        if isinstance(k, ast.Constant) and isinstance(val, ast.Name):
            out[k.value] = val.id
    if len(out) < 10:
        raise AnalysisError('ExprNodes.binop_node_classes has only %d resolvable rows' % len(out))
    return out


def synthesised_sites(ix, late, binops, skip_modules=('Parsing',)):
    """Construction sites of late-bound-directive node classes outside the parser.
    -> list of (module, qualname, fn, call, class name, operator or None)"""
    cone = {}
    en = ix.mod('ExprNodes')
    for cname in late:
        c = en.classes[cname]
        for k in [c] + ix.subclasses(c):
            attrs = {}
            for b in ix.mro(k):
                attrs.update(late.get(b.name, {}))
            cone[k.name] = attrs
    sites = []
    for m in ix.modules.values():
        if not m.name.startswith('Cython.Compiler') or m.short in skip_modules:
            continue
        if not any(tok in m.src for tok in list(cone) + ['binop_node']):
            continue
        for qn, owner, fn in ix.functions_of(m):
            for n in walk_no_nested(fn):
                if not isinstance(n, ast.Call):
                    continue
                fname = n.func.attr if isinstance(n.func, ast.Attribute) else getattr(n.func, 'id', None)
                kw = {k.arg: k.value for k in n.keywords if k.arg}
                if fname in cone:
                    if isinstance(n.func, ast.Attribute) and not (isinstance(n.func.value, ast.Name) and n.func.value.id == 'ExprNodes'):
                        continue
                    op = tables.literal(kw['operator']) if 'operator' in kw else None
                    sites.append((m, qn, fn, n, fname, op if isinstance(op, str) else None))
                elif fname == 'binop_node':
                    op_e = kw.get('operator') or (n.args[1] if len(n.args) > 1 else None)
                    op = tables.literal(op_e) if op_e is not None else None
                    if isinstance(op, str) and binops.get(op) in cone:
                        sites.append((m, qn, fn, n, binops[op], op))
    return sites, cone


def pinned_attrs(fn, call):
    """Attributes fixed for the node built by `call`: constructor keywords plus `N.attr = ...` on the name it is bound to."""
    pinned = {k.arg for k in call.keywords if k.arg}
    if any(k.arg is None for k in call.keywords):
        pinned.add('**')
    for n in walk_no_nested(fn):
        if isinstance(n, ast.Assign) and n.value is call and len(n.targets) == 1 and isinstance(n.targets[0], ast.Name):
            name = n.targets[0].id
            for x in walk_no_nested(fn):
                if isinstance(x, ast.Assign) and x.lineno >= n.lineno:
                    for t in x.targets:
                        if isinstance(t, ast.Attribute) and isinstance(t.value, ast.Name) and t.value.id == name:
                            pinned.add(t.attr)
    return pinned
