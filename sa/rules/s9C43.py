"""C43, round 9: two more "valid text rejected / internal exception" mechanisms of the front end.

  C43-LEXSTATE  product automaton  (lexicon state  x  abstraction {0, 1, >=2} of the replacement-field prescan counter).  The counter
                (discovered: the scanner attribute incremented next to a `self.begin(<constant state>)`) counts the open f-/t-string
                replacement fields whose text is being pre-scanned; its decrementing actions (the ':' and '}' of the field) are bound in
                the prescan state.  The action methods of the lexicon (table parsed from Lexicon.make_lexicon) are executed symbolically
                over the abstraction from the scanner's initial state; every path that leaves the scanner in the DEFAULT state (the state
                of the ordinary token stream, where ':' is punctuation) while the counter is >= 1 is reported: from there the end of the
                field is never seen and a valid nested f-string is rejected ("Unexpected characters after f-string expression").
  C43-JOINGUARD a whole-list consumer `sep.join(L)` of a local list whose admission depends on a None test: the path condition of the
                join is expanded over its atoms; a satisfying assignment that is not protected by an exclusion of None from the WHOLE
                list (`None not in L`, `all(x is not None for x in L)`, `not any(x is None for x in L)`) and that depends on (flipping it
                falsifies the condition) a None test of something else - one element, a slice, the element variable, a sibling list,
                any() - is reported: the join raises TypeError inside the compiler for the remaining None element.
"""
import ast, itertools

from ..core import Rule, AnalysisError
from ..engine import tables
from ..engine.pyindex import walk_no_nested, is_self_attr


def _u(n):
    return ast.unparse(n)


# ====================================================================================================== C43-LEXSTATE
DEFAULT = ''
DYN = '<generated>'


def lexicon_table(ctx):
    """{state name: set of action method names}; states with computed names are merged under DYN"""
    tree = ctx.parse('Cython/Compiler/Lexicon.py')
    mk = tables.find_function(tree, 'make_lexicon')
    if mk is None:
        raise AnalysisError('Lexicon.make_lexicon vanished')
    parent_fn = {}
    for f in ast.walk(mk):
        if isinstance(f, (ast.FunctionDef,)):
            for n in ast.walk(f):
                parent_fn.setdefault(id(n), f) if f is not mk else None
    for n in ast.walk(mk):
        parent_fn.setdefault(id(n), mk)
    # innermost function: walk nested defs last wins
    def innermost(fn):
        for st in ast.walk(fn):
            if isinstance(st, ast.FunctionDef) and st is not fn:
                for n in ast.walk(st):
                    parent_fn[id(n)] = st
                innermost(st)
    innermost(mk)

    def methods_of(e, fn):
        if isinstance(e, ast.Call) and isinstance(e.func, ast.Name) and e.func.id == 'Method':
            if e.args and isinstance(e.args[0], ast.Constant):
                return {e.args[0].value}
            raise AnalysisError('Lexicon: Method() with a computed name: %s' % _u(e))
        if isinstance(e, ast.Name):
            out, seen = set(), False
            for f in (fn, mk):
                for st in ast.walk(f):
                    if isinstance(st, ast.Assign) and any(isinstance(t, ast.Name) and t.id == e.id for t in st.targets):
                        seen = True
                        out |= methods_of(st.value, f)
                if seen:
                    break
            return out
        if isinstance(e, ast.IfExp):
            return methods_of(e.body, fn) | methods_of(e.orelse, fn)
        return set()

    table = {}
    def add_specs(state, lst, fn):
        if not isinstance(lst, (ast.List, ast.Tuple)):
            raise AnalysisError('Lexicon: token list of state %r is not a display' % state)
        for el in lst.elts:
            if isinstance(el, ast.Tuple) and len(el.elts) == 2:
                table.setdefault(state, set()).update(methods_of(el.elts[1], fn))

    top = None
    for n in ast.walk(mk):
        if isinstance(n, ast.Call) and isinstance(n.func, ast.Name):
            if n.func.id == 'Lexicon' and n.args:
                top = n.args[0]
            elif n.func.id == 'State' and len(n.args) == 2:
                nm = n.args[0]
                state = nm.value if isinstance(nm, ast.Constant) and isinstance(nm.value, str) else DYN
                add_specs(state, n.args[1], parent_fn.get(id(n), mk))
    if top is None:
        raise AnalysisError('Lexicon(...) call not found in make_lexicon')
    add_specs(DEFAULT, top, mk)
    return table


class LexModel:
    def __init__(self, ctx, cls=None, table=None):
        ix = ctx.index
        self.ix = ix
        self.cls = cls or ix.cls('Scanning', 'PyrexScanner')
        if self.cls is None:
            raise AnalysisError('Scanning.PyrexScanner vanished')
        self.table = table if table is not None else lexicon_table(ctx)
        self.module = ix.mod('Scanning')
        self.methods = {}
        self.counter, self.s_in = self._discover()
        self.paths = 0

    def method(self, name):
        if name not in self.methods:
            got = self.ix.find_method(self.cls, name)
            self.methods[name] = got[1] if got else None
        return self.methods[name]

    def _begin_call(self, n):
        return isinstance(n, ast.Call) and isinstance(n.func, ast.Attribute) and n.func.attr == 'begin' and is_self_attr(n.func) and len(n.args) == 1

    def _discover(self):
        """counter attribute: `self.X += 1` in the same block as `self.begin(<constant>)`"""
        found = set()
        for st in self.cls.node.body:
            if not isinstance(st, ast.FunctionDef):
                continue
            for blk in ast.walk(st):
                for field in ('body', 'orelse'):
                    seq = getattr(blk, field, None)
                    if not isinstance(seq, list):
                        continue
                    incs = [s.target.attr for s in seq if isinstance(s, ast.AugAssign) and isinstance(s.op, ast.Add) and is_self_attr(s.target)]
                    begs = [s.value.args[0].value for s in seq if isinstance(s, ast.Expr) and self._begin_call(s.value)
                            and isinstance(s.value.args[0], ast.Constant)]
                    for a in incs:
                        for b in begs:
                            found.add((a, b))
        if len(found) != 1:
            raise AnalysisError('C43-LEXSTATE: expected one (counter, state) pair entered together in PyrexScanner, found %s' % sorted(found))
        return next(iter(found))

    # ---- evaluation of expressions over the counter abstraction
    def counter_test(self, e, c):
        """truth of a test that speaks about the counter only, else None"""
        if isinstance(e, ast.UnaryOp) and isinstance(e.op, ast.Not):
            v = self.counter_test(e.operand, c)
            return None if v is None else (not v)
        if is_self_attr(e) and e.attr == self.counter:
            return c > 0
        if isinstance(e, ast.Compare) and len(e.ops) == 1 and is_self_attr(e.left) and e.left.attr == self.counter \
                and isinstance(e.comparators[0], ast.Constant) and isinstance(e.comparators[0].value, int) and not isinstance(e.comparators[0].value, bool):
            k, op = e.comparators[0].value, e.ops[0]
            vals = [c] if c < 2 else [2, 3, 1000]          # 2 stands for every value >= 2
            res = set()
            for v in vals:
                res.add({ast.Eq: v == k, ast.NotEq: v != k, ast.Lt: v < k, ast.LtE: v <= k, ast.Gt: v > k, ast.GtE: v >= k}.get(type(op)))
            if len(res) == 1 and None not in res:
                return res.pop()
            return None
        return None

    def states_of(self, e, c, fn, depth=0, env=()):
        """set of lexicon states an argument of begin() may denote"""
        if depth > 6:
            raise AnalysisError('C43-LEXSTATE: begin() argument too deep: %s' % _u(e))
        if isinstance(e, ast.Constant) and isinstance(e.value, str):
            return {e.value}
        if isinstance(e, ast.IfExp):
            t = self.counter_test(e.test, c)
            if t is True:
                return self.states_of(e.body, c, fn, depth + 1)
            if t is False:
                return self.states_of(e.orelse, c, fn, depth + 1)
            return self.states_of(e.body, c, fn, depth + 1) | self.states_of(e.orelse, c, fn, depth + 1)
        if isinstance(e, ast.JoinedStr):
            return {DYN}
        if isinstance(e, ast.Subscript) and is_self_attr(e.value):
            got = self.ix.find_class_attr(self.cls, e.value.attr)
            val = got[1] if isinstance(got, tuple) else got
            if isinstance(val, ast.Dict) and all(isinstance(v, ast.Constant) and isinstance(v.value, str) for v in val.values):
                return {v.value for v in val.values}
            raise AnalysisError('C43-LEXSTATE: cannot resolve the state table %s' % _u(e))
        if isinstance(e, ast.Name):
            bound = {v for (k, v) in env if k == e.id}
            if bound:
                return bound
            out = set()
            for st in walk_no_nested(fn):
                if isinstance(st, ast.Assign) and any(isinstance(t, ast.Name) and t.id == e.id for t in st.targets):
                    out |= self.states_of(st.value, c, fn, depth + 1)
            if out:
                return out
            raise AnalysisError('C43-LEXSTATE: begin(%s): no local binding' % e.id)
        if isinstance(e, ast.Call) and isinstance(e.func, ast.Attribute) and is_self_attr(e.func):
            m = self.method(e.func.attr)
            if m is not None:
                out = set()
                for rv in self.return_exprs(m.body, c):
                    out |= self.states_of(rv, c, m, depth + 1)
                if out:
                    return out
        if isinstance(e, ast.Attribute) and not is_self_attr(e):
            # an attribute of a helper object (self.stack[-1].scanner_state): the values its constructor calls store there
            out = set()
            for c2 in self._module_classes():
                init = self.ix.find_method(c2, '__init__')
                if not init:
                    continue
                ifn = init[1]
                params = [a.arg for a in ifn.args.args][1:]
                for st in walk_no_nested(ifn):
                    if isinstance(st, ast.Assign) and any(is_self_attr(t) and t.attr == e.attr for t in st.targets) and isinstance(st.value, ast.Name) \
                            and st.value.id in params:
                        pos = params.index(st.value.id)
                        for qn, owner, f2 in self.ix.functions_of(self.module):
                            for call in ast.walk(f2):
                                if isinstance(call, ast.Call) and isinstance(call.func, ast.Name) and call.func.id == c2.name and len(call.args) > pos:
                                    out |= self.states_of(call.args[pos], c, f2, depth + 1)
            if out:
                return out
        raise AnalysisError('C43-LEXSTATE: cannot evaluate the scanner state %s' % _u(e))

    def _module_classes(self):
        return [c for c in self.ix.all_classes() if c.module is self.module]

    def return_exprs(self, stmts, c):
        out = []
        for st in stmts:
            if isinstance(st, ast.Return) and st.value is not None:
                out.append(st.value)
                return out
            if isinstance(st, ast.If):
                t = self.counter_test(st.test, c)
                if t is not False:
                    out += self.return_exprs(st.body, c)
                if t is not True:
                    out += self.return_exprs(st.orelse, c)
        return out

    # ---- symbolic execution: a configuration is (lexicon state, counter abstraction)
    def inc(self, c):
        return {0: {1}, 1: {2}, 2: {2}}[c]

    def dec(self, c):
        return {0: set(), 1: {0}, 2: {1, 2}}[c]       # the counter is a nesting depth: a decrement at 0 is not a run of the scanner

    def run_expr(self, e, confs, fn, depth):
        """effects of the calls inside an expression, innermost first"""
        if isinstance(e, ast.Call):
            for a in list(e.args) + [k.value for k in e.keywords]:
                confs = self.run_expr(a, confs, fn, depth)
            if self._begin_call(e):
                out = set()
                for (s, c, env) in confs:
                    for s2 in self.states_of(e.args[0], c, fn, 0, env):
                        out.add((s2, c, env))
                return out
            if isinstance(e.func, ast.Attribute) and is_self_attr(e.func):
                m = self.method(e.func.attr)
                if m is not None and self.relevant(m):
                    if depth > 5:
                        raise AnalysisError('C43-LEXSTATE: call depth')
                    return self.run_method(m, confs, depth + 1)
            return confs
        for ch in ast.iter_child_nodes(e):
            if isinstance(ch, ast.expr):
                confs = self.run_expr(ch, confs, fn, depth)
        return confs

    _rel = None

    def relevant(self, m):
        """does the method (transitively) move the state or the counter?"""
        if self._rel is None:
            self._rel = {}
        if m.name in self._rel:
            return self._rel[m.name]
        self._rel[m.name] = False
        res = False
        for n in ast.walk(m):
            if self._begin_call(n) or (isinstance(n, (ast.AugAssign, ast.Assign)) and any(
                    is_self_attr(t) and t.attr == self.counter for t in ([n.target] if isinstance(n, ast.AugAssign) else n.targets))):
                res = True
            elif isinstance(n, ast.Call) and isinstance(n.func, ast.Attribute) and is_self_attr(n.func) and n.func.attr != m.name:
                m2 = self.method(n.func.attr)
                if m2 is not None and self.relevant(m2):
                    res = True
        self._rel[m.name] = res
        return res

    def run_block(self, stmts, confs, fn, depth):
        """-> (configurations falling through, configurations that returned)"""
        done = set()
        for st in stmts:
            if not confs:
                break
            if isinstance(st, ast.AugAssign) and is_self_attr(st.target) and st.target.attr == self.counter:
                if not (isinstance(st.value, ast.Constant) and st.value.value == 1 and isinstance(st.op, (ast.Add, ast.Sub))):
                    raise AnalysisError('C43-LEXSTATE: counter step is not 1: %s' % _u(st))
                step = self.inc if isinstance(st.op, ast.Add) else self.dec
                confs = {(s, c2, env) for (s, c, env) in confs for c2 in step(c)}
            elif isinstance(st, ast.Assign) and any(is_self_attr(t) and t.attr == self.counter for t in st.targets):
                if isinstance(st.value, ast.Constant) and st.value.value == 0:
                    confs = {(s, 0, env) for (s, c, env) in confs}
                else:
                    raise AnalysisError('C43-LEXSTATE: counter assigned %s' % _u(st.value))
            elif isinstance(st, ast.Assign) and len(st.targets) == 1 and isinstance(st.targets[0], ast.Name) \
                    and isinstance(st.value, (ast.Constant, ast.IfExp)) and not any(isinstance(n, ast.Call) for n in ast.walk(st.value)):
                nm, nxt = st.targets[0].id, set()          # a local that may name a state: bound per path
                for (s, c, env) in confs:
                    try:
                        vals = self.states_of(st.value, c, fn, 0, env)
                    except AnalysisError:
                        nxt.add((s, c, env))
                        continue
                    kept = frozenset(kv for kv in env if kv[0] != nm)
                    for v in vals:
                        nxt.add((s, c, kept | {(nm, v)}))
                confs = nxt
            elif isinstance(st, ast.If):
                nxt = set()
                confs = self.run_expr(st.test, confs, fn, depth)
                for (s, c, env) in confs:
                    t = self.counter_test(st.test, c)
                    if t is not False:
                        a, d = self.run_block(st.body, {(s, c, env)}, fn, depth)
                        nxt |= a; done |= d
                    if t is not True:
                        a, d = self.run_block(st.orelse, {(s, c, env)}, fn, depth)
                        nxt |= a; done |= d
                confs = nxt
            elif isinstance(st, (ast.For, ast.While)):
                seen = set(confs)
                frontier = set(confs)
                while frontier:
                    a, d = self.run_block(st.body, frontier, fn, depth)
                    done |= d
                    frontier = a - seen
                    seen |= a
                confs = seen
            elif isinstance(st, ast.Return):
                if st.value is not None:
                    confs = self.run_expr(st.value, confs, fn, depth)
                done |= confs
                confs = set()
            elif isinstance(st, ast.Raise):
                confs = set()
            elif isinstance(st, (ast.With, ast.Try)):
                a, d = self.run_block(st.body, confs, fn, depth)
                done |= d
                confs = a
                for fin in getattr(st, 'finalbody', []) and [st.finalbody]:
                    a, d = self.run_block(fin, confs, fn, depth)
                    done |= d
                    confs = a
            elif isinstance(st, (ast.FunctionDef, ast.ClassDef)):
                pass
            else:
                for ch in ast.iter_child_nodes(st):
                    if isinstance(ch, ast.expr):
                        confs = self.run_expr(ch, confs, fn, depth)
        return confs, done

    def run_method(self, m, confs, depth=0):
        """configurations inside a method carry the string locals bound on the path: (state, counter, env)"""
        outer = {}
        for cf in confs:
            outer.setdefault((cf[0], cf[1]), set()).add(cf[2] if len(cf) == 3 else frozenset())
        a, d = self.run_block(m.body, {(s, c, frozenset()) for (s, c) in outer}, m, depth)
        res = {(s, c) for (s, c, env) in a | d}
        if any(len(cf) == 3 for cf in confs):       # called from another method: hand its environments back
            envs = set().union(*outer.values())
            return {(s, c, env) for (s, c) in res for env in envs}
        return res

    def explore(self, on_edge=None):
        init = {('INDENT', 0), (DEFAULT, 0)}
        seen = set(init)
        work = list(init)
        edges = {}
        while work:
            conf = work.pop()
            s, c = conf
            if s == DEFAULT and c >= 1:
                continue            # the reported configuration itself; what follows from it is not a second defect
            if s not in self.table:
                raise AnalysisError('C43-LEXSTATE: scanner state %r is not a state of the lexicon' % s)
            for name in sorted(self.table[s]):
                m = self.method(name)
                if m is None or not self.relevant(m):
                    continue
                out = self.run_method(m, {conf})
                edges[(conf, name)] = out
                for o in out:
                    if o not in seen:
                        seen.add(o)
                        work.append(o)
        return seen, edges


def lexstate_findings(model):
    """[(state, counter, method, from-conf)] : default state left active with an open prescan"""
    seen, edges = model.explore()
    bad = []
    for (conf, name), out in sorted(edges.items()):
        for (s, c) in sorted(out):
            if s == DEFAULT and c >= 1:
                bad.append((name, conf, (s, c)))
    return seen, edges, bad


def _mutated_model(ctx, base):
    """positive control: the end actions rewritten to return to the default state unconditionally"""
    import copy
    m = LexModel.__new__(LexModel)
    m.__dict__.update(base.__dict__)
    m.methods = dict(base.methods)
    m._rel = None
    hit = 0
    for name, fn in list(m.methods.items()):
        if fn is None:
            continue
        f2 = copy.deepcopy(fn)
        for n in ast.walk(f2):
            if m._begin_call(n) and isinstance(n.args[0], ast.IfExp) and m.counter_test(n.args[0].test, 1) is not None:
                n.args[0] = ast.Constant(DEFAULT)
                hit += 1
                m.methods[name] = f2
                break
        if hit:
            break
    return m if hit else None


def rule_LEXSTATE(ctx, floor=36):
    r = Rule('C43-LEXSTATE', 'lexicon state x prescan counter of f-/t-string replacement fields (abstraction {0, 1, >=2}), action methods executed symbolically from the initial state: '
                             'the default token state is never active while a replacement field is being pre-scanned (its terminators are not recognised there: a valid nested '
                             'f-string is rejected)', floor)
    model = LexModel(ctx)
    seen, edges, bad = lexstate_findings(model)
    for (conf, name), out in sorted(edges.items()):
        r.inst('%s@%s/%s' % (name, conf[0] or 'default', conf[1]), sample='%s in state %r with %s=%s -> %s' % (name, conf[0], model.counter, '>=2' if conf[1] == 2 else conf[1], sorted(out)))
    if not any(c >= 1 for (s, c) in seen if s == model.s_in):
        raise AnalysisError('C43-LEXSTATE: the prescan state %r is never reached with an open field: the model lost the increment' % model.s_in)
    reported = set()
    for name, conf, tgt in bad:
        if name in reported:
            continue
        reported.add(name)
        fn = model.method(name)
        r.violate('PyrexScanner.%s:default-state-with-open-prescan' % name, 'Cython/Compiler/Scanning.py', fn.lineno,
                  'PyrexScanner.%s, run in lexicon state %r with %s = %s, leaves the scanner in the default state although a replacement field is still being pre-scanned (%s >= 1): '
                  'there the field terminators (the actions bound in state %r: %s) are ordinary punctuation, so the field never ends - e.g. f"{f\'{x}\':>4}" is rejected with '
                  '"Unexpected characters after f-string expression" although CPython compiles it' % (
                      name, conf[0], model.counter, '>=2' if conf[1] == 2 else conf[1], model.counter, model.s_in, ', '.join(sorted(model.table.get(model.s_in, ())))))
    mm = _mutated_model(ctx, model)
    r.positive_control(mm is not None and bool(lexstate_findings(mm)[2]), 'an end-of-string action that returns to the default state unconditionally')
    return r


# ====================================================================================================== C43-JOINGUARD
def _is_none(e):
    return isinstance(e, ast.Constant) and e.value is None


def _local_lists(fn):
    out = set()
    for st in walk_no_nested(fn):
        if isinstance(st, ast.Assign):
            tg, val = st.targets, st.value
            for t in tg:
                if isinstance(t, ast.Name) and isinstance(val, (ast.List, ast.ListComp)):
                    out.add(t.id)
                elif isinstance(t, ast.Tuple) and isinstance(val, ast.Tuple) and len(t.elts) == len(val.elts):
                    for a, b in zip(t.elts, val.elts):
                        if isinstance(a, ast.Name) and isinstance(b, (ast.List, ast.ListComp)):
                            out.add(a.id)
    return out


def _whole_list_exclusion(e, lst):
    """+1: e true means no element of lst is None; -1: e false means that; 0: neither"""
    if isinstance(e, ast.Compare) and len(e.ops) == 1 and _is_none(e.left) and isinstance(e.comparators[0], ast.Name) and e.comparators[0].id == lst:
        if isinstance(e.ops[0], ast.NotIn):
            return 1
        if isinstance(e.ops[0], ast.In):
            return -1
    if isinstance(e, ast.Call) and isinstance(e.func, ast.Name) and e.func.id in ('all', 'any') and len(e.args) == 1 and isinstance(e.args[0], (ast.GeneratorExp, ast.ListComp)):
        g = e.args[0]
        if len(g.generators) == 1 and not g.generators[0].ifs and isinstance(g.generators[0].iter, ast.Name) and g.generators[0].iter.id == lst \
                and isinstance(g.generators[0].target, ast.Name) and isinstance(g.elt, ast.Compare) and len(g.elt.ops) == 1 \
                and isinstance(g.elt.left, ast.Name) and g.elt.left.id == g.generators[0].target.id and _is_none(g.elt.comparators[0]):
            if e.func.id == 'all' and isinstance(g.elt.ops[0], ast.IsNot):
                return 1
            if e.func.id == 'any' and isinstance(g.elt.ops[0], ast.Is):
                return -1
    return 0


def _mentions_none(e):
    return any(_is_none(n) for n in ast.walk(e))


def _related_names(fn, lst):
    """the list, its element variables, and the parallel lists filled next to it (with their element variables)"""
    lists = _local_lists(fn)
    elems, blocks = {}, {}
    for st in walk_no_nested(fn):
        if isinstance(st, ast.Assign):
            pairs = []
            for t in st.targets:
                if isinstance(t, ast.Name):
                    pairs.append((t, st.value))
                elif isinstance(t, ast.Tuple) and isinstance(st.value, ast.Tuple) and len(t.elts) == len(st.value.elts):
                    pairs += list(zip(t.elts, st.value.elts))
            for t, v in pairs:
                if isinstance(t, ast.Name) and t.id in lists and isinstance(v, ast.List):
                    elems.setdefault(t.id, set()).update(e.id for e in v.elts if isinstance(e, ast.Name))
                    blocks.setdefault(t.id, set()).add(id(st))
        for field in ('body', 'orelse', 'finalbody'):
            seq = getattr(st, field, None)
            if not isinstance(seq, list):
                continue
            for s2 in seq:
                if isinstance(s2, ast.Expr) and isinstance(s2.value, ast.Call) and isinstance(s2.value.func, ast.Attribute) and s2.value.func.attr in ('append', 'extend', 'insert') \
                        and isinstance(s2.value.func.value, ast.Name) and s2.value.func.value.id in lists:
                    nm = s2.value.func.value.id
                    elems.setdefault(nm, set()).update(a.id for a in s2.value.args if isinstance(a, ast.Name))
                    blocks.setdefault(nm, set()).add(id(seq))
    rel = {lst} | elems.get(lst, set())
    for other in lists:
        if other != lst and blocks.get(other, set()) & blocks.get(lst, set()):
            rel |= {other} | elems.get(other, set())
    return rel


class _Formula:
    """boolean structure over opaque atoms (keyed by unparsed text)"""
    def __init__(self, env):
        self.atoms, self.env = {}, env

    def build(self, e, depth=0):
        if isinstance(e, ast.BoolOp):
            return ('and' if isinstance(e.op, ast.And) else 'or', [self.build(v, depth) for v in e.values])
        if isinstance(e, ast.UnaryOp) and isinstance(e.op, ast.Not):
            return ('not', [self.build(e.operand, depth)])
        if isinstance(e, ast.Name) and e.id in self.env and depth < 4:
            return self.build(self.env[e.id], depth + 1)
        k = _u(e)
        self.atoms[k] = e
        return ('atom', k)


def _ev(f, asg):
    if f[0] == 'atom':
        return asg[f[1]]
    if f[0] == 'not':
        return not _ev(f[1][0], asg)
    if f[0] == 'and':
        return all(_ev(x, asg) for x in f[1])
    return any(_ev(x, asg) for x in f[1])


def _single_assignments(fn):
    cnt, val = {}, {}
    for st in walk_no_nested(fn):
        if isinstance(st, ast.Assign) and len(st.targets) == 1 and isinstance(st.targets[0], ast.Name):
            cnt[st.targets[0].id] = cnt.get(st.targets[0].id, 0) + 1
            val[st.targets[0].id] = st.value
        elif isinstance(st, (ast.AugAssign, ast.For, ast.Assign, ast.AnnAssign, ast.With, ast.NamedExpr)):
            for n in ast.walk(st.target if isinstance(st, (ast.AugAssign, ast.For, ast.AnnAssign, ast.NamedExpr)) else st):
                if isinstance(n, ast.Name) and isinstance(n.ctx, ast.Store):
                    cnt[n.id] = cnt.get(n.id, 0) + 2
    return {k: v for k, v in val.items() if cnt.get(k) == 1 and isinstance(v, (ast.Compare, ast.BoolOp, ast.UnaryOp, ast.Call))}


def _terminates(block):
    return bool(block) and isinstance(block[-1], (ast.Return, ast.Raise, ast.Continue, ast.Break))


def join_sites(fn):
    """[(join call, list name, [(test expr, polarity)])] for the `sep.join(<local list>)` calls of the function"""
    lists = _local_lists(fn)
    out = []

    def walk(stmts, conds):
        conds = list(conds)
        for st in stmts:
            if isinstance(st, (ast.FunctionDef, ast.AsyncFunctionDef, ast.ClassDef)):
                continue
            if isinstance(st, ast.If):
                scan(st.test, conds)
                walk(st.body, conds + [(st.test, True)])
                walk(st.orelse, conds + [(st.test, False)])
                if _terminates(st.body) and not st.orelse:
                    conds.append((st.test, False))
                elif st.orelse and _terminates(st.orelse) and not _terminates(st.body):
                    conds.append((st.test, True))
                continue
            for field in ('body', 'orelse', 'finalbody'):
                seq = getattr(st, field, None)
                if isinstance(seq, list) and seq and isinstance(seq[0], ast.stmt):
                    walk(seq, conds if field == 'body' and not isinstance(st, (ast.For, ast.While)) else [c for c in conds])
            for h in getattr(st, 'handlers', []):
                walk(h.body, conds)
            for ch in ast.iter_child_nodes(st):
                if isinstance(ch, ast.expr):
                    scan(ch, conds)

    def scan(e, conds):
        if isinstance(e, ast.IfExp):
            scan(e.test, conds)
            scan(e.body, conds + [(e.test, True)])
            scan(e.orelse, conds + [(e.test, False)])
            return
        if isinstance(e, ast.BoolOp):
            acc = list(conds)
            for v in e.values:
                scan(v, acc)
                acc = acc + [(v, isinstance(e.op, ast.And))]
            return
        if isinstance(e, ast.Call) and isinstance(e.func, ast.Attribute) and e.func.attr == 'join' and len(e.args) == 1 \
                and isinstance(e.args[0], ast.Name) and e.args[0].id in lists:
            out.append((e, e.args[0].id, list(conds)))
        for ch in ast.iter_child_nodes(e):
            if isinstance(ch, ast.expr):
                scan(ch, conds)

    walk(fn.body, [])
    return out


def joinguard_findings(fn):
    """[(call, list, problem or None)] for the joins whose path condition contains a None test"""
    res = []
    env = _single_assignments(fn)
    for call, lst, conds in join_sites(fn):
        F = _Formula(env)
        parts = []
        for test, pol in conds:
            f = F.build(test)
            parts.append(f if pol else ('not', [f]))
        rel = _related_names(fn, lst)
        none_atoms = [k for k, e in F.atoms.items() if _mentions_none(e) and any(isinstance(n, ast.Name) and n.id in rel for n in ast.walk(e))]
        if not none_atoms:
            continue
        if len(F.atoms) > 14:
            res.append((call, lst, 'undecided'))
            continue
        whole = {k: _whole_list_exclusion(F.atoms[k], lst) for k in none_atoms}
        others = [k for k in none_atoms if whole[k] == 0]
        names = sorted(F.atoms)
        formula = ('and', parts)
        problem = None
        for vals in itertools.product((False, True), repeat=len(names)):
            asg = dict(zip(names, vals))
            if not _ev(formula, asg):
                continue
            if any((w == 1 and asg[k]) or (w == -1 and not asg[k]) for k, w in whole.items()):
                continue
            for k in others:
                flipped = dict(asg)
                flipped[k] = not asg[k]
                if not _ev(formula, flipped):
                    problem = k
                    break
            if problem:
                break
        res.append((call, lst, problem))
    return res


_JG_BAD = '''
def f(parts, tag):
    acc = [parts[0]]
    for p in parts[1:]:
        acc.append(p)
    if tag == 'b' or tag == 'u' and acc[0] is not None:
        return b''.join(acc)
'''
_JG_GOOD = '''
def f(parts, tag):
    acc = [parts[0]]
    for p in parts[1:]:
        acc.append(p)
    complete = all(a is not None for a in acc)
    if tag == 'b':
        return b''.join(acc)
    if tag != 'u' or not complete:
        return None
    return b''.join(acc)
'''


def rule_JOINGUARD(ctx, floor=1):
    r = Rule('C43-JOINGUARD', 'sep.join(<local list>) admitted by a None test: every way to satisfy the path condition either excludes None from the WHOLE list or does not depend on a '
                              'None test of a part of it / of another object (else TypeError inside the compiler for the untested None element)', floor)
    ix = ctx.index
    for m in sorted(ix.modules.values(), key=lambda x: x.rel):
        if not m.rel.startswith('Cython/Compiler/'):
            continue
        for qn, owner, fn in ix.functions_of(m):
            n = 0
            for call, lst, problem in joinguard_findings(fn):
                n += 1
                key = '%s.%s:join(%s)' % (m.short, qn, lst) + ('' if n == 1 else '#%d' % n)
                r.inst(key, sample='%s: %s' % (key, problem or 'whole-list exclusion on every dependent path'))
                if problem == 'undecided':
                    r.info('%s: path condition with more than 14 atoms, not expanded' % key)
                elif problem:
                    r.violate(key, m.rel, call.lineno, '%s.%s joins the list %s on a path admitted by the None test `%s`, which does not exclude None from the whole list: a None element '
                              'that this test does not look at reaches %s - TypeError (expected str / bytes-like, NoneType found) inside the compiler instead of a positioned message; '
                              'e.g. the literal concatenation "a" u"b" under language_level 3' % (m.short, qn, lst, problem, _u(call)))
    bad = joinguard_findings(ast.parse(_JG_BAD).body[0])
    good = joinguard_findings(ast.parse(_JG_GOOD).body[0])
    r.positive_control(len(bad) == 1 and bad[0][2] not in (None, 'undecided') and len(good) == 1 and good[0][2] is None,
                       'first-element test guarding the join of the whole list / flag + early-return form')
    return r
