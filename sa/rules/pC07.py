"""Helpers for C07 (power operator) — also used by C40.

1. `Eval`: a small evaluator for *decision functions* of the repository (straight-line code with if/elif/else, boolean
   operators, comparisons, attribute reads on stub objects, calls of other repository functions).  It is used ONLY to extract
   the decision table of a function over its COMPLETE finite abstract domain (every combination of the flags / value classes the
   function distinguishes), never to run repository code on sampled inputs.  Anything outside the supported subset raises
   `Unsupported`, which the rules turn into an ANALYSIS-ERROR (fail closed, never a false alarm, never a silent pass).
2. `rule_L8`: contradiction rule — a value test on `X.constant_result` that is dominated by `not X.has_constant_result()`.
3. clang based structural facts about the `IntPow` helper.
"""
import ast, numbers, re

from ..core import Rule, AnalysisError, node_src, norm_stmt
from ..engine import pyflow
from ..engine.pyindex import walk_no_nested


# ====================================================================================================== evaluator
class Unsupported(Exception):
    pass


class Sym:
    """Opaque module-level object (e.g. a sentinel `object()`); only identity is known."""

    def __init__(self, name, nonnumeric=False):
        self.name, self.nonnumeric = name, nonnumeric

    def __repr__(self):
        return '<%s>' % self.name


class Obj:
    """Stub object.  `attrs` are the modelled attributes; unknown `is_*` flags read as `flag_default` (PyrexType/Node classes
    define every is_xxx flag as 0 at class level); other unknown attributes are resolved through `cls` (a pyindex ClassInfo:
    methods and literal class attributes of the repository class) or raise Unsupported."""

    def __init__(self, label, cls=None, flag_default=None, **attrs):
        self.__dict__['label'] = label
        self.__dict__['cls'] = cls
        self.__dict__['flag_default'] = flag_default
        self.__dict__['attrs'] = dict(attrs)
        self.__dict__['meta'] = {}

    def __repr__(self):
        return '<%s>' % self.label


class Const:
    """A compile-time constant value *class* (negative int, non-negative int, non-integral float ...) given by a representative.
    Only the predicates that define the classes are allowed on it: isinstance, int(), ordering against literal 0, equality with
    another Const (int(x) == x) and — if `eq_literal` — equality with a literal.  Any other use means the function now
    distinguishes more classes than the scenario domain has: Unsupported."""

    def __init__(self, v, eq_literal=False):
        self.v, self.eq_literal = v, eq_literal

    def __repr__(self):
        return 'const %r' % (self.v,)


class RepoFn:
    def __init__(self, module, node, cls=None, closure=None):
        self.module, self.node, self.cls, self.closure = module, node, cls, closure

    def __repr__(self):
        return '<repo function %s.%s>' % (self.module.short, self.node.name)


class Method:
    def __init__(self, fn, selfobj):
        self.fn, self.selfobj = fn, selfobj


class ModRef:
    def __init__(self, module):
        self.module = module


class _Return(Exception):
    def __init__(self, value):
        self.value = value


_SAFE_BUILTINS = {'isinstance': isinstance, 'int': int, 'float': float, 'bool': bool, 'abs': abs, 'len': len,
                  'True': True, 'False': False, 'None': None, 'str': str, 'bytes': bytes, 'complex': complex,
                  'tuple': tuple, 'list': list, 'object': object}
_EXT_MODULES = {'numbers': numbers}


class Eval:
    def __init__(self, ix, overrides=None, super_hook=None, max_steps=20000):
        self.ix = ix
        self.overrides = dict(overrides or {})     # (module short, name) -> value
        self.super_hook = super_hook
        self._syms = {}
        self._names = {}
        self.steps = 0
        self.max_steps = max_steps
        self.nonnumeric_syms = set()               # (module short, name) verified to be non-numeric sentinels

    # ------------------------------------------------------------------ name resolution
    def sym(self, module, name):
        k = (module.short, name)
        if k not in self._syms:
            self._syms[k] = Sym('%s.%s' % k, nonnumeric=k in self.nonnumeric_syms)
        return self._syms[k]

    def global_name(self, module, name):
        k = (module.short, name)
        if k in self.overrides:
            return self.overrides[k]
        if k not in self._names:
            self._names[k] = self._global_name(module, name)
        return self._names[k]

    def _global_name(self, module, name):
        r = self.ix.resolve_name(module, name)
        if r is None:
            if name in _SAFE_BUILTINS:
                return _SAFE_BUILTINS[name]
            raise Unsupported('name %s is not bound in %s' % (name, module.short))
        if r[0] == 'module':
            return ModRef(r[1])
        if r[0] == 'func':
            if (r[1].short, r[2].name) in self.overrides:
                return self.overrides[(r[1].short, r[2].name)]
            return RepoFn(r[1], r[2])
        if r[0] == 'value':
            tm, node = r[1], r[2]
            if (tm.short, name) in self.overrides:
                return self.overrides[(tm.short, name)]
            if isinstance(node, ast.AST):
                try:
                    return ast.literal_eval(node)
                except Exception:
                    pass
            return self.sym(tm, name)
        if r[0] == 'class':
            return self.sym(r[1].module, r[1].name)
        if r[0] == 'extmodule' and r[1] in _EXT_MODULES:
            return _EXT_MODULES[r[1]]
        if r[0] == 'extsymbol' and r[1] in _EXT_MODULES:
            return getattr(_EXT_MODULES[r[1]], r[2])
        raise Unsupported('name %s in %s resolves to %s which is not modelled' % (name, module.short, r[0]))

    # ------------------------------------------------------------------ calls
    def call(self, f, args, kwargs=None):
        kwargs = kwargs or {}
        if isinstance(f, Method):
            return self.call(f.fn, [f.selfobj] + list(args), kwargs)
        if isinstance(f, RepoFn):
            return self.run(f, args, kwargs)
        if f is isinstance:
            v, t = args
            if isinstance(v, Const):
                return isinstance(v.v, t)
            if isinstance(v, Sym):
                if v.nonnumeric and self._numeric_types(t):
                    return False
                raise Unsupported('isinstance(%r, ...) on an opaque object' % v)
            if isinstance(v, Obj):
                raise Unsupported('isinstance on stub %r' % v)
            return isinstance(v, t)
        if f is int and len(args) == 1 and isinstance(args[0], Const):
            return Const(int(args[0].v), args[0].eq_literal)
        if any(isinstance(a, (Const, Sym)) for a in args):
            if f in (bool,) and isinstance(args[0], Sym):
                return True
            raise Unsupported('call %r on a constant class / opaque object' % (f,))
        if callable(f) and not isinstance(f, (Obj, Sym)):
            return f(*args, **kwargs)
        raise Unsupported('call of %r' % (f,))

    @staticmethod
    def _numeric_types(t):
        ts = t if isinstance(t, tuple) else (t,)
        ok = (int, float, complex, bool, str, bytes, numbers.Number, numbers.Complex, numbers.Real, numbers.Rational, numbers.Integral)
        return all(x in ok for x in ts)

    def run(self, fn, args, kwargs=None):
        kwargs = dict(kwargs or {})
        node = fn.node
        a = node.args
        if a.vararg or a.kwarg or a.kwonlyargs or a.posonlyargs:
            raise Unsupported('signature of %s' % node.name)
        names = [x.arg for x in a.args]
        if len(args) > len(names):
            raise Unsupported('too many arguments for %s' % node.name)
        env = dict(fn.closure or {})
        frame = {'fn': fn, 'self': args[0] if (fn.cls is not None and args) else None}
        for n, v in zip(names, args):
            env[n] = v
        ndef = len(a.defaults)
        for i, n in enumerate(names[len(args):], start=len(args)):
            if n in kwargs:
                env[n] = kwargs.pop(n)
            elif i >= len(names) - ndef:
                env[n] = self.expr(a.defaults[i - (len(names) - ndef)], {}, frame)
            else:
                raise Unsupported('missing argument %s of %s' % (n, node.name))
        if kwargs:
            raise Unsupported('unexpected keyword(s) %s for %s' % (sorted(kwargs), node.name))
        try:
            self.block(node.body, env, frame)
        except _Return as r:
            return r.value
        return None

    # ------------------------------------------------------------------ statements
    def block(self, stmts, env, frame):
        for s in stmts:
            self.stmt(s, env, frame)

    def stmt(self, s, env, frame):
        self.steps += 1
        if self.steps > self.max_steps:
            raise Unsupported('evaluation does not terminate')
        if isinstance(s, ast.Return):
            raise _Return(self.expr(s.value, env, frame) if s.value is not None else None)
        if isinstance(s, ast.If):
            if self.truth(self.expr(s.test, env, frame)):
                self.block(s.body, env, frame)
            else:
                self.block(s.orelse, env, frame)
            return
        if isinstance(s, ast.Assign):
            v = self.expr(s.value, env, frame)
            for t in s.targets:
                self.assign(t, v, env, frame)
            return
        if isinstance(s, ast.AnnAssign) and s.value is not None:
            self.assign(s.target, self.expr(s.value, env, frame), env, frame)
            return
        if isinstance(s, ast.Expr):
            if isinstance(s.value, ast.Constant):
                return
            self.expr(s.value, env, frame)
            return
        if isinstance(s, ast.Pass):
            return
        if isinstance(s, ast.ImportFrom) and s.level == 0 and s.module in _EXT_MODULES:
            for al in s.names:
                env[al.asname or al.name] = getattr(_EXT_MODULES[s.module], al.name)
            return
        if isinstance(s, ast.FunctionDef):
            env[s.name] = RepoFn(frame['fn'].module, s, None, closure=env)
            return
        if isinstance(s, ast.Assert):
            if not self.truth(self.expr(s.test, env, frame)):
                raise Unsupported('assertion fails in the scenario: %s' % node_src(s.test))
            return
        raise Unsupported('statement %s (%s)' % (type(s).__name__, node_src(s, 60)))

    def assign(self, t, v, env, frame):
        if isinstance(t, ast.Name):
            env[t.id] = v
        elif isinstance(t, ast.Attribute):
            o = self.expr(t.value, env, frame)
            if not isinstance(o, Obj):
                raise Unsupported('attribute store on %r' % (o,))
            o.attrs[t.attr] = v
        elif isinstance(t, (ast.Tuple, ast.List)):
            if not isinstance(v, (tuple, list)) or len(v) != len(t.elts):
                raise Unsupported('unpacking')
            for tt, vv in zip(t.elts, v):
                self.assign(tt, vv, env, frame)
        else:
            raise Unsupported('assignment target %s' % type(t).__name__)

    # ------------------------------------------------------------------ expressions
    @staticmethod
    def truth(v):
        if isinstance(v, Const):
            raise Unsupported('truth value of a constant class')
        if isinstance(v, (Obj, Sym, RepoFn, Method, ModRef)):
            return True
        return bool(v)

    def getattr(self, o, name, frame):
        if isinstance(o, Obj):
            if name in o.attrs:
                return o.attrs[name]
            if o.cls is not None:
                r = self.ix.find_method(o.cls, name)
                if r:
                    return Method(RepoFn(r[0].module, r[1], r[0]), o)
                a = self.ix.find_class_attr(o.cls, name)
                if a is not None and isinstance(a[1], ast.AST) and not isinstance(a[1], (ast.FunctionDef, ast.ClassDef)):
                    try:
                        return ast.literal_eval(a[1])
                    except Exception:
                        raise Unsupported('class attribute %s.%s is not a literal' % (a[0].name, name))
            if name.startswith('is_') and o.flag_default is not None:
                return o.flag_default
            raise Unsupported('attribute %s of stub %r is not modelled' % (name, o))
        if isinstance(o, ModRef):
            return self.global_name(o.module, name)
        if isinstance(o, (Sym, Const, RepoFn, Method)):
            raise Unsupported('attribute %s of %r' % (name, o))
        if isinstance(o, (str, int, float, tuple, list, dict, bool)) or o is None:
            raise Unsupported('attribute %s of a plain value' % name)
        return getattr(o, name)

    def expr(self, e, env, frame):
        self.steps += 1
        if self.steps > self.max_steps:
            raise Unsupported('evaluation does not terminate')
        if isinstance(e, ast.Constant):
            return e.value
        if isinstance(e, ast.Name):
            if e.id in env:
                return env[e.id]
            return self.global_name(frame['fn'].module, e.id)
        if isinstance(e, ast.Attribute):
            return self.getattr(self.expr(e.value, env, frame), e.attr, frame)
        if isinstance(e, ast.BoolOp):
            v = None
            for x in e.values:
                v = self.expr(x, env, frame)
                t = self.truth(v)
                if isinstance(e.op, ast.And) and not t:
                    return v
                if isinstance(e.op, ast.Or) and t:
                    return v
            return v
        if isinstance(e, ast.UnaryOp):
            v = self.expr(e.operand, env, frame)
            if isinstance(e.op, ast.Not):
                return not self.truth(v)
            if isinstance(e.op, ast.USub) and isinstance(v, (int, float)) and not isinstance(v, bool):
                return -v
            raise Unsupported('unary operator on %r' % (v,))
        if isinstance(e, ast.IfExp):
            return self.expr(e.body if self.truth(self.expr(e.test, env, frame)) else e.orelse, env, frame)
        if isinstance(e, (ast.Tuple, ast.List)):
            vs = [self.expr(x, env, frame) for x in e.elts]
            return tuple(vs) if isinstance(e, ast.Tuple) else vs
        if isinstance(e, ast.Compare):
            left = self.expr(e.left, env, frame)
            for op, c in zip(e.ops, e.comparators):
                right = self.expr(c, env, frame)
                if not self.compare(left, op, right, lit=isinstance(c, ast.Constant) or isinstance(e.left, ast.Constant)):
                    return False
                left = right
            return True
        if isinstance(e, ast.Call):
            return self.call_expr(e, env, frame)
        if isinstance(e, ast.Subscript):
            base = self.expr(e.value, env, frame)
            key = self.expr(e.slice, env, frame)
            if isinstance(base, (dict, tuple, list, str)) and isinstance(key, (str, int)):
                try:
                    return base[key]
                except (KeyError, IndexError):
                    raise Unsupported('subscript %r not in table' % (key,))
            raise Unsupported('subscript')
        if isinstance(e, ast.JoinedStr) or isinstance(e, ast.BinOp):
            raise Unsupported('expression %s' % node_src(e, 60))
        raise Unsupported('expression %s' % type(e).__name__)

    def compare(self, a, op, b, lit=False):
        if isinstance(op, (ast.Is, ast.IsNot)):
            if isinstance(a, Const) or isinstance(b, Const):
                other = b if isinstance(a, Const) else a
                if isinstance(other, (Sym, Obj)) or other is None:
                    r = False
                else:
                    raise Unsupported('identity test on a constant class')
            else:
                r = a is b
            return r if isinstance(op, ast.Is) else not r
        if isinstance(a, Const) or isinstance(b, Const):
            ca, cb = isinstance(a, Const), isinstance(b, Const)
            if isinstance(op, (ast.Lt, ast.LtE, ast.Gt, ast.GtE)):
                other = b if ca else a
                if ca and cb or not (lit and isinstance(other, int) and not isinstance(other, bool) and other == 0):
                    raise Unsupported('ordering of a constant class against something other than literal 0')
                x, y = (a.v, 0) if ca else (0, b.v)
                return {ast.Lt: x < y, ast.LtE: x <= y, ast.Gt: x > y, ast.GtE: x >= y}[type(op)]
            if isinstance(op, (ast.Eq, ast.NotEq)):
                if ca and cb:
                    r = a.v == b.v
                else:
                    c, other = (a, b) if ca else (b, a)
                    if isinstance(other, (Sym, Obj)):
                        r = False
                    elif c.eq_literal and lit:
                        r = c.v == other
                    else:
                        raise Unsupported('equality of a constant class with %r' % (other,))
                return r if isinstance(op, ast.Eq) else not r
            raise Unsupported('operator %s on a constant class' % type(op).__name__)
        opaque = (Obj, Sym, RepoFn, Method, ModRef)
        if isinstance(op, (ast.Eq, ast.NotEq)):
            if isinstance(a, opaque) or isinstance(b, opaque):
                r = a is b          # PyrexType.__eq__ of the modelled singletons is identity
            else:
                r = a == b
            return r if isinstance(op, ast.Eq) else not r
        if isinstance(a, opaque) or isinstance(b, opaque):
            raise Unsupported('operator %s on stub objects' % type(op).__name__)
        try:
            if isinstance(op, ast.Lt):
                return a < b
            if isinstance(op, ast.LtE):
                return a <= b
            if isinstance(op, ast.Gt):
                return a > b
            if isinstance(op, ast.GtE):
                return a >= b
            if isinstance(op, ast.In):
                return a in b
            if isinstance(op, ast.NotIn):
                return a not in b
        except TypeError as ex:
            raise Unsupported('comparison raises %s' % ex)
        raise Unsupported('operator %s' % type(op).__name__)

    def call_expr(self, e, env, frame):
        f = e.func
        # super().method(...)
        if isinstance(f, ast.Attribute) and isinstance(f.value, ast.Call) and isinstance(f.value.func, ast.Name) and f.value.func.id == 'super':
            args = [self.expr(a, env, frame) for a in e.args]
            if self.super_hook is not None:
                r = self.super_hook(f.attr, args)
                if r is not NotImplemented:
                    return r
            fn = frame['fn']
            selfobj = frame['self']
            if fn.cls is None or not isinstance(selfobj, Obj) or selfobj.cls is None:
                raise Unsupported('super() outside a modelled method')
            mro = self.ix.mro(selfobj.cls)
            if fn.cls not in mro:
                raise Unsupported('super(): %s not in the MRO of %s' % (fn.cls.name, selfobj.cls.name))
            for k in mro[mro.index(fn.cls) + 1:]:
                if f.attr in k.methods:
                    return self.run(RepoFn(k.module, k.methods[f.attr], k), [selfobj] + args)
            raise Unsupported('super().%s not found' % f.attr)
        if any(isinstance(a, ast.Starred) for a in e.args) or any(k.arg is None for k in e.keywords):
            raise Unsupported('star arguments')
        # Base.method(self, ...) explicit base-class call
        fv = self.expr(f, env, frame)
        args = [self.expr(a, env, frame) for a in e.args]
        kwargs = {k.arg: self.expr(k.value, env, frame) for k in e.keywords}
        return self.call(fv, args, kwargs)


# ====================================================================================================== L8
_PURE_CALLS = {'isinstance', 'int', 'float', 'bool', 'len', 'abs', 'str', 'type', 'hasattr', 'has_constant_result'}
_VALUE_TYPE_NAMES = {'int', 'float', 'complex', 'str', 'bytes', 'bool', 'Real', 'Number', 'Integral', 'Rational', 'Complex'}


def sentinel_invariant(ctx):
    """Establish the repo invariant L8 relies on: every `has_constant_result` method is a conjunction of
    `self.constant_result is not <S>` tests where each S is a module-level sentinel that is no number/string
    (`object()` or an instance of a base-less repository class).  Returns the list of (module short, sentinel name)."""
    ix = ctx.index
    sentinels = []
    defs = 0
    for m in ix.modules.values():
        if not m.name.startswith('Cython.Compiler'):
            continue
        for qn, owner, fn in ix.functions_of(m):
            if fn.name != 'has_constant_result' or owner is None:
                continue
            defs += 1
            body = [s for s in fn.body if not (isinstance(s, ast.Expr) and isinstance(s.value, ast.Constant))]
            if len(body) != 1 or not isinstance(body[0], ast.Return) or body[0].value is None:
                raise AnalysisError('%s.%s is no longer a single sentinel test: the L8 invariant cannot be established' % (m.short, qn))
            v = body[0].value
            conj = v.values if isinstance(v, ast.BoolOp) and isinstance(v.op, ast.And) else [v]
            for c in conj:
                ok = isinstance(c, ast.Compare) and len(c.ops) == 1 and isinstance(c.ops[0], ast.IsNot) and \
                    isinstance(c.left, ast.Attribute) and c.left.attr == 'constant_result' and isinstance(c.left.value, ast.Name) and \
                    c.left.value.id == fn.args.args[0].arg and isinstance(c.comparators[0], ast.Name)
                if not ok:
                    raise AnalysisError('%s.%s: conjunct %s is not `self.constant_result is not <sentinel>`' % (m.short, qn, node_src(c)))
                name = c.comparators[0].id
                r = ix.resolve_name(m, name)
                if not r or r[0] != 'value' or not isinstance(r[2], ast.Call) or not isinstance(r[2].func, ast.Name):
                    raise AnalysisError('sentinel %s.%s is not a module-level object' % (m.short, name))
                ctor = r[2].func.id
                if ctor != 'object':
                    k = ix.resolve_name(r[1], ctor)
                    if not k or k[0] != 'class' or any(b.name in _VALUE_TYPE_NAMES for b in ix.mro(k[1])) or k[1].unresolved_bases:
                        raise AnalysisError('sentinel %s.%s is an instance of %s, which may be a number' % (m.short, name, ctor))
                if (r[1].short, name) not in sentinels:
                    sentinels.append((r[1].short, name))
    if defs < 1 or len(sentinels) < 2:
        raise AnalysisError('has_constant_result / its sentinels not found (%d definitions, %d sentinels)' % (defs, len(sentinels)))
    return sentinels


def _const_subject(e):
    """'X' if e is `X.constant_result` (X a Name / dotted attribute chain)."""
    if isinstance(e, ast.Attribute) and e.attr == 'constant_result':
        b = e.value
        while isinstance(b, ast.Attribute):
            b = b.value
        if isinstance(b, ast.Name):
            return ast.unparse(e.value)
    return None


def _hcr_subject(e):
    """'X' if e is the call `X.has_constant_result()`."""
    if isinstance(e, ast.Call) and not e.args and not e.keywords and isinstance(e.func, ast.Attribute) and e.func.attr == 'has_constant_result':
        b = e.func.value
        while isinstance(b, ast.Attribute):
            b = b.value
        if isinstance(b, ast.Name):
            return ast.unparse(e.func.value)
    return None


def _facts(e, truth):
    """set of X for which `not X.has_constant_result()` is known when expression e has the given truth value."""
    if isinstance(e, ast.UnaryOp) and isinstance(e.op, ast.Not):
        return _facts(e.operand, not truth)
    if isinstance(e, ast.BoolOp):
        if (isinstance(e.op, ast.And) and truth) or (isinstance(e.op, ast.Or) and not truth):
            out = set()
            for v in e.values:
                out |= _facts(v, truth)
            return out
        return set()
    x = _hcr_subject(e)
    if x is not None and not truth:
        return {x}
    return set()


def _value_test(e, local_types):
    """(X, kind, always) if e is a test on the *value* X.constant_result that cannot succeed for a sentinel:
    isinstance(X.constant_result, <number/str types>) -> always False; ordering -> TypeError; == literal / is None -> always False."""
    if isinstance(e, ast.Call) and isinstance(e.func, ast.Name) and e.func.id == 'isinstance' and len(e.args) == 2:
        x = _const_subject(e.args[0])
        if x is None:
            return None
        t = e.args[1]
        ts = t.elts if isinstance(t, ast.Tuple) else [t]
        names = []
        for q in ts:
            if isinstance(q, ast.Name):
                names.append(q.id)
            elif isinstance(q, ast.Attribute):
                names.append(q.attr)
            else:
                return None
        if names and all(n in _VALUE_TYPE_NAMES and (n in local_types or n in ('int', 'float', 'complex', 'str', 'bytes', 'bool')) for n in names):
            return (x, 'isinstance', 'is always False')
        return None
    if isinstance(e, ast.Compare) and len(e.ops) == 1:
        l, r, op = e.left, e.comparators[0], e.ops[0]
        for a, b in ((l, r), (r, l)):
            x = _const_subject(a)
            if x is None:
                continue
            if isinstance(op, (ast.Lt, ast.LtE, ast.Gt, ast.GtE)):
                return (x, 'ordering', 'raises TypeError')
            if isinstance(op, ast.Eq) and isinstance(b, ast.Constant) and isinstance(b.value, (int, float, str, bytes, complex)):
                return (x, 'equality', 'is always False')
            if isinstance(op, ast.Is) and isinstance(b, ast.Constant) and b.value in (None, True, False):
                return (x, 'identity', 'is always False')
    return None


def l8_scan(fn):
    """-> (instances, violations): value tests on X.constant_result in fn; violations are those evaluated where
    `not X.has_constant_result()` is known to hold (dominating guard or short-circuit operand) with X unchanged in between."""
    local_types = set()
    for n in walk_no_nested(fn):
        if isinstance(n, ast.ImportFrom) and n.module == 'numbers':
            local_types |= {a.asname or a.name for a in n.names}
    instances, violations = [], []
    seen = set()

    def visit(e, nc):
        """walk expression e in evaluation order with the set nc of subjects known to be non-constant."""
        if isinstance(e, (ast.Lambda, ast.FunctionDef, ast.AsyncFunctionDef, ast.ClassDef)):
            return None
        vt = _value_test(e, local_types) if isinstance(e, (ast.Call, ast.Compare)) else None
        if vt is not None:
            key = (id(e))
            if key not in seen:
                seen.add(key)
                instances.append((e, vt))
                if vt[0] in nc:
                    violations.append((e, vt))
            return False if vt[0] in nc else None       # statically known outcome (False / raises)
        if isinstance(e, ast.BoolOp):
            cur = set(nc)
            for v in e.values:
                r = visit(v, cur)
                if isinstance(e.op, ast.And):
                    if r is False:
                        return False      # the remaining operands are never evaluated
                    cur |= _facts(v, True)
                else:
                    cur |= _facts(v, False)
            return None
        if isinstance(e, ast.IfExp):
            visit(e.test, nc)
            visit(e.body, nc | _facts(e.test, True))
            visit(e.orelse, nc | _facts(e.test, False))
            return None
        for ch in ast.iter_child_nodes(e):
            if isinstance(ch, ast.AST):
                visit(ch, nc)
        return None

    def impure(node):
        for c in ast.walk(node):
            if isinstance(c, ast.Call):
                nm = c.func.id if isinstance(c.func, ast.Name) else (c.func.attr if isinstance(c.func, ast.Attribute) else None)
                if nm not in _PURE_CALLS:
                    return True
            if isinstance(c, ast.Attribute) and c.attr == 'constant_result' and isinstance(c.ctx, (ast.Store, ast.Del)):
                return True
        return False

    def tr(node, state):
        s = set(state)
        nc = {f[1] for f in s if isinstance(f, tuple) and f[0] == 'NC'}
        dirty = impure(node)
        visit(node, set() if dirty else nc)
        if isinstance(node, ast.stmt) or dirty:
            assigned = pyflow._assigned_names(node) if isinstance(node, ast.stmt) else set()
            for x in list(nc):
                if dirty or any(a == x or x.startswith(a + '.') or a.startswith(x + '.') for a in assigned):
                    s.discard(('NC', x))
        return frozenset(s)

    def refine(test, truth, state):
        add = _facts(test, truth)
        if impure(test):
            return state
        return frozenset(set(state) | {('NC', x) for x in add})

    try:
        pyflow.Flow(tr, refine=refine).run(fn)
    except pyflow.TooManyStates:
        raise AnalysisError('too many states in %s' % fn.name)
    return instances, violations


def rule_L8(ctx, classes, rid='L8', floor=1):
    """classes: list of pyindex ClassInfo whose own methods are scanned."""
    r = Rule(rid, 'no value test on X.constant_result (isinstance number / ordering / == literal) is evaluated where `not X.has_constant_result()` '
                  'is known: there constant_result is one of the sentinels, so the test is dead (or raises)', floor)
    sent = sentinel_invariant(ctx)
    r.info('invariant: has_constant_result() is false exactly for the sentinels %s' % ', '.join('%s.%s' % s for s in sent))
    for c in classes:
        for name, fn in sorted(c.methods.items()):
            inst, viol = l8_scan(fn)
            counts = {}
            for e, vt in inst:
                k = '%s.%s:%s' % (c.name, name, norm_stmt(e))
                counts[k] = counts.get(k, 0) + 1
                r.inst(k + '#%d' % counts[k], sample='%s.%s tests %s' % (c.name, name, node_src(e, 80)))
            for e, vt in viol:
                k = '%s.%s:%s' % (c.name, name, norm_stmt(e))
                r.violate(k, c.module.rel, e.lineno,
                          '%s.%s evaluates `%s` where `not %s.has_constant_result()` holds: %s.constant_result is then a sentinel object, so the test %s '
                          'and the decision that depends on it can never be taken'
                          % (c.name, name, node_src(e, 90), vt[0], vt[0], vt[2]))
    pc = ast.parse("def f(self, t):\n    w = False\n    if self.is_cpow:\n        if not self.operand2.has_constant_result():\n"
                   "            w = isinstance(self.operand2.constant_result, int) and self.operand2.constant_result < 0\n    return w\n").body[0]
    pc_ok = ast.parse("def f(self, t):\n    w = False\n    if self.operand2.has_constant_result():\n"
                      "        w = isinstance(self.operand2.constant_result, int) and self.operand2.constant_result < 0\n    return w\n").body[0]
    r.positive_control(len(l8_scan(pc)[1]) == 1 and len(l8_scan(pc_ok)[1]) == 0 and len(l8_scan(pc_ok)[0]) == 2,
                       'isinstance test under a negative has_constant_result guard (and none under the positive guard)')
    return r


# ====================================================================================================== IntPow (clang)
INTPOW_PRELUDE = ('#define CYTHON_INLINE inline\n#define CYTHON_FALLTHROUGH\n#define likely(x) (x)\n#define unlikely(x) (x)\n'
                  '#define CYTHON_UNUSED\n')


def template_keys(text):
    return set(re.findall(r'%\((\w+)\)[sdr]', text))


def intpow_ast(ctx, signed):
    from ..engine import absint
    sec = ctx.cat.files.get('CMath.c', {}).get('IntPow')
    if not sec or 'impl' not in sec:
        raise AnalysisError('CMath.c::IntPow vanished')
    raw = sec['impl'].raw
    keys = template_keys(raw)
    vals = {k: 'X' for k in keys}
    vals.update(type='long', func_name='sa_pow_long', signed=str(signed))
    try:
        src = raw % vals
    except (KeyError, ValueError, TypeError) as e:
        raise AnalysisError('IntPow template cannot be instantiated: %s' % e)
    return absint.clang_function_ast(src, 'sa_pow_long', prelude=INTPOW_PRELUDE), sec['impl']
