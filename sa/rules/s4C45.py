"""C45-BRACKET — the tracing guard of the pre-sys.monitoring implementation is a balanced bracket on every path.

CPython reports no event while `tstate->tracing` is non-zero (`__Pyx_IsTracing(tstate, 1, 1)` in the start / resume
macros tests exactly that), and the C-level profile / trace callbacks must run with the counter raised so that whatever
they execute is not reported back to them.  Profile.c raises the counter with `__Pyx_EnterTracing` and lowers it with
`__Pyx_LeaveTracing`.  Necessary conditions of "every call produces one start and one matching return event":

 * a function or macro that raises AND lowers the counter, or that invokes a callback, leaves the counter exactly where
   it found it at EVERY exit (return statements, the end of the body, the error exit of a macro) - an exit that keeps
   the counter raised silences every later event of the thread, one that lowers it twice makes it negative (never zero
   again);
 * any other function or macro changes the counter by the same amount at every exit (a wrapper), and one that nothing
   in the file uses and that calls such wrappers does not change it at all;
 * every callback invocation `...->c_tracefunc(...)` / `...->c_profilefunc(...)` happens while the counter is raised;
 * the counter is not lowered before it was raised;
 * for every preprocessor variant that defines the raising macro there is a lowering macro under the same conditions
   which writes every field the raising one writes, and does not store the same constant there.

Decided by a forward dataflow over the control-flow graph of every function definition and macro body of Profile.c
(pC35.CFG: blocks, if/else, loops, switch, goto/labels, return; every combination of the #if groups inside a body; macro
parameters used as statements are exits), with the finite state "counter relative to the entry" in -3..3.  The raising
and lowering primitives are `PyThreadState_EnterTracing` / `PyThreadState_LeaveTracing` and `->tracing++` / `->tracing--`;
every other name gets its effect as a summary computed from its own body (fixpoint), so wrappers and helper functions
can be renamed, added or inlined.  Branches are correlated only on conditions whose identifiers are never written in
the body.  Nothing is executed.
"""
import re

from ..core import Rule, AnalysisError
from . import pC35 as _c

REL = 'Cython/Utility/Profile.c'
FILE = 'Profile.c'
EXIT = '__C45_EXIT__'
CAP = 3

# `tstate->tracing++`: the member name is preceded by `->`; the look-behind above must therefore admit '>'
PRIM = re.compile(
    r'(?P<open>\bPyThreadState_EnterTracing\b|\btracing\s*\+\+|\+\+\s*(?:[\w()]+\s*(?:->|\.)\s*)*tracing\b|\btracing\s*\+=\s*1\b)'
    r'|(?P<close>\bPyThreadState_LeaveTracing\b|\btracing\s*--(?!>)|--\s*(?:[\w()]+\s*(?:->|\.)\s*)*tracing\b|\btracing\s*-=\s*1\b)'
    r'|(?P<cb>\bc_(?:trace|profile)func\s*\()'
    r'|(?P<id>[A-Za-z_]\w*)')
KEYWORDS = {'if', 'else', 'while', 'for', 'switch', 'return', 'sizeof', 'do', 'goto', 'case', 'default', 'break', 'continue', 'defined', 'static', 'int', 'void'}
FUNC_HEAD = re.compile(r'(?m)^[ \t]*((?:[A-Za-z_]\w*[\s\*]+)+)([A-Za-z_]\w*)\s*\(')
COND = re.compile(r'^[ \t]*#[ \t]*(if|ifdef|ifndef|elif|else|endif)\b(.*)$')


class Unit:
    __slots__ = ('name', 'kind', 'conds', 'line', 'body', 'params', 'label')

    def __init__(self, name, kind, conds, line, body, params):
        self.name, self.kind, self.conds, self.line, self.body, self.params = name, kind, tuple(conds), line, body, params
        self.label = ''


def _match(text, i, op, cl):
    depth = 0
    for j in range(i, len(text)):
        if text[j] == op:
            depth += 1
        elif text[j] == cl:
            depth -= 1
            if depth == 0:
                return j
    return -1


def section_units(sec):
    """function definitions of one utility-code section (comments already blanked): outside #define lines, at brace depth 0"""
    text = sec.text
    lines = text.split('\n')
    offs, conds_at, stack, in_define, define_line = [0], [], [], False, []
    for ln in lines:
        offs.append(offs[-1] + len(ln) + 1)
        m = COND.match(ln)
        if m and not in_define:
            d, rest = m.group(1), ' '.join(m.group(2).split())
            if d in ('if', 'ifdef', 'ifndef'):
                stack.append(['%s %s' % (d, rest)])
            elif d in ('elif', 'else') and stack:
                stack[-1].append(('%s %s' % (d, rest)).strip())
            elif d == 'endif' and stack:
                stack.pop()
        conds_at.append(tuple('; '.join(x) for x in stack))
        is_def = in_define or bool(re.match(r'^[ \t]*#[ \t]*define\b', ln))
        define_line.append(is_def)
        in_define = is_def and ln.rstrip().endswith('\\')
    import bisect
    out, covered = [], -1
    for m in FUNC_HEAD.finditer(text):
        if m.start() < covered:
            continue
        li = bisect.bisect_right(offs, m.start(2)) - 1
        if define_line[li] or m.group(2) in KEYWORDS or re.search(r'\b(?:return|else|goto|case|typedef|define)\b', m.group(1)):
            continue
        lp = m.end() - 1
        rp = _match(text, lp, '(', ')')
        if rp < 0:
            continue
        mt = re.match(r'\s*(?:CYTHON_\w+\s*)*\{', text[rp + 1:rp + 120])
        if not mt:
            continue
        b0 = rp + mt.end()
        b1 = _match(text, b0, '{', '}')
        if b1 < 0:
            raise AnalysisError('Profile.c: unbalanced body of %s' % m.group(2))
        covered = b1
        params = [p.strip() for p in text[lp + 1:rp].split(',')]
        out.append(Unit(m.group(2), 'func', conds_at[li], sec.line + li, text[b0:b1 + 1], params))
    return out


def all_units(ctx):
    def build():
        secs = ctx.cat.files.get(FILE)
        if not secs:
            raise AnalysisError('Cython/Utility/Profile.c is not in the utility catalogue')
        units = []
        for sname, types in secs.items():
            for tname, sec in types.items():
                units.extend(section_units(sec))
        for name, ds in ctx.cat.decls.items():
            for d in ds:
                if d.file == FILE and d.kind == 'macro' and d.body:
                    units.append(Unit(name, 'macro', d.conds, d.line, d.body, list(d.params or [])))
        by = {}
        for u in units:
            by.setdefault(u.name, []).append(u)
        for name, us in by.items():
            for u in us:
                u.label = name if len(us) == 1 else '%s[%s]' % (name, ' '.join((u.conds[-1] if u.conds else 'default').split()))
        return units
    return ctx.memo('s4C45.units', build)


def statement_params(u):
    """macro parameters that stand where a statement stands (`else P;`, `) P`, `; P }`): control leaves the macro there"""
    out = set()
    for p in u.params:
        p = p.strip()
        if not re.fullmatch(r'[A-Za-z_]\w*', p):
            continue
        for m in re.finditer(r'\b%s\b' % re.escape(p), u.body):
            before = u.body[:m.start()].rstrip()
            after = u.body[m.end():].lstrip()
            prev_ok = before.endswith((';', '{', '}')) or re.search(r'\belse$', before) or (before.endswith(')') and _closes_control(before))
            next_ok = after[:1] in (';', '}', '') or re.match(r'[A-Za-z_]', after)
            if prev_ok and next_ok and not after.startswith(('(', '=', '->', '.', ',', ')')):
                out.add(p)
    return out


def _closes_control(before):
    """does the `)` at the end of `before` close the header of an if / while / for?"""
    depth = 0
    for j in range(len(before) - 1, -1, -1):
        if before[j] == ')':
            depth += 1
        elif before[j] == '(':
            depth -= 1
            if depth == 0:
                return bool(re.search(r'\b(?:if|while|for)\s*$', before[:j]))
    return False


def _unwrap_do_while_0(t):
    """`do { X } while (0)` (the statement wrapper of a macro) -> `{ X }`: the body runs exactly once"""
    out, i = '', 0
    for m in re.finditer(r'\bdo\s*\{', t):
        if m.start() < i:
            continue
        b0 = m.end() - 1
        b1 = _match(t, b0, '{', '}')
        if b1 < 0:
            continue
        mw = re.match(r'\s*while\s*\(\s*0\s*\)\s*;?', t[b1 + 1:])
        if not mw:
            continue
        out += t[i:m.start()] + '{' + _unwrap_do_while_0(t[b0 + 1:b1]) + '}'
        i = b1 + 1 + mw.end()
    return out + t[i:]


def unit_text(u):
    t = _unwrap_do_while_0(u.body)
    if u.kind == 'macro':
        for p in statement_params(u):
            t = re.sub(r'(?<![\w$])%s\b(?!\s*[(=.,)]|\s*->)\s*;?' % re.escape(p), '{ return %s; } ' % EXIT, t)
    return t


class Result:
    def __init__(self):
        self.exits = {}          # description of the exit -> set of deltas
        self.problems = []       # (kind, text)
        self.has_open = self.has_close = self.has_cb = self.has_call = False
        self.sites = {}          # called unit name -> min counter value (relative to entry) at the call
        self.variants = 0


def events_of(text, names, me):
    out = []
    for m in PRIM.finditer(text):
        if m.group('open'):
            out.append(('open', m.group('open')))
        elif m.group('close'):
            out.append(('close', m.group('close')))
        elif m.group('cb'):
            out.append(('cb', m.group('cb').rstrip('( ')))
        else:
            w = m.group('id')
            if w in names and w != me and w not in KEYWORDS:
                out.append(('call', w))
    return out


_GRAPHS = {}


def _graphs(u):
    """[(variant label, CFG, names written in the variant)] of one unit, built once"""
    g = _GRAPHS.get(id(u))
    if g is None or g[0] is not u:
        text = unit_text(u)
        variants = _c.pp_variants(text) if '#' in text else [('no #if', text)]
        if variants is None:
            raise AnalysisError('Profile.c %s: too many preprocessor variants in one body' % u.name)
        out = []
        for label, vt in variants:
            try:
                out.append((label, _c.CFG(vt), _c.assigned_names(vt)))
            except AnalysisError as e:
                raise AnalysisError('Profile.c %s: %s' % (u.label, e))
        g = _GRAPHS[id(u)] = (u, out)
    return g[1]


def analyse(u, summary, entry, names):
    """dataflow of one unit under the current summaries -> Result"""
    res = Result()
    base = entry.get(u.name, 0)
    for label, cfg, written in _graphs(u):
        res.variants += 1

        def stable(key, written=written):
            ids = set(_c.IDENT.findall(key))
            return bool(ids) and not (ids & written) and '(' not in key

        def transfer(kind, text_, st):
            states = [st]
            for ev, what in events_of(text_, names, u.name):
                nxt = []
                for d in states:
                    if ev == 'open':
                        res.has_open = True
                        nxt.append(d + 1)
                    elif ev == 'close':
                        res.has_close = True
                        if base + d <= 0:
                            res.problems.append(('close-before-open', '`%s` lowers the counter that was not raised on this path' % ' '.join(text_.split())[:70]))
                        nxt.append(d - 1)
                    elif ev == 'cb':
                        res.has_cb = True
                        if base + d < 1:
                            res.problems.append(('callback-outside-guard', 'the callback `%s(...)` is invoked in `%s` while the counter is not raised' % (what, ' '.join(text_.split())[:70])))
                        nxt.append(d)
                    else:
                        ds = summary.get(what)
                        if ds is None:
                            nxt.append(d)
                            continue
                        if ds != frozenset([0]):
                            res.has_call = True
                            if any(x > 0 for x in ds):
                                res.has_open = True
                            if any(x < 0 for x in ds):
                                res.has_close = True
                        res.sites[what] = min(res.sites.get(what, 99), base + d)
                        for x in ds:
                            nxt.append(d + x)
                states = []
                for d in set(nxt):
                    if abs(d) > CAP:
                        res.problems.append(('runaway', 'the counter changes by more than %d on one path (a loop that raises or lowers it)' % CAP))
                    else:
                        states.append(d)
            return states
        for node, d in _c.run_dataflow(cfg, 0, transfer, stable=stable):
            if node.text.strip() == EXIT:
                what = 'the error exit of the macro'
            elif node.text:
                what = '`return %s`' % ' '.join(node.text.split())[:50]
            else:
                what = 'the end of the body'
            res.exits.setdefault(what, set()).add(d)
    return res


def relevant(units):
    """units whose body touches the counter or a callback, and (transitively) the units that use them"""
    hot = {}
    for u in units:
        if any(m.group('open') or m.group('close') or m.group('cb') for m in PRIM.finditer(u.body)):
            hot[u.name] = True
    changed = True
    while changed:
        changed = False
        for u in units:
            if u.name in hot:
                continue
            if any(w in hot for w in set(re.findall(r'[A-Za-z_]\w*', u.body))):
                hot[u.name] = True
                changed = True
    return [u for u in units if u.name in hot]


def solve(units, forced=None):
    """fixpoint of the per-name summaries (set of counter changes at the exits) and entry values"""
    names = {u.name for u in units}
    units = relevant(units)
    summary, entry = {}, {}
    results = {}
    for rnd in range(8):
        new_summary, sites = {}, {}
        for u in units:
            res = analyse(u, summary, entry, names)
            results[id(u)] = res
            ds = set()
            for v in res.exits.values():
                ds |= v
            new_summary.setdefault(u.name, set()).update(ds or {0})
            for callee, dmin in res.sites.items():
                sites[callee] = min(sites.get(callee, 99), dmin)
        new_summary = {k: frozenset(v) for k, v in new_summary.items()}
        new_summary.update(forced or {})
        new_entry = {k: v for k, v in sites.items()}
        if new_summary == summary and new_entry == entry:
            return summary, entry, results
        summary, entry = new_summary, new_entry
    raise AnalysisError('Profile.c: the summaries of the tracing-guard effect did not stabilise (recursive helpers?)')


def referenced(units):
    used = set()
    names = {u.name for u in units}
    for u in units:
        for w in set(re.findall(r'[A-Za-z_]\w*', u.body)):
            if w in names and w != u.name:
                used.add(w)
    return used


def _writes(body):
    """[(lvalue, op, rhs)] of the simple statements of a macro body"""
    out = []
    for stmt in re.split(r'[;{}]', body):
        s = ' '.join(stmt.split())
        s = re.sub(r'^(?:do|while \(0\)|while\(0\))\s*', '', s)
        m = re.fullmatch(r'(?:\+\+|--)?\s*([\w>\-.()]+?)\s*(\+\+|--)', s) or re.fullmatch(r'(\+\+|--)\s*([\w>\-.()]+)', s)
        if m:
            g = m.groups()
            lv, op = (g[0], g[1]) if g[1] in ('++', '--') else (g[1], g[0])
            out.append((lv.replace(' ', ''), op, None))
            continue
        m = re.fullmatch(r'([\w>\-.()]+?)\s*([-+]?=)(?!=)\s*(.+)', s)
        if m:
            out.append((m.group(1).replace(' ', ''), m.group(2), ' '.join(m.group(3).split())))
    return out


def problems_of(units):
    """-> (instances [(key, sample)], findings [(key, line, message)])"""
    # a unit reported as unbalanced is taken as balanced by its users, so that one defect is one finding
    forced, disagree = {}, []
    while True:
        summary, entry, results = solve(units, forced)
        more = {}
        for u in units:
            res = results.get(id(u))
            if res is None or u.name in forced:
                continue
            alld = set().union(*res.exits.values()) if res.exits else {0}
            if ((res.has_open and res.has_close) or res.has_cb) and alld != {0}:
                more[u.name] = frozenset([0])
        if more:
            forced.update(more)
            continue
        # the definitions of one name (version / configuration variants) must agree; their users are analysed with the majority effect.
        # Innermost names first (definitions that use no other counter-changing name), one layer per round, so that one defect is one finding.
        by_name = {}
        for u in units:
            res = results.get(id(u))
            if res is not None and u.name not in forced:
                by_name.setdefault(u.name, []).append((u, frozenset(set().union(*res.exits.values()) if res.exits else {0}), res.has_call))
        cand = {name: defs for name, defs in by_name.items() if len({e for _, e, _ in defs}) > 1}
        inner = {name: defs for name, defs in cand.items() if not any(hc for _, _, hc in defs)} or cand
        for name, defs in inner.items():
            effects = [e for _, e, _ in defs]
            major = max(sorted(set(effects), key=sorted), key=effects.count)
            more[name] = major
            for u, e, _ in defs:
                if e != major:
                    disagree.append((u, e, major))
        if not more:
            break
        forced.update(more)
    used = referenced(units)
    inst, finds = [], []
    prim_only = {}
    for u in units:
        res = results.get(id(u))
        if res is None:
            continue
        interesting = res.has_open or res.has_close or res.has_cb
        if not interesting:
            continue
        key = 'Profile.%s:tracing-guard' % u.label
        alld = set()
        for v in res.exits.values():
            alld |= v
        inst.append((key, '%s %s: counter change at the exits %s, entered at %d%s' % (u.kind, u.label, {k: sorted(v) for k, v in sorted(res.exits.items())}, entry.get(u.name, 0),
                                                                                     ', invokes a callback' if res.has_cb else '')))
        bracket_site = (res.has_open and res.has_close) or res.has_cb
        shown = '; '.join('%s leaves it at %s' % (k, '/'.join('%+d' % x for x in sorted(v))) for k, v in sorted(res.exits.items()))
        seen_kinds = set()
        for kind, text in res.problems:
            if kind in seen_kinds or (kind == 'close-before-open' and not bracket_site):
                continue
            seen_kinds.add(kind)
            finds.append(('%s:%s' % (key, kind), u.line, '%s: %s; %s' % (u.label, text, CONSEQ[kind])))
        if bracket_site and alld != {0}:
            finds.append((key + ':unbalanced', u.line,
                          '%s raises and lowers the tracing counter (`tstate->tracing`) around the profiler callbacks, but not on every path: %s (relative to the entry). '
                          'An exit that keeps the counter raised makes __Pyx_IsTracing(tstate, 1, 1) false for the rest of the thread: every later call of a compiled function produces '
                          'no start, return or line event; an exit that lowers it twice leaves it negative with the same effect' % (u.label, shown)))
        elif not bracket_site and len(alld) > 1:
            finds.append((key + ':unbalanced', u.line,
                          '%s changes the tracing counter by different amounts depending on the path: %s. The events of the thread stop (or the profiler callbacks are traced '
                          'themselves) after the unbalanced path' % (u.label, shown)))
        elif not bracket_site and alld != {0} and u.name not in used and res.has_call:
            finds.append((key + ':unbalanced', u.line,
                          '%s is an entry point (nothing in Profile.c uses it) and leaves the tracing counter changed by %s: %s' % (u.label, '/'.join('%+d' % x for x in sorted(alld)), CONSEQ['open'])))
        if not res.has_call and not res.has_cb and u.kind == 'macro' and len(alld) == 1 and (res.has_open != res.has_close):
            prim_only.setdefault(u.conds, {}).setdefault('open' if res.has_open else 'close', []).append(u)
    for u, e, major in disagree:
        key = 'Profile.%s:tracing-guard:variants-disagree' % u.label
        finds.append((key, u.line, 'this definition of %s changes the tracing counter by %s, the other definitions of the same name by %s: in the configuration that selects it the counter '
                      'is not balanced around the callbacks (%s)' % (u.label, '/'.join('%+d' % x for x in sorted(e)), '/'.join('%+d' % x for x in sorted(major)), CONSEQ['open'])))
    # the raising / lowering primitives come in pairs per preprocessor variant
    for conds, d in sorted(prim_only.items(), key=lambda kv: kv[0]):
        for o in d.get('open', []):
            key = 'Profile.%s:counterpart' % o.label
            cl = d.get('close', [])
            inst.append((key, '%s is lowered again by %s under `%s`' % (o.label, [c.label for c in cl], conds[-1] if conds else 'default')))
            if not cl:
                finds.append((key, o.line, '%s raises the tracing counter under `%s`, but no macro defined under the same conditions lowers it: %s' % (o.label, ' && '.join(conds), CONSEQ['open'])))
                continue
            wo = _writes(o.body)
            for c in cl:
                wc = _writes(c.body)
                for lv, op, rhs in wo:
                    same = [(op2, rhs2) for lv2, op2, rhs2 in wc if lv2 == lv]
                    if not same:
                        finds.append((key + ':' + lv, c.line, '%s writes `%s` but %s never does: the state the raising macro changes is not restored, so tracing stays %s after the first event'
                                      % (o.label, lv, c.label, 'switched off' if rhs is not None else 'guarded')))
                    elif rhs is not None and any(r2 == rhs for _, r2 in same):
                        finds.append((key + ':' + lv, c.line, '%s stores `%s = %s`, the same constant %s stores: the field is not restored when the callback has returned, so tracing stays '
                                      'switched off after the first event' % (c.label, lv, rhs, o.label)))
        for c in d.get('close', []):
            if not d.get('open'):
                key = 'Profile.%s:counterpart' % c.label
                inst.append((key, '%s has no raising macro under the same conditions' % c.label))
                finds.append((key, c.line, '%s lowers the tracing counter under `%s`, but no macro defined under the same conditions raises it: the counter becomes negative and '
                              'no event is reported any more' % (c.label, ' && '.join(conds))))
    return inst, finds


CONSEQ = {
    'close-before-open': 'the counter becomes negative (or the guard of an enclosing event is released early), and events are lost or the callback is traced itself',
    'callback-outside-guard': 'whatever the profiler callback executes is reported back to it as events of the traced program (improperly nested, possibly unbounded recursion)',
    'runaway': 'the counter never returns to zero and no further event is reported',
    'open': 'every later call in the thread produces no start / return event',
}

POSITIVE = '''
static int pc_call(PyThreadState *tstate, PyFrameObject *frame) {
    int ok;
    PyThreadState_EnterTracing(tstate);
    ok = tstate->c_profilefunc(tstate->c_profileobj, frame, PyTrace_CALL, NULL) == 0;
    if (!ok) {
        return -1;
    }
    PyThreadState_LeaveTracing(tstate);
    return 0;
}
'''
NEGATIVE = '''
static int pc_call(PyThreadState *tstate, PyFrameObject *frame) {
    int ok;
    PyThreadState_EnterTracing(tstate);
    ok = tstate->c_profilefunc(tstate->c_profileobj, frame, PyTrace_CALL, NULL) == 0;
    if (!ok) goto bad;
    PyThreadState_LeaveTracing(tstate);
    return 0;
bad:
    PyThreadState_LeaveTracing(tstate);
    return -1;
}
'''


class _Sec:
    def __init__(self, text):
        self.text, self.line = text, 1


def rule_bracket(ctx):
    r = Rule('C45-BRACKET', 'Profile.c (pre-sys.monitoring implementation): the tracing counter raised around the profiler / trace callbacks is lowered again on every path of every '
             'function and macro (return statements and macro error exits included), callbacks run only while it is raised, and the raising / lowering macros of every '
             'version variant restore the same fields', floor=10)
    units = all_units(ctx)
    if len(units) < 40:
        raise AnalysisError('only %d functions / macros found in Profile.c' % len(units))
    inst, finds = problems_of(units)
    for key, sample in inst:
        r.inst(key, sample=sample)
    seen = set()
    for key, line, msg in finds:
        if key in seen:
            continue
        seen.add(key)
        r.violate(key, REL, line, msg)
    if not any(':counterpart' in k for k, _ in inst):
        raise AnalysisError('Profile.c: no macro pair that raises / lowers the tracing counter was recognised')
    _, pf = problems_of(section_units(_Sec(POSITIVE)))
    _, nf = problems_of(section_units(_Sec(NEGATIVE)))
    r.positive_control(any(k.endswith(':unbalanced') for k, _, _ in pf) and not nf, 'early `return -1` between raising and lowering the counter (and the goto-cleanup form of the same function is balanced)')
    return r
