"""C44-POSPAIR: the error position is saved and restored symmetrically around code that may overwrite it.

The traceback entry of a function is built from three C variables (read by __Pyx_AddTraceback in
CCodeWriter.put_add_traceback): line, C line, file name.  They are written by every __PYX_ERR() that executes, including
those of errors that are raised AND handled inside cleanup code (the `finally:` copy for the exception case, the body of
a parallel section in another thread).  Wherever the generator parks these variables in other storage and later copies
them back, the two copies must be mirror images, and the restoring helper must be handed the very storage the saving
helper filled, on every path that continues to the outer error label.

 A  (writer/reader agreement inside a class) every emitted assignment `slot = <position variable>` (save) has a
    counterpart `<position variable> = slot` (restore) in the same class with the same slot, and vice versa; line and file
    name are among the saved variables.  Slots are C names (Naming.*) or `parameter[index]` expressions of the helper.
 B  (call-site agreement, path-sensitive) in a method that calls the saving helper: the restoring helper receives, for
    each slot parameter, the same local variable the saving helper received (aliases followed, no conditional, no None);
    and a jump to an error label after the save is preceded by the restore on that path.

The set of position variables is read from put_add_traceback, the emitted text from the %-format / f-string templates
(pC37.Res); nothing is executed.
"""
import ast, re

from ..core import Rule, AnalysisError, node_src
from ..engine import pyflow
from ..engine.pyindex import walk_no_nested, is_self_attr
from .pC37 import Res, emit_call, label_kind, deref, local_assigns

PH = '\xa7'
MODULES = ('Nodes', 'ExprNodes', 'UtilNodes', 'ModuleNode', 'Code')
ASSIGN = re.compile(r'^\s*(%s|[A-Za-z_]\w*)\s*=\s*(%s|[A-Za-z_]\w*)\s*$' % (PH, PH))


# ------------------------------------------------------------------------------------------------ the position variables
def position_variables(ctx):
    """{Naming attribute: C name} of the variables __Pyx_AddTraceback is called with"""
    ix = ctx.index
    cls = ix.cls('Code', 'CCodeWriter')
    found = ix.find_method(cls, 'put_add_traceback')
    if found is None:
        raise AnalysisError('Code.CCodeWriter.put_add_traceback vanished')
    owner, fn = found
    res = Res(ctx, owner, fn)
    res.env = _unpack_env(fn)          # also follows `a, b, c = <tuple>` bindings
    out = {}
    for n in walk_no_nested(fn):
        ec = emit_call(n)
        if ec is None:
            continue
        t = ec[1]
        const = [c.value for c in ast.walk(t) if isinstance(c, ast.Constant) and isinstance(c.value, str)]
        if not any('__Pyx_AddTraceback' in c for c in const):
            continue
        exprs = []
        if isinstance(t, ast.BinOp) and isinstance(t.op, ast.Mod):
            r = deref(t.right, res.env)
            exprs = list(r.elts) if isinstance(r, (ast.Tuple, ast.List)) else [r]
        elif isinstance(t, ast.JoinedStr):
            exprs = [v.value for v in t.values if isinstance(v, ast.FormattedValue)]
        for e in exprs:
            for a in ast.walk(deref(e, res.env)):
                if isinstance(a, ast.Attribute) and isinstance(a.value, ast.Name) and a.value.id == 'Naming' and a.attr in res.naming:
                    out[a.attr] = res.naming[a.attr]
    if len(out) < 2:
        raise AnalysisError('put_add_traceback: the position variables handed to __Pyx_AddTraceback were not found (%s)' % sorted(out))
    return out


# ------------------------------------------------------------------------------------------------ A: transfers emitted by one class
def _slot(expr, params):
    """normalised storage expression: ('param', parameter name, path) for parameter[index]... expressions"""
    path = []
    e = expr
    while isinstance(e, ast.Subscript) and isinstance(e.slice, ast.Constant):
        path.insert(0, e.slice.value)
        e = e.value
    if isinstance(e, ast.Name) and e.id in params:
        return ('param', e.id, tuple(path))
    return ('expr', ' '.join(ast.unparse(expr).split()), ())


def transfers(ctx, cls, fn, posvars):
    """[(direction 'save'|'restore', position attr, slot, call node)] for the assignments fn emits"""
    res = Res(ctx, cls, fn)
    byc = {v: k for k, v in posvars.items()}
    params = [a.arg for a in fn.args.args[1:]]
    out = []
    for n in walk_no_nested(fn):
        ec = emit_call(n)
        if ec is None:
            continue
        t = res.template(ec[1])
        if t is None:
            if any(isinstance(a, ast.Attribute) and isinstance(a.value, ast.Name) and a.value.id == 'Naming' and a.attr in posvars for a in ast.walk(ec[1])):
                raise AnalysisError('%s.%s: an emission mentioning a position variable cannot be resolved: %s' % (cls.qual, fn.name, node_src(ec[1])))
            continue
        text, ph = t
        if not any(c in text for c in byc):
            continue
        k = 0
        for piece in re.split(r'[;{}]', text):
            nph = piece.count(PH)
            m = ASSIGN.match(piece)
            if m:
                sides = []
                kk = k
                for tok in m.groups():
                    if tok == PH:
                        sides.append(('ph', ph[kk]))
                        kk += 1
                    else:
                        sides.append(('c', tok))
                lhs, rhs = sides
                lpos = lhs[0] == 'c' and lhs[1] in byc
                rpos = rhs[0] == 'c' and rhs[1] in byc
                if lpos != rpos:
                    var = byc[(lhs if lpos else rhs)[1]]
                    other = rhs if lpos else lhs
                    if other[0] == 'ph':
                        slot = _slot(other[1], params)
                    elif re.fullmatch(r'[A-Za-z_]\w*', other[1]) and not other[1].isdigit():
                        slot = ('cname', other[1], ())
                    else:
                        slot = None
                    if slot is not None:
                        out.append(('restore' if lpos else 'save', var, slot, n))
            k += nph
    return out


def class_pairs(ctx, posvars):
    """{class: {'save': {var: [(slot, method, node)]}, 'restore': {...}}} for classes that move position variables"""
    ix = ctx.index
    out = {}
    for ms in MODULES:
        try:
            m = ix.mod(ms)
        except AnalysisError:
            continue
        for c in m.classes.values():
            if not any(isinstance(a, ast.Attribute) and isinstance(a.value, ast.Name) and a.value.id == 'Naming' and a.attr in posvars for a in ast.walk(c.node)):
                continue
            rec = {'save': {}, 'restore': {}}
            for name, fn in c.methods.items():
                for d, var, slot, node in transfers(ctx, c, fn, posvars):
                    rec[d].setdefault(var, []).append((slot, fn, node))
            if rec['save'] or rec['restore']:
                out[c] = rec
    return out


def _slots_text(slots):
    return ' / '.join(sorted(('<slot parameter>' + ''.join('[%r]' % i for i in path)) if kind == 'param' else name for kind, name, path in slots))


def check_class(c, rec, posvars, need=('lineno', 'filename')):
    """-> problems [(key, line, msg)], obligations [key]"""
    problems, obl = [], []
    qual = c.qual
    # plain writers of a position variable that are not part of a save/restore pair (e.g. the macro that sets the position) are
    # not transfers: a class takes part only if it SAVES something
    if not rec['save']:
        return problems, obl

    def norm(slot, fn):
        # parameter slots of different helpers are matched by (helper-independent) path; the parameter itself is matched at the call sites (B)
        return (slot[0], slot[1] if slot[0] != 'param' else '', slot[2])
    for var in sorted(set(rec['save']) | set(rec['restore'])):
        key = '%s:pos:%s' % (qual, var)
        obl.append(key)
        s, r = rec['save'].get(var, []), rec['restore'].get(var, [])
        if s and not r:
            problems.append((key + ':not-restored', s[0][2].lineno,
                             '%s saves %s (%s) in %s but no method of the class copies it back: after cleanup code that raised and handled an error of its own, the '
                             'traceback entry names the position of that inner error' % (qual, var, posvars[var], s[0][1].name)))
        elif r and not s:
            problems.append((key + ':not-saved', r[0][2].lineno,
                             '%s restores %s (%s) in %s from storage that no method of the class fills with it: the traceback position becomes stale or zero'
                             % (qual, var, posvars[var], r[0][1].name)))
        else:
            ss, rs = {norm(x[0], x[1]) for x in s}, {norm(x[0], x[1]) for x in r}
            if ss != rs:
                problems.append((key + ':slot-mismatch', r[0][2].lineno,
                                 '%s: %s (%s) is saved into %s but restored from %s: the traceback reports another variable\'s value (e.g. the C line as the source line)'
                                 % (qual, var, posvars[var], _slots_text(ss), _slots_text(rs))))
    saved = {v for v in rec['save']}
    for part in need:
        hits = [v for v in posvars if part in v and 'c' + part not in v]
        if hits and not any(h in saved for h in hits):
            obl.append('%s:pos:%s' % (qual, part))
            problems.append(('%s:pos:%s:not-saved' % (qual, part), c.node.lineno,
                             '%s saves the error position without its %s: the traceback entry of a propagating exception takes the %s of an error handled inside the cleanup code'
                             % (qual, part, part)))
    return problems, obl


# ------------------------------------------------------------------------------------------------ B: call sites
def _actual(call, fn, pname):
    ps = [a.arg for a in fn.args.args[1:]]
    for k in call.keywords:
        if k.arg == pname:
            return k.value
    if pname in ps and ps.index(pname) < len(call.args):
        return call.args[ps.index(pname)]
    return None


def check_calls(c, rec, caller):
    """path-sensitive agreement of the slot arguments in one calling method -> (problems, n obligations)"""
    savers, restorers = {}, {}     # helper name -> {(param, path): var}
    for d, table in (('save', savers), ('restore', restorers)):
        for var, lst in rec[d].items():
            for slot, fn, node in lst:
                if slot[0] == 'param':
                    table.setdefault(fn.name, (fn, {}))[1][(slot[1], slot[2])] = var
    if not savers or not restorers:
        return [], 0
    env = local_assigns(caller)
    problems, nobl = {}, [0]

    def resolve(e):
        e = deref(e, env) if isinstance(e, ast.Name) and len(env.get(e.id, ())) == 1 and isinstance(env[e.id][0], ast.Name) else e
        return e

    def expand(call):
        """a call of an own method that merely wraps a saving / restoring helper counts as that helper's call, with the wrapper's
        parameters replaced by the caller's arguments (one level)"""
        if not is_self_attr(call.func):
            return [(call, None)]
        name = call.func.attr
        if name in savers or name in restorers or name not in c.methods or c.methods[name] is caller:
            return [(call, None)]
        wrapper = c.methods[name]
        wparams = [a.arg for a in wrapper.args.args[1:]]
        out = []
        for inner in (x for x in walk_no_nested(wrapper) if isinstance(x, ast.Call) and is_self_attr(x.func) and (x.func.attr in savers or x.func.attr in restorers)):
            out.append((inner, {p: _actual(call, wrapper, p) for p in wparams}))
        return out or [(call, None)]

    def actual(call, sub, fn, p):
        a = _actual(call, fn, p)
        if sub is not None and isinstance(a, ast.Name) and a.id in sub:
            a = sub[a.id]
        return a

    def tr(n, state):
        s = set(state)
        for call, sub in [x for c0 in pyflow.calls_in(n) for x in expand(c0)]:
            if is_self_attr(call.func) and call.func.attr in savers:
                fn, slots = savers[call.func.attr]
                for (p, path), var in slots.items():
                    a = actual(call, sub, fn, p)
                    a = resolve(a) if a is not None else None
                    if a is None or (isinstance(a, ast.Constant) and a.value is None):
                        continue
                    s.add(('SAVED', var, ast.unparse(a) if isinstance(a, ast.Name) else '<%s>' % node_src(a, 40)))
            elif is_self_attr(call.func) and call.func.attr in restorers:
                fn, slots = restorers[call.func.attr]
                for (p, path), var in slots.items():
                    saved = [f for f in s if isinstance(f, tuple) and f[0] == 'SAVED' and f[1] == var]
                    if not saved:
                        continue
                    nobl[0] += 1
                    a = actual(call, sub, fn, p)
                    a = resolve(a) if a is not None else None
                    got = ast.unparse(a) if isinstance(a, ast.Name) else None
                    for f in saved:
                        if got == f[2]:
                            s.discard(f)
                        else:
                            problems.setdefault('%s.%s:restore-arg:%s' % (c.qual, caller.name, var), (
                                call.lineno, '%s.%s saves %s into the storage named by `%s` but hands %s the argument `%s` for it: on some path the position is not '
                                'copied back (or copied back from elsewhere), so after a `finally:` body that raised and handled an error of its own the traceback of the '
                                'propagating exception names the line of that inner error' % (c.qual, caller.name, var, f[2], call.func.attr, node_src(a, 80) if a is not None else 'nothing')))
            elif isinstance(call.func, ast.Attribute) and call.func.attr == 'put_goto' and call.args:
                lab = call.args[0]
                lab = deref(lab, env)
                if label_kind(lab) == 'error':
                    left = sorted({f[1] for f in s if isinstance(f, tuple) and f[0] == 'SAVED'})
                    nobl[0] += 1
                    if left:
                        problems.setdefault('%s.%s:error-exit-without-restore' % (c.qual, caller.name), (
                            call.lineno, '%s.%s jumps to the outer error label while %s are still parked in their save slots (no restoring helper was called on this path): '
                            'the traceback is built from whatever position the cleanup code left behind' % (c.qual, caller.name, ', '.join(left))))
        if isinstance(n, ast.Assign):
            # a save slot variable that is rebound no longer names the filled storage
            names = {t.id for t in n.targets if isinstance(t, ast.Name)}
            s = {f for f in s if not (isinstance(f, tuple) and f[0] == 'SAVED' and f[2] in names)}
        return frozenset(s)
    pyflow.Flow(tr, correlate=True).run(caller)
    return [(k, v[0], v[1]) for k, v in sorted(problems.items())], nobl[0]


def rule_pospair(ctx):
    r = Rule('C44-POSPAIR', 'the variables __Pyx_AddTraceback reads are saved and restored as mirror images (same variable <-> same slot) and the restoring helper receives the '
             'storage the saving helper filled on every path that continues to an error label', floor=9)
    posvars = position_variables(ctx)
    r.inst('position-variables', sample='__Pyx_AddTraceback reads %s' % sorted(posvars.values()))
    pairs = class_pairs(ctx, posvars)
    if not pairs:
        raise AnalysisError('no class saves/restores the error position variables')
    for c, rec in sorted(pairs.items(), key=lambda kv: kv[0].qual):
        problems, obl = check_class(c, rec, posvars)
        for k in obl:
            r.inst(k, sample='%s: saved in %s / restored in %s' % (k, sorted({x[1].name for v in rec['save'].values() for x in v}), sorted({x[1].name for v in rec['restore'].values() for x in v})))
        for key, line, msg in problems:
            r.violate(key, c.module.rel, line, msg)
        helpers = {x[1].name for d in ('save', 'restore') for v in rec[d].values() for x in v if x[0][0] == 'param'}
        for name, fn in c.methods.items():
            if name in helpers:
                continue
            if not any(is_self_attr(n.func) and n.func.attr in helpers for n in walk_no_nested(fn) if isinstance(n, ast.Call)):
                continue
            probs, n = check_calls(c, rec, fn)
            for i in range(n):
                r.inst('%s.%s:call-site#%d' % (c.qual, name, i), sample='%s.%s: slot argument / error exit %d' % (c.qual, name, i))
            for key, line, msg in probs:
                r.violate(key, c.module.rel, line, msg)
    # positive control: a restore that is conditioned on something the save is not
    pc_cls = ast.parse(
        "class T:\n"
        "    def catch(self, code, pos=None):\n        if pos:\n            code.putln('%s = %s; %s = %s;' % (pos[0], Naming.lineno_cname, pos[1], Naming.filename_cname))\n"
        "    def uncatch(self, code, pos=None):\n        if pos:\n            code.putln('%s = %s; %s = %s;' % (Naming.lineno_cname, pos[0], Naming.filename_cname, pos[1]))\n"
        "    def gen(self, code):\n        old = code.error_label\n        tmp = code.alloc()\n        self.catch(code, tmp)\n        self.body.generate(code)\n"
        "        self.uncatch(code, tmp if code.label_used(code.error_label) else None)\n        code.put_goto(old)\n").body[0]

    class _C:
        qual = 'pc.T'
        node = pc_cls
        methods = {f.name: f for f in pc_cls.body}
        module = None
    res_cls = next(iter(pairs))       # any real class: only used for Naming resolution
    rec = {'save': {}, 'restore': {}}
    for fn in _C.methods.values():
        for d, var, slot, node in transfers(ctx, res_cls, fn, posvars):
            rec[d].setdefault(var, []).append((slot, fn, node))
    p2, _ = check_calls(_C, rec, _C.methods['gen'])
    r.positive_control(len(rec['save']) == 2 and not check_class(_C, rec, posvars)[0] and any(':restore-arg:' in k for k, _, _ in p2),
                       'restore argument conditioned on label_used while the save is unconditional')
    return r


# ======================================================================================================================
#  fourth round
# ======================================================================================================================
#  C44-ERRPOS   the error position travels  emission site -> __PYX_ERR / __PYX_MARK_ERR_POS -> position variables ->
#               __Pyx_AddTraceback(...) -> C parameters -> CPython's code/frame constructors.  Every hop is checked for
#               ROLE agreement (file / source line / C line); the roles are derived at each hop from what the value is
#               used for, never from its name:
#                 macro:      variable assigned `table[param]` = file, assigned a bare parameter = line, assigned __LINE__ = C line
#                 emission:   the argument in the macro's file-parameter position must be lookup_filename(pos[FILE]) and the one in
#                             the line-parameter position pos[LINE] of the same pos (FILE/LINE = the components the scanner puts
#                             the source and the line number in)
#                 C side:     a parameter handed to __Pyx_CLineForTraceback is the C line; one handed to PyCode_NewEmpty's
#                             `firstlineno` / __Pyx_PyFrame_SetLineNumber / stored as "co_firstlineno" is the source line; etc.
#  C44-TBKEY    the code-object cache of __Pyx_AddTraceback is read and written under the same key
#  C44-FIRST    line table base: driver feeds the encoder's result back, starts from its first-line parameter; the code object is
#               created with the same first line as the table was built with; that line is pos[LINE]; the table string is
#               turned into bytes with a codec that maps chr(n) to the byte n
#  C44-ORDER    the position list handed to the encoder is ascending and offsets number the same list in the same order
from ..engine import cutil as _cutil

PYX_MACROS = ('__PYX_ERR', '__PYX_MARK_ERR_POS')


def scanner_pos_indices(ctx):
    """(FILE index, LINE index) of a node position: where the Plex scanner puts its `name` and its line counter"""
    tree = ctx.parse('Cython/Plex/Scanners.py')
    for n in ast.walk(tree):
        if isinstance(n, ast.Assign) and isinstance(n.value, ast.Tuple) and any(is_self_attr(t) and 'position' in t.attr for t in n.targets) and len(n.value.elts) == 3:
            srcs = [ast.unparse(e) for e in n.value.elts]
            if 'self.name' in srcs and 'self.cur_line' in srcs:
                return srcs.index('self.name'), srcs.index('self.cur_line')
    raise AnalysisError('Plex.Scanners: the (name, line, column) position tuple built by the scanner was not found')


def _unpack_env(fn):
    """local_assigns plus names bound by `a, b = <tuple display or name of one>`"""
    env = local_assigns(fn)
    for n in walk_no_nested(fn):
        if isinstance(n, ast.Assign) and len(n.targets) == 1 and isinstance(n.targets[0], ast.Tuple):
            v = deref(n.value, env)
            if isinstance(v, ast.Tuple) and len(v.elts) == len(n.targets[0].elts):
                for t, e in zip(n.targets[0].elts, v.elts):
                    if isinstance(t, ast.Name):
                        env.setdefault(t.id, []).append(e)
    return env


def full_text(res, node, env, depth=0):
    """emitted text of a string expression with local names followed and nested templates substituted -> (text, [placeholder exprs]) or None"""
    if depth > 6:
        return None
    node = deref(node, env)
    if isinstance(node, ast.Constant) and isinstance(node.value, str):
        return node.value.replace(PH, '?'), []
    if isinstance(node, ast.JoinedStr):
        out, ph = '', []
        for v in node.values:
            if isinstance(v, ast.Constant):
                out += str(v.value).replace(PH, '?')
                continue
            a = res.atom(v.value) if v.conversion == -1 else None
            if a is not None and v.format_spec is None:
                out += a
                continue
            sub = full_text(res, v.value, env, depth + 1) if v.format_spec is None and v.conversion == -1 else None
            if sub is not None and not isinstance(deref(v.value, env), ast.Constant):
                out += sub[0]
                ph += sub[1]
            else:
                out += PH
                ph.append(deref(v.value, env))
        return out, ph
    if isinstance(node, ast.BinOp) and isinstance(node.op, ast.Add):
        a, b = full_text(res, node.left, env, depth + 1), full_text(res, node.right, env, depth + 1)
        return None if a is None or b is None else (a[0] + b[0], a[1] + b[1])
    if isinstance(node, ast.Call) and isinstance(node.func, ast.Attribute) and node.func.attr == 'format' and not node.keywords:
        # "...{}...{}".format(a, b) with automatic numbering (or {0} {1} in order)
        left = full_text(res, node.func.value, env, depth + 1)
        if left is None or left[1]:
            return None
        fields = list(re.finditer(r'\{(\d*)\}', left[0]))
        if len(fields) != len(node.args) or any(f.group(1) not in ('', str(i)) for i, f in enumerate(fields)) or re.search(r'\{[^}\d]', left[0]):
            return None
        out, ph, pos = '', [], 0
        for f, a in zip(fields, node.args):
            out += left[0][pos:f.start()]
            pos = f.end()
            at = res.atom(a)
            if at is not None:
                out += at
            else:
                out += PH
                ph.append(deref(a, env))
        return out + left[0][pos:], ph
    if isinstance(node, ast.BinOp) and isinstance(node.op, ast.Mod):
        left = full_text(res, node.left, env, depth + 1)
        if left is None or left[1]:
            return None
        fmt = left[0]
        right = deref(node.right, env)
        specs = [m for m in res.SPEC.finditer(fmt) if m.group(1) != '%']
        args = list(right.elts) if isinstance(right, ast.Tuple) else (res.seq(right) if len(specs) != 1 else None) or [right]
        if len(args) != len(specs):
            return None
        out, ph, pos, ai = '', [], 0, 0
        for m in res.SPEC.finditer(fmt):
            out += fmt[pos:m.start()]
            pos = m.end()
            if m.group(1) == '%':
                out += '%'
                continue
            a = res.atom(args[ai])
            sub = None if a is not None else full_text(res, args[ai], env, depth + 1)
            if a is not None:
                out += a
            elif sub is not None and isinstance(deref(args[ai], env), (ast.JoinedStr, ast.BinOp)):
                out += sub[0]
                ph += sub[1]
            else:
                out += PH
                ph.append(deref(args[ai], env))
            ai += 1
        return out + fmt[pos:], ph
    return None


def emitted_texts(ctx, cls, fn):
    """[(node, text, placeholders)] for every string the method emits or returns that the evaluator can resolve"""
    res = Res(ctx, cls, fn)
    env = _unpack_env(fn)
    out = []
    for n in walk_no_nested(fn):
        exprs = []
        ec = emit_call(n)
        if ec is not None:
            exprs.append(ec[1])
        if isinstance(n, ast.Return) and n.value is not None:
            exprs.append(n.value)
        if isinstance(n, ast.Call) and isinstance(n.func, ast.Attribute) and n.func.attr in ('_write_lines', 'write') and n.args:
            exprs.append(n.args[0])
        for e in exprs:
            t = full_text(res, e, env)
            if t is not None:
                out.append((n, t[0], t[1]))
    out.sort(key=lambda x: (x[0].lineno, x[0].col_offset))
    return out


def _macro_defs(ctx):
    """{macro name: [(params, body text, line)]} for the position macros the module preamble defines"""
    ix = ctx.index
    out = {}
    mod = ix.mod('ModuleNode')
    for c in mod.classes.values():
        for fn in c.methods.values():
            if not any(isinstance(k, ast.Constant) and isinstance(k.value, str) and '#define __PYX_' in k.value for k in ast.walk(fn)):
                continue
            texts = emitted_texts(ctx, c, fn)
            joined, pending = [], None
            for n, text, ph in texts:
                # a definition continued with a backslash is emitted as two putln calls
                if pending is not None:
                    text = pending + ' ' + text
                    pending = None
                if text.rstrip().endswith('\\'):
                    pending = text.rstrip()[:-1]
                    continue
                joined.append((n, text, ph))
            for n, text, ph in joined:
                m = re.match(r'\s*#define\s+(__PYX_\w+)\(([^)]*)\)\s*(.*)$', text, re.S)
                if m and m.group(1) in PYX_MACROS:
                    if ph:
                        raise AnalysisError('ModuleNode: the definition of %s contains a part that cannot be resolved: %s' % (m.group(1), node_src(ph[0])))
                    out.setdefault(m.group(1), []).append(([p.strip() for p in m.group(2).split(',')], m.group(3), n.lineno))
    if '__PYX_MARK_ERR_POS' not in out:
        raise AnalysisError('ModuleNode: the definition of __PYX_MARK_ERR_POS was not found in the emitted preamble')
    return out


def classify_macro_body(params, body, line_macro):
    """{C variable: (role, macro parameter, table)} for the assignments of a position macro: `v = table[param]` file, `v = param` line, `v = __LINE__` C line"""
    roles = {}
    for stmt in re.split(r'[;{}]', body):
        m = re.match(r'^\s*([A-Za-z_]\w*)\s*=\s*(.+?)\s*$', stmt)
        if not m:
            continue
        lhs, rhs = m.groups()
        mi = re.match(r'^([A-Za-z_]\w*)\s*\[\s*([A-Za-z_]\w*)\s*\]$', rhs)
        if mi and mi.group(2) in params:
            roles[lhs] = ('file', mi.group(2), mi.group(1))
        elif rhs in params:
            roles[lhs] = ('line', rhs, None)
        elif rhs == line_macro:
            roles[lhs] = ('cline', None, None)
        else:
            roles[lhs] = ('?', rhs, None)
    return roles


def macro_roles(ctx, posvars):
    """-> (roles per variant [{cname: (role, param)}], forward {outer macro: [inner param index or None per outer param]}, problems)"""
    naming = None
    defs = _macro_defs(ctx)
    from .pC37 import naming_values
    naming = naming_values(ctx)
    line_macro = naming.get('line_c_macro', '__LINE__')
    table = naming.get('filetable_cname')
    variants, problems = [], []
    for params, body, line in defs['__PYX_MARK_ERR_POS']:
        variants.append((params, classify_macro_body(params, body, line_macro), line))
    forward = {}
    for params, body, line in defs.get('__PYX_ERR', []):
        m = re.search(r'__PYX_MARK_ERR_POS\(([^)]*)\)', body)
        if not m:
            problems.append(('__PYX_ERR:forward', line, '__PYX_ERR no longer expands to __PYX_MARK_ERR_POS(...)'))
            continue
        inner = [a.strip() for a in m.group(1).split(',')]
        forward['__PYX_ERR'] = [inner.index(p) if p in inner else None for p in params]
        g = re.search(r'goto\s+(\w+)', body)
        if not g or g.group(1) not in params:
            problems.append(('__PYX_ERR:goto', line, '__PYX_ERR does not jump to its label parameter'))
    return variants, forward, table, problems


# ---------------------------------------------------------------------------------------------------------------- C side
LINE_SINKS = {('__Pyx_PyFrame_SetLineNumber', 1): 'line', ('__Pyx_CLineForTraceback', 1): 'cline', ('Py_CompileString', 1): 'file'}
NAMED_SINKS = {'PyCode_NewEmpty': {'firstlineno': 'line', 'filename': 'file', 'funcname': 'func'}}
DICT_KEY_SINKS = {'co_firstlineno': 'line', 'co_name': 'func', 'co_filename': 'file'}
CONVERSIONS = ('PyLong_FromLong', 'PyLong_FromSsize_t', 'PyUnicode_FromString', 'PyInt_FromLong')


def _c_calls(body):
    """[(callee, [arg texts], offset)] of the calls in a C function body (comments stripped)"""
    out = []
    for m in re.finditer(r'(\$?[A-Za-z_]\w*)\s*\(', body):
        name = m.group(1)
        if name in ('if', 'while', 'for', 'switch', 'return', 'sizeof', 'unlikely', 'likely', 'defined'):
            continue
        lp = m.end() - 1
        rp = _cutil.match_paren(body, lp)
        if rp < 0:
            continue
        out.append((name, [a.strip() for a in _cutil.split_args(body[lp + 1:rp])], m.start()))
    return out


def c_param_roles(ctx, fname, section_funcs, depth=0, _seen=None):
    """per definition variant of the C function: [{param index: set of roles}]"""
    _seen = _seen or set()
    api = None
    out = []
    for d in [x for x in ctx.cat.decls.get(fname, []) if x.kind == 'func']:
        body = _cutil.strip_c_comments(d.body or '')
        pnames = [re.findall(r'[A-Za-z_]\w*', p)[-1] if re.findall(r'[A-Za-z_]\w*', p) else '' for p in d.params]
        alias = {p: p for p in pnames}
        for m in re.finditer(r'\b([A-Za-z_]\w*)\s*=\s*(%s)\s*\(\s*([A-Za-z_]\w*)\s*\)' % '|'.join(CONVERSIONS), body):
            if m.group(3) in alias:
                alias[m.group(1)] = alias[m.group(3)]
        roles = {i: set() for i in range(len(pnames))}

        def note(arg, role):
            a = re.sub(r'^\(\s*[\w\s\*]+\)\s*', '', arg).strip()
            if a in alias and alias[a] in pnames:
                roles[pnames.index(alias[a])].add(role)
        for callee, args, off in _c_calls(body):
            for (cn, ai), role in LINE_SINKS.items():
                if callee == cn and ai < len(args):
                    note(args[ai], role)
            if callee in NAMED_SINKS:
                if api is None:
                    from ..engine.tables import cpython_api
                    api = cpython_api()
                proto = api.get(callee)
                if proto is None:
                    raise AnalysisError('CPython header prototype of %s not found' % callee)
                for i, ptxt in enumerate(proto[1]):
                    ids = re.findall(r'[A-Za-z_]\w*', ptxt)
                    if ids and ids[-1] in NAMED_SINKS[callee] and i < len(args):
                        note(args[i], NAMED_SINKS[callee][ids[-1]])
            if callee in ('PyDict_SetItemString', 'PyObject_SetAttrString') and len(args) == 3:
                k = args[1].strip('"')
                if k in DICT_KEY_SINKS:
                    note(args[2], DICT_KEY_SINKS[k])
            if callee in section_funcs and callee != fname and callee not in _seen and depth < 3:
                subs = c_param_roles(ctx, callee, section_funcs, depth + 1, _seen | {fname})
                for sub, _d in subs:
                    for i, rs in sub.items():
                        if i < len(args):
                            for role in rs:
                                note(args[i], role)
        out.append((roles, d))
    return out


def _python_arg_role(e, cname_roles, naming):
    """roles of a value handed to the traceback helper: {role} for a position variable, {'none'} for a constant, set() unknown"""
    if isinstance(e, ast.IfExp):
        return _python_arg_role(e.body, cname_roles, naming) | _python_arg_role(e.orelse, cname_roles, naming)
    if isinstance(e, ast.Constant):
        return {'none'}
    if isinstance(e, ast.Attribute) and isinstance(e.value, ast.Name) and e.value.id == 'Naming':
        c = naming.get(e.attr)
        return set(cname_roles.get(c, ()))
    return set()


def rule_errpos(ctx):
    r = Rule('C44-ERRPOS', 'role agreement of the error position along emission site -> __PYX_ERR/__PYX_MARK_ERR_POS -> position variables -> __Pyx_AddTraceback arguments -> C '
             'parameters -> CPython constructors: the file-table index, the source line and the C line each stay in their own lane (roles derived from use at every hop)', floor=16)
    from .pC37 import naming_values
    naming = naming_values(ctx)
    posvars = position_variables(ctx)
    FILE_I, LINE_I = scanner_pos_indices(ctx)
    variants, forward, table, problems = macro_roles(ctx, posvars)
    mrel = 'Cython/Compiler/ModuleNode.py'
    for key, line, msg in problems:
        r.violate('ModuleNode.' + key, mrel, line, msg)
    pos_cnames = set(posvars.values())
    cname_roles = {}
    pcr = classify_macro_body(['f_index', 'lineno'], '{ fn = tab[lineno]; (void) fn; ln = f_index; cl = __LINE__; }', '__LINE__')
    r.positive_control(pcr.get('fn', ())[:2] == ('file', 'lineno') and pcr.get('ln', ())[:2] == ('line', 'f_index') and pcr.get('cl', ())[0] == 'cline',
                       'macro that indexes the file table with its line parameter')
    # ---- A. the macro writes every variable the traceback reads, each from the right source
    file_param = line_param = None
    mparams = variants[0][0]
    for vi, (params, roles, line) in enumerate(variants):
        has_cline = any(v[0] == 'cline' for v in roles.values())
        tag = 'cline' if has_cline else 'plain'
        for role in ('file', 'line'):
            hits = [c for c, v in roles.items() if v[0] == role and c in pos_cnames]
            key = 'ModuleNode.__PYX_MARK_ERR_POS:%s:%s' % (tag, role)
            r.inst(key, sample='variant %s: %s <- %s' % (tag, hits, role))
            if len(hits) != 1:
                r.violate(key, mrel, line,
                          'the %s variant of __PYX_MARK_ERR_POS assigns %s of the variables __Pyx_AddTraceback reads (%s) from %s: the traceback entry carries a stale or '
                          'zero %s' % (tag, 'none' if not hits else 'several (%s)' % hits, sorted(pos_cnames), 'the file table indexed by a macro parameter' if role == 'file' else 'a macro parameter',
                                       'file name' if role == 'file' else 'line number'))
            for c in hits:
                cname_roles.setdefault(c, set()).add(role)
                if role == 'file':
                    if roles[c][2] != table:
                        r.violate(key + ':table', mrel, line, '__PYX_MARK_ERR_POS takes the file name from %s[...] instead of the module file table %s' % (roles[c][2], table))
                    if file_param not in (None, params.index(roles[c][1])):
                        r.violate(key + ':param', mrel, line, 'the variants of __PYX_MARK_ERR_POS index the file table with different parameters')
                    file_param = params.index(roles[c][1])
                else:
                    if line_param not in (None, params.index(roles[c][1])):
                        r.violate(key + ':param', mrel, line, 'the variants of __PYX_MARK_ERR_POS take the line from different parameters')
                    line_param = params.index(roles[c][1])
        for c, v in roles.items():
            if v[0] == 'cline' and c in pos_cnames:
                cname_roles.setdefault(c, set()).add('cline')
    if not any(any(v[0] == 'cline' for v in roles.values()) for _, roles, _ in variants):
        r.info('no variant of __PYX_MARK_ERR_POS records __LINE__')
    if file_param is not None and file_param == line_param:
        r.violate('ModuleNode.__PYX_MARK_ERR_POS:params', mrel, variants[0][2], '__PYX_MARK_ERR_POS uses one parameter both as file-table index and as line number')
    ambiguous = sorted(c for c, rs in cname_roles.items() if len(rs) > 1)
    r.inst('ModuleNode.__PYX_MARK_ERR_POS:one-role-per-variable', sample=str({c: sorted(rs) for c, rs in cname_roles.items()}))
    if ambiguous:
        r.violate('ModuleNode.__PYX_MARK_ERR_POS:one-role-per-variable', mrel, variants[0][2],
                  'the variants of __PYX_MARK_ERR_POS use %s in different roles (%s): the traceback shows the C line number as source line (or vice versa) depending on '
                  'CYTHON_CLINE_IN_TRACEBACK' % (ambiguous, {c: sorted(cname_roles[c]) for c in ambiguous}))
    # ---- B. emission sites
    ix = ctx.index
    nsites = 0
    if file_param is not None and line_param is not None:
        for ms in MODULES:
            try:
                m = ix.mod(ms)
            except AnalysisError:
                continue
            if not re.search(r'__PYX_(ERR|MARK_ERR_POS)\(', ctx.read(m.rel)):
                continue
            for c in m.classes.values():
                for fn in c.methods.values():
                    if not any(isinstance(k, ast.Constant) and isinstance(k.value, str) and re.search(r'__PYX_(ERR|MARK_ERR_POS)\(', k.value) and '#define' not in k.value
                               for k in ast.walk(fn)):
                        continue
                    if any(isinstance(k, ast.Constant) and isinstance(k.value, str) and '#define __PYX_' in k.value for k in ast.walk(fn)):
                        continue        # the method that writes the definitions (analysed above)
                    env = _unpack_env(fn)
                    for n, text, ph in emitted_texts(ctx, c, fn):
                        for mm in re.finditer(r'(__PYX_ERR|__PYX_MARK_ERR_POS)\(([^()]*)\)', text):
                            macro, argtext = mm.group(1), mm.group(2)
                            args = [a.strip() for a in argtext.split(',')]
                            before = text[:mm.start()].count(PH)
                            exprs, k = [], before
                            for a in args:
                                if a == PH:
                                    exprs.append(ph[k])
                                    k += 1
                                else:
                                    k += a.count(PH)
                                    exprs.append(None)
                            fwd = forward.get(macro) if macro != '__PYX_MARK_ERR_POS' else list(range(len(mparams)))
                            if fwd is None:
                                raise AnalysisError('%s is emitted but its definition was not found' % macro)
                            fi = fwd.index(file_param) if file_param in fwd else None
                            li = fwd.index(line_param) if line_param in fwd else None
                            nsites += 1
                            qual = '%s.%s:%s' % (c.qual, fn.name, macro)
                            for role, idx in (('file', fi), ('line', li)):
                                key = '%s:%s-arg' % (qual, role)
                                r.inst(key, sample='%s emits %s(%s)' % (fn.name, macro, ', '.join(node_src(e, 30) if e is not None else '?' for e in exprs)))
                                e = exprs[idx] if idx is not None and idx < len(exprs) else None
                                e = deref(e, env) if e is not None else None
                                if role == 'file':
                                    ok = isinstance(e, ast.Call) and isinstance(e.func, ast.Attribute) and e.func.attr == 'lookup_filename' and len(e.args) == 1 and \
                                        isinstance(e.args[0], ast.Subscript) and isinstance(e.args[0].slice, ast.Constant) and e.args[0].slice.value == FILE_I
                                    base = node_src(e.args[0].value) if ok else None
                                    want = 'lookup_filename(pos[%d])' % FILE_I
                                else:
                                    ok = isinstance(e, ast.Subscript) and isinstance(e.slice, ast.Constant) and e.slice.value == LINE_I
                                    base = node_src(e.value) if ok else None
                                    want = 'pos[%d]' % LINE_I
                                if not ok:
                                    r.violate(key, m.rel, n.lineno,
                                              '%s.%s emits %s with `%s` in the position of the %s (macro parameter %r); it must be %s - a position is (source, line, column) = '
                                              'components (%d, %d, _) as the scanner builds it: the traceback of every error raised through this macro names the wrong %s' % (
                                                  c.qual, fn.name, macro, node_src(e) if e is not None else argtext, 'file-table index' if role == 'file' else 'source line',
                                                  mparams[file_param if role == 'file' else line_param], want, FILE_I, LINE_I, 'file' if role == 'file' else 'line'))
    if nsites < 2 and file_param is not None and line_param is not None:
        raise AnalysisError('fewer than 2 emission sites of __PYX_ERR / __PYX_MARK_ERR_POS found')
    if file_param is None or line_param is None:
        r.info('emission sites not compared: the macro definition does not determine which parameter is the file index / the line')
    # ---- C. the C side: parameter roles of the traceback helpers, and the call sites
    section_funcs = {nm for nm, ds in ctx.cat.decls.items() for d in ds if d.kind == 'func' and d.file == 'Exceptions.c'}
    crel = 'Cython/Utility/Exceptions.c'
    helper_roles = {}
    for helper in ('__Pyx_AddTraceback', '__Pyx_WriteUnraisable'):
        vs = c_param_roles(ctx, helper, section_funcs)
        if not vs:
            raise AnalysisError('%s: no definition found in the utility code' % helper)
        merged = []
        for roles, d in vs:
            merged.append((roles, d))
            for i, rs in roles.items():
                key = 'Exceptions.%s:param%d%s' % (helper, i, (':' + d.conds[-1].split(';')[-1].strip()) if d.conds else '')
                r.inst(key, sample='%s parameter %d (%s) is used as %s' % (helper, i, d.params[i], sorted(rs) or 'nothing position-related'))
                if len(rs & {'line', 'cline', 'file', 'func'}) > 1:
                    r.violate('Exceptions.%s:param%d:role-conflict' % (helper, i), crel, d.line,
                              '%s uses its parameter `%s` in the roles %s: e.g. the C line number becomes the frame line / the function name the file name of the traceback entry' % (
                                  helper, d.params[i], sorted(rs)))
        helper_roles[helper] = merged
    code_cls = ix.cls('Code', 'CCodeWriter')
    for mname, fn in code_cls.methods.items():
        if not any(isinstance(k, ast.Constant) and isinstance(k.value, str) and any(h + '(' in k.value for h in helper_roles) for k in ast.walk(fn)):
            continue
        for n, text, ph in emitted_texts(ctx, code_cls, fn):
            for helper in helper_roles:
                mm = re.search(re.escape(helper) + r'\(([^()]*)\)', text)
                if not mm:
                    continue
                args = [a.strip() for a in mm.group(1).split(',')]
                k = text[:mm.start()].count(PH)
                env = _unpack_env(fn)
                for i, a in enumerate(args):
                    e = None
                    if a == PH:
                        e = deref(ph[k], env)
                        k += 1
                    else:
                        k += a.count(PH)
                        cn = [nm for nm, v in naming.items() if v == a]
                        e = ast.Attribute(value=ast.Name(id='Naming', ctx=ast.Load()), attr=cn[0], ctx=ast.Load()) if cn and a in pos_cnames else None
                    if e is None:
                        continue
                    pr = _python_arg_role(e, cname_roles, naming) - {'none'}
                    key = 'Code.CCodeWriter.%s:%s:arg%d' % (mname, helper, i)
                    if pr:
                        r.inst(key, sample='%s passes %s (%s) to parameter %d, used as %s' % (
                            mname, node_src(e, 40), sorted(pr), i, [sorted(roles.get(i, ())) or 'unused' for roles, _d in helper_roles[helper]]))
                    for roles, d in helper_roles[helper]:       # every definition variant (#if branch) of the helper on its own
                        cr = roles.get(i, set())
                        if pr and cr and not (pr <= cr):
                            r.violate(key, 'Cython/Compiler/Code.py', n.lineno,
                                      '%s hands %s, which __PYX_MARK_ERR_POS fills with the %s, to parameter %d of %s, which the C code%s uses as the %s: the traceback entry shows %s' % (
                                          mname, node_src(e, 60), '/'.join(sorted(pr)), i, helper, (' (variant `%s`)' % d.conds[-1].split(';')[-1].strip()) if d.conds else '',
                                          '/'.join(sorted(cr)),
                                          'the C line number as source line (or the reverse)' if {'line', 'cline'} & (pr | cr) else 'file and function name swapped'))
                            break
    return r


# ---------------------------------------------------------------------------------------------------------------- TBKEY
def _cache_key_sites(ctx):
    out = []
    for d in [x for x in ctx.cat.decls.get('__Pyx_AddTraceback', []) if x.kind == 'func']:
        body = _cutil.strip_c_comments(d.body or '')
        locals_ = dict((m.group(1), m.group(2).strip()) for m in re.finditer(r'\bint\s+([A-Za-z_]\w*)\s*=\s*([^;]+);', body))
        finds, inserts = [], []
        for callee, args, off in _c_calls(body):
            if callee.endswith('code_object_cache_find') and args:
                finds.append((args[0], off))
            elif callee.endswith('code_object_cache_insert') and args:
                inserts.append((args[0], off))
        out.append((d, body, locals_, finds, inserts))
    return out


def _norm_key(k, locals_):
    k = locals_.get(k.strip(), k)
    return re.sub(r'\s+', '', k)


def rule_tbkey(ctx, complete=False):
    rid = 'C44-TBKEY'
    r = Rule(rid, 'the code-object cache of __Pyx_AddTraceback is searched and filled under the same key expression in every variant' +
             ('; every input of the cached code object that is not part of the key is compared on a hit' if complete else ''), floor=2)
    crel = 'Cython/Utility/Exceptions.c'
    sites = _cache_key_sites(ctx)
    if not sites:
        raise AnalysisError('__Pyx_AddTraceback: no definition found')
    for d, body, locals_, finds, inserts in sites:
        tag = d.conds[-1].split(';')[-1].strip() if d.conds else 'default'
        key = 'Exceptions.__Pyx_AddTraceback:cache-key:%s' % (tag or 'else')
        if not finds or not inserts:
            r.info('variant %s of __Pyx_AddTraceback does not use the code object cache' % tag)
            continue
        fk, ik = {_norm_key(k, locals_) for k, _ in finds}, {_norm_key(k, locals_) for k, _ in inserts}
        r.inst(key, sample='find(%s) / insert(%s)' % (sorted(fk), sorted(ik)))
        if fk != ik:
            r.violate(key, crel, d.line,
                      '__Pyx_AddTraceback looks the code object up under %s but stores it under %s: a look-up can return the code object made for another line / C line (wrong '
                      'function name and first line in the traceback entry) or never hit' % (sorted(fk), sorted(ik)))
        if complete:
            # inputs of the cached value: the parameters handed to the call that creates the code object
            pnames = [re.findall(r'[A-Za-z_]\w*', p)[-1] for p in d.params]
            key_ids = set(re.findall(r'[A-Za-z_]\w*', ' '.join(fk)))
            first_find = min(off for _, off in finds)
            miss = re.search(r'if\s*\(\s*!\s*\w+\s*\)\s*\{', body[first_find:])
            hit_region = body[first_find:first_find + miss.start()] if miss else ''
            region_ids = set(re.findall(r'[A-Za-z_]\w*', hit_region.split(';', 1)[1] if ';' in hit_region else ''))
            used = {p for p in pnames if re.search(r'\b%s\b' % re.escape(p), body[first_find:])}
            uncovered = sorted(p for p in used if p not in key_ids and p not in region_ids)
            k2 = 'Exceptions.__Pyx_AddTraceback:cache-key:inputs-not-in-key' + ('' if tag in ('', 'default') else ':' + tag)
            r.inst(k2, sample='inputs %s, key over %s, compared on a hit: %s' % (sorted(used), sorted(key_ids & set(pnames)), sorted(region_ids & set(pnames))))
            if uncovered:
                r.violate('Exceptions.__Pyx_AddTraceback:cache-key:inputs-not-in-key', crel, d.line,
                          'the cached code object is built from (%s) but the cache key is %s and a hit is reused without comparing %s: the second function that raises on a line '
                          'number already seen (a lambda and its enclosing function, an included file, an inline function of a cimported .pxd) gets the traceback entry of the first '
                          'one - wrong function name and file' % (', '.join(sorted(used)), sorted(fk), uncovered))
    r.positive_control(_tbkey_control(), 'cache filled under a key other than the one searched')
    return r


def _tbkey_control():
    body = 'x = $global_code_object_cache_find(c_line ? -c_line : py_line); if (!x) { x = make(); $global_code_object_cache_insert(py_line, x); }'
    calls = _c_calls(body)
    f = {_norm_key(a[0], {}) for c, a, _ in calls if c.endswith('cache_find')}
    i = {_norm_key(a[0], {}) for c, a, _ in calls if c.endswith('cache_insert')}
    return bool(f) and bool(i) and f != i


def rule_tbkey_complete(ctx):      # pending finding (FINDING_2)
    return rule_tbkey(ctx, complete=True)


# ---------------------------------------------------------------------------------------------------------------- FIRST
import codecs as _codecs


def _driver_facts(ctx, tree=None):
    """facts about the line-table driver (the function that loops over the positions and calls the per-entry encoder)"""
    rel = 'Cython/Compiler/LineTable.py'
    tree = tree if tree is not None else ctx.parse(rel)
    fns = {n.name: n for n in tree.body if isinstance(n, ast.FunctionDef)}
    drivers = []
    for fn in fns.values():
        for loop in [n for n in walk_no_nested(fn) if isinstance(n, ast.For) and isinstance(n.target, ast.Name)]:
            for c in ast.walk(loop):
                if isinstance(c, ast.Call) and isinstance(c.func, ast.Name) and c.func.id in fns and any(isinstance(a, ast.Name) and a.id == loop.target.id for a in c.args):
                    drivers.append((fn, loop, c))
    if len(drivers) != 1:
        raise AnalysisError('LineTable: expected exactly one loop that hands each position to a per-entry encoder, found %d' % len(drivers))
    fn, loop, call = drivers[0]
    enc = fns[call.func.id]
    # the encoder parameter that is subtracted from the start line is the base line
    start = None
    for n in walk_no_nested(enc):
        if isinstance(n, ast.Assign) and isinstance(n.targets[0], ast.Tuple) and len(n.targets[0].elts) == 4 and isinstance(n.value, ast.Name):
            start = n.targets[0].elts[0].id
    eparams = [a.arg for a in enc.args.args]
    base_idx = None
    for n in ast.walk(enc):
        if isinstance(n, ast.BinOp) and isinstance(n.op, ast.Sub) and isinstance(n.left, ast.Name) and n.left.id == start and isinstance(n.right, ast.Name) and n.right.id in eparams:
            base_idx = eparams.index(n.right.id)
    if start is None or base_idx is None:
        raise AnalysisError('LineTable.%s: the base-line parameter (subtracted from the start line) was not found' % enc.name)
    return rel, fn, loop, call, enc, base_idx


def rule_first(ctx):
    r = Rule('C44-FIRST', 'line-table base line: the driver passes a variable as base line, assigns the encoder\'s result back to it in the loop and initialises it from its own '
             'first-line parameter; CodeObjectNode builds the table with the very expression it emits as co_firstlineno, that expression is the LINE component of the node '
             'position, and the table string is converted to bytes with a codec that maps chr(n) to byte n', floor=6)
    FILE_I, LINE_I = scanner_pos_indices(ctx)
    rel, fn, first_param, params, bvar = driver_obligations(ctx, r)
    pc = ast.parse("def enc(out, p, last):\n    a, b, c, d = p\n    out.append(a - last)\n    return a\n"
                   "def build(positions, first):\n    out = []\n    last = 0\n    for p in positions:\n        enc(out, p, last)\n    return out\n")
    r2 = Rule('pc', 'pc', floor=0)
    driver_obligations(ctx, r2, pc)
    r.positive_control({f.construct.split(':')[-1] for f in r2.findings} == {'feedback', 'initial-base'}, 'driver without feedback that starts from a constant')
    code_object_obligations(ctx, r, fn, first_param, params, bvar, LINE_I)
    return r


def driver_obligations(ctx, r, tree=None):
    rel, fn, loop, call, enc, base_idx = _driver_facts(ctx, tree)
    qual = 'LineTable.%s' % fn.name
    first_param = None
    # (1) feedback
    base_arg = call.args[base_idx] if base_idx < len(call.args) else None
    r.inst(qual + ':base-variable', sample='%s passes %s as base line' % (fn.name, node_src(base_arg) if base_arg is not None else None))
    params = [a.arg for a in fn.args.args]
    if not isinstance(base_arg, ast.Name):
        r.violate(qual + ':base-variable', rel, call.lineno, '%s hands %s the base line `%s`, which is not a variable it updates: every line delta after the first entry is wrong' % (
            fn.name, enc.name, node_src(base_arg) if base_arg is not None else '?'))
        bvar = None
    else:
        bvar = base_arg.id
        fed = any(isinstance(n, (ast.Assign, ast.AnnAssign)) and any(x is call for x in ast.walk(n.value)) and isinstance(n.value, ast.Call) and
                  any(isinstance(t, ast.Name) and t.id == bvar for t in (n.targets if isinstance(n, ast.Assign) else [n.target])) for n in ast.walk(loop) if isinstance(n, (ast.Assign, ast.AnnAssign)) and n.value is not None)
        r.inst(qual + ':feedback', sample='%s = %s(...) inside the loop: %s' % (bvar, enc.name, fed))
        if not fed:
            r.violate(qual + ':feedback', rel, call.lineno,
                      '%s does not assign the result of %s (the start line of the entry just written) back to `%s`: every entry is encoded relative to the first line instead of '
                      'the previous entry, CPython decodes line numbers that run away' % (fn.name, enc.name, bvar))
        # (2) initial value = a parameter of the driver
        inits = [n for n in fn.body if isinstance(n, (ast.Assign, ast.AnnAssign)) and n.value is not None and
                 any(isinstance(t, ast.Name) and t.id == bvar for t in (n.targets if isinstance(n, ast.Assign) else [n.target]))]
        r.inst(qual + ':initial-base', sample='%s starts as %s' % (bvar, node_src(inits[0].value) if inits else (bvar if bvar in params else None)))
        first_param = None
        if bvar in params and not inits:
            first_param = bvar
        elif inits and isinstance(inits[0].value, ast.Name) and inits[0].value.id in params:
            first_param = inits[0].value.id
        if first_param is None:
            r.violate(qual + ':initial-base', rel, (inits[0] if inits else fn).lineno,
                      'the base line of the first entry is %s, not the first-line parameter of %s: CPython adds the first delta to co_firstlineno, so all decoded lines are '
                      'shifted by the function\'s first line' % (node_src(inits[0].value) if inits else 'undefined', fn.name))
    return rel, fn, first_param, params, bvar


def code_object_obligations(ctx, r, fn, first_param, params, bvar, LINE_I):
    # (3) CodeObjectNode: same expression for the table base and co_firstlineno
    ix = ctx.index
    users = []
    for ms in MODULES:
        try:
            m = ix.mod(ms)
        except AnalysisError:
            continue
        text = ctx.read(m.rel)
        if fn.name + '(' not in text:
            continue
        lines = [i + 1 for i, l in enumerate(text.split('\n')) if fn.name + '(' in l]
        for c in m.classes.values():
            for meth in c.methods.values():
                if not any(meth.lineno <= ln <= (meth.end_lineno or meth.lineno) for ln in lines):
                    continue
                for n in walk_no_nested(meth):
                    if isinstance(n, ast.Call) and isinstance(n.func, ast.Name) and n.func.id == fn.name:
                        users.append((m, c, meth, n))
    if not users:
        raise AnalysisError('no caller of LineTable.%s found in the compiler' % fn.name)
    fp_index = params.index(first_param) if (bvar is not None and first_param in params) else None
    for m, c, meth, n in users:
        env = _unpack_env(meth)
        q = '%s.%s' % (c.qual, meth.name)
        if fp_index is not None:
            a = n.args[fp_index] if fp_index < len(n.args) else next((k.value for k in n.keywords if k.arg == first_param), None)
            # the value emitted as first line of the code object: the `first_line` field of the descriptor initialiser
            field_expr = None
            for node, text, ph in emitted_texts(ctx, c, meth):
                mm = re.search(r'\bdescr\s*=\s*\{([^}]*)\}', text)
                if mm:
                    fields = [x.strip() for x in mm.group(1).split(',')]
                    k0 = text[:mm.start(1)].count(PH)
                    order = descriptor_fields(ctx)
                    if 'first_line' not in order or len(fields) != len(order):
                        raise AnalysisError('%s: the code object descriptor initialiser has %d fields, the struct %d' % (q, len(fields), len(order)))
                    fi = order.index('first_line')
                    if fields[fi] == PH:
                        field_expr = ph[k0 + sum(f.count(PH) for f in fields[:fi])]
            r.inst(q + ':table-base=co_firstlineno', sample='%s(..., %s) / descr.first_line = %s' % (fn.name, node_src(a) if a is not None else None, node_src(field_expr) if field_expr is not None else None))
            if field_expr is None:
                raise AnalysisError('%s: the first_line field of the emitted code object descriptor was not found' % q)
            da, df = deref(a, env) if a is not None else None, deref(field_expr, env)
            if da is None or ast.dump(da) != ast.dump(df):
                r.violate(q + ':table-base=co_firstlineno', m.rel, n.lineno,
                          '%s builds the line table relative to `%s` but creates the code object with co_firstlineno = `%s`: CPython adds the line deltas to co_firstlineno, so every '
                          'decoded line is off by the difference' % (q, node_src(a) if a is not None else '?', node_src(field_expr)))
            r.inst(q + ':first-line=pos[LINE]', sample='first line = %s' % node_src(df))
            if not (isinstance(df, ast.Subscript) and isinstance(df.slice, ast.Constant) and df.slice.value == LINE_I and 'pos' in node_src(df.value)):
                r.violate(q + ':first-line=pos[LINE]', m.rel, n.lineno,
                          '%s takes the first line of the code object from `%s`; the line number of a node position is component %d (source, line, column)' % (q, node_src(df), LINE_I))
        else:
            r.inst(q + ':table-base=co_firstlineno', sample='not compared: the driver has no first-line parameter', nontrivial=False)
            r.inst(q + ':first-line=pos[LINE]', sample='not compared', nontrivial=False)
        # (4) codec of the table string
        par = None
        for x in walk_no_nested(meth):
            if isinstance(x, ast.Call) and isinstance(x.func, ast.Attribute) and x.func.attr == 'encode' and any(y is n for y in ast.walk(x.func.value)):
                par = x
        r.inst(q + ':table-codec', sample=node_src(par, 90) if par is not None else 'no encode() on the table')
        if par is not None:
            codec = par.args[0] if par.args else next((k.value for k in par.keywords if k.arg == 'encoding'), None)
            name = codec.value if isinstance(codec, ast.Constant) and isinstance(codec.value, str) else None
            try:
                norm = _codecs.lookup(name).name if name else None
            except LookupError:
                norm = None
            if norm != 'iso8859-1':
                r.violate(q + ':table-codec', m.rel, par.lineno,
                          'the line table (a str of chr(0..255) characters, every entry starts with a character >= 128) is converted with the codec %r: only latin-1 maps chr(n) '
                          'to the single byte n, any other codec changes the length and the values of the table bytes' % (name,))


def descriptor_fields(ctx):
    """field names of the __Pyx_PyCode_New_function_description struct, in declaration order (read from the typedef the code generator emits)"""
    def build():
        txt = ctx.read('Cython/Compiler/Code.py')
        m = re.search(r'typedef struct \{\{(.*?)\}\}\s*__Pyx_PyCode_New_function_description', txt, re.S)
        if not m:
            raise AnalysisError('Code.py: typedef of __Pyx_PyCode_New_function_description not found')
        return re.findall(r'unsigned int\s+(\w+)\s*:', m.group(1))
    return ctx.memo('sC44.descr_fields', build)


# ---------------------------------------------------------------------------------------------------------------- ORDER
def rule_order(ctx):
    r = Rule('C44-ORDER', 'the function that fills node_positions hands the encoder a list in ascending (line, column) order - sorted with the line component as primary key, every '
             'reversal accounted for - and numbers the offsets of node_positions_to_offset over a list in the same order', floor=3)
    FILE_I, LINE_I = scanner_pos_indices(ctx)
    ix = ctx.index
    sites = []
    for mname in ('ParseTreeTransforms', 'Nodes', 'ExprNodes', 'Optimize', 'FlowControl'):
        try:
            m = ix.mod(mname)
        except AnalysisError:
            continue
        if 'node_positions' not in ctx.read(m.rel):
            continue
        for c in m.classes.values():
            for fn in c.methods.values():
                if any(isinstance(n, ast.Assign) and any(isinstance(t, ast.Attribute) and t.attr == 'node_positions' for t in n.targets) for n in walk_no_nested(fn)):
                    sites.append((m, c, fn))
    if not sites:
        raise AnalysisError('no function assigns node_positions')
    for m, c, fn in sites:
        order_obligations(r, '%s.%s' % (c.qual, fn.name), m.rel, fn, LINE_I)
    pc = ast.parse("def build(self, f):\n    positions = sorted(self.p.pop(), key=itemgetter(1, 2), reverse=True)\n    ranges = []\n    for _, l, c in positions:\n        ranges.append((l, l, c, c + 1))\n"
                   "    ranges.reverse()\n    f.node_positions = ranges\n    f.local_scope.node_positions_to_offset = {p: i for i, p in enumerate(positions)}\n").body[0]
    r2 = Rule('pc', 'pc', floor=0)
    order_obligations(r2, 'pc', 'pc', pc, 1)
    r.positive_control([f.construct.split(':')[-1] for f in r2.findings] == ['offsets-same-order'], 'offsets numbered over the descending list')
    return r


def order_obligations(r, q, rel, fn, LINE_I):
    if True:
        m = type('M', (), {'rel': rel})
        order = {}          # list variable -> 'asc' | 'desc' | None

        def flip(o):
            return {'asc': 'desc', 'desc': 'asc'}.get(o)

        def expr_order(e):
            if isinstance(e, ast.Name):
                return order.get(e.id)
            if isinstance(e, ast.Call) and isinstance(e.func, ast.Name) and e.func.id == 'sorted':
                rev = next((k.value for k in e.keywords if k.arg == 'reverse'), None)
                key = next((k.value for k in e.keywords if k.arg == 'key'), None)
                primary = None
                if isinstance(key, ast.Call) and isinstance(key.func, ast.Name) and key.func.id == 'itemgetter' and key.args and isinstance(key.args[0], ast.Constant):
                    primary = key.args[0].value
                elif isinstance(key, ast.Lambda) and isinstance(key.body, ast.Tuple) and key.body.elts and isinstance(key.body.elts[0], ast.Subscript) and isinstance(key.body.elts[0].slice, ast.Constant):
                    primary = key.body.elts[0].slice.value
                r.inst(q + ':sort-key', sample='sorted(..., key=%s): primary component %r' % (node_src(key) if key is not None else None, primary))
                if primary != LINE_I:
                    r.violate(q + ':sort-key', m.rel, e.lineno, '%s sorts the positions with primary key component %r; the line number of a position is component %d: the list handed to the '
                              'line-table encoder is not start-sorted (negative line deltas, the encoder\'s input contract is broken)' % (q, primary, LINE_I))
                if rev is None or (isinstance(rev, ast.Constant) and rev.value is False):
                    return 'asc'
                if isinstance(rev, ast.Constant) and rev.value is True:
                    return 'desc'
                return None
            if isinstance(e, ast.Subscript) and isinstance(e.slice, ast.Slice) and e.slice.lower is None and e.slice.upper is None and \
                    isinstance(e.slice.step, ast.UnaryOp) and isinstance(e.slice.step.op, ast.USub) and isinstance(e.slice.step.operand, ast.Constant) and e.slice.step.operand.value == 1:
                return flip(expr_order(e.value))
            if isinstance(e, ast.Call) and isinstance(e.func, ast.Name) and e.func.id in ('list', 'tuple') and len(e.args) == 1:
                a = e.args[0]
                if isinstance(a, ast.Call) and isinstance(a.func, ast.Name) and a.func.id == 'reversed' and len(a.args) == 1:
                    return flip(expr_order(a.args[0]))
                return expr_order(a)
            if isinstance(e, (ast.List,)) and not e.elts:
                return 'empty'
            return None

        def walk(stmts):
            for s in stmts:
                if isinstance(s, (ast.Assign, ast.AnnAssign)) and s.value is not None:
                    tgts = s.targets if isinstance(s, ast.Assign) else [s.target]
                    for t in tgts:
                        if isinstance(t, ast.Name):
                            order[t.id] = expr_order(s.value)
                        elif isinstance(t, ast.Attribute) and t.attr == 'node_positions':
                            o = expr_order(s.value)
                            key = q + ':node_positions-ascending'
                            r.inst(key, sample='node_positions = %s (%s)' % (node_src(s.value), o))
                            order['<table>'] = o
                            if o != 'asc':
                                r.violate(key, m.rel, s.lineno,
                                          '%s stores `%s` as node_positions in %s order; build_line_table requires a start-sorted list (it encodes start - previous start as an unsigned '
                                          'delta): the position table decodes to garbage' % (q, node_src(s.value), {'desc': 'descending', None: 'an unknown', 'empty': 'no'}.get(o, o)))
                        elif isinstance(t, ast.Attribute) and t.attr == 'node_positions_to_offset':
                            v = s.value
                            src = None
                            if isinstance(v, ast.DictComp) and len(v.generators) == 1:
                                it = v.generators[0].iter
                                if isinstance(it, ast.Call) and isinstance(it.func, ast.Name) and it.func.id == 'enumerate' and it.args:
                                    src = expr_order(it.args[0])
                                    tgt = v.generators[0].target
                                    # the value must be the counter, the key the element
                                    if isinstance(tgt, ast.Tuple) and len(tgt.elts) == 2 and isinstance(tgt.elts[0], ast.Name) and not (isinstance(v.value, ast.Name) and v.value.id == tgt.elts[0].id):
                                        src = None
                            key = q + ':offsets-same-order'
                            r.inst(key, sample='offsets enumerate a list in %s order, the table is in %s order' % (src, order.get('<table>')))
                            if src is None or order.get('<table>') is None:
                                r.info('%s: construction of node_positions_to_offset not modelled (%s)' % (q, node_src(v, 80)))
                            elif src != order.get('<table>'):
                                r.violate(key, m.rel, s.lineno,
                                          '%s numbers the offsets over the positions in %s order while node_positions (the line table entries) are in %s order: offset i, used by trace '
                                          'and monitoring events and co_positions(), names the entry of another node' % (q, src, order.get('<table>')))
                elif isinstance(s, ast.Expr) and isinstance(s.value, ast.Call) and isinstance(s.value.func, ast.Attribute) and isinstance(s.value.func.value, ast.Name):
                    nm, meth = s.value.func.value.id, s.value.func.attr
                    if meth == 'reverse':
                        order[nm] = flip(order.get(nm))
                    elif meth == 'sort':
                        rev = next((k.value for k in s.value.keywords if k.arg == 'reverse'), None)
                        order[nm] = 'desc' if isinstance(rev, ast.Constant) and rev.value is True else 'asc' if rev is None else None
                elif isinstance(s, ast.For):
                    src = expr_order(s.iter)
                    for x in ast.walk(s):
                        if isinstance(x, ast.Call) and isinstance(x.func, ast.Attribute) and x.func.attr == 'append' and isinstance(x.func.value, ast.Name):
                            if order.get(x.func.value.id) in ('empty', src):
                                order[x.func.value.id] = src
                            else:
                                order[x.func.value.id] = None
                        elif isinstance(x, ast.Call) and isinstance(x.func, ast.Attribute) and x.func.attr == 'insert' and isinstance(x.func.value, ast.Name) and x.args and \
                                isinstance(x.args[0], ast.Constant) and x.args[0].value == 0:
                            order[x.func.value.id] = flip(src) if order.get(x.func.value.id) in ('empty', flip(src)) else None
                elif isinstance(s, (ast.If, ast.With, ast.Try)):
                    walk(s.body)
        walk(fn.body)
        if '<table>' not in order:
            raise AnalysisError('%s: assignment of node_positions not reached by the order analysis' % q)


# ---------------------------------------------------------------------------------------------------------------- FILETAB
def rule_filetab(ctx):
    from .sC50 import PyEval, EvalError, PyRaise, Func, Mod
    import types as _types
    import itertools as _it
    r = Rule('C44-FILETAB', 'the file-table index that __PYX_ERR carries names the right file: GlobalState.lookup_filename (evaluated by the checker on every sequence of new / repeated '
             'source descriptors up to length 4) returns the position at which the descriptor\'s file sits in filename_list, the same index for the same file, and the module\'s '
             'file table is emitted from filename_list in list order', floor=20)
    ix = ctx.index
    gs = ix.cls('Code', 'GlobalState')
    found = ix.find_method(gs, 'lookup_filename')
    if found is None:
        raise AnalysisError('Code.GlobalState.lookup_filename vanished')
    owner, fn = found
    NSx = _types.SimpleNamespace

    def run_seq(fnode, seq):
        ev = PyEval(max_steps=20000)
        f = Func(fnode, None, Mod('m'))
        me = NSx(filename_table={}, filename_list=[])
        descs = {k: NSx(key=k, get_filenametable_entry=(lambda k=k: 'entry-' + k)) for k in 'abc'}
        out = []
        for k in seq:
            idx = ev.call(f, [me, descs[k]])
            ok = isinstance(idx, int) and 0 <= idx < len(me.filename_list) and me.filename_list[idx].key == k
            out.append((k, idx, ok))
        return out
    seqs = [s for n in (1, 2, 3, 4) for s in _it.product('abc', repeat=n) if list(s) == [c for c in s] and s[0] == 'a' and all(
        ch <= chr(ord(max(s[:i] or 'a')) + 1) for i, ch in enumerate(s))]
    rel = 'Cython/Compiler/Code.py'
    bad = None
    for s in seqs:
        key = 'Code.GlobalState.lookup_filename:seq:%s' % ''.join(s)
        try:
            res = run_seq(fn, s)
        except EvalError as e:
            raise AnalysisError('GlobalState.lookup_filename: outside the fragment the evaluator models (%s)' % e)
        except PyRaise as e:
            res = [(s[0], 'raises %r' % (e.exc,), False)]
        r.inst(key, sample='%s -> %s' % (''.join(s), [i for _, i, _ in res]))
        first = {}
        for k, idx, ok in res:
            stable = first.setdefault(k, idx) == idx
            if (not ok or not stable) and bad is None:
                bad = (s, k, idx, res)
    if bad is not None:
        s, k, idx, res = bad
        r.violate('Code.GlobalState.lookup_filename:index', rel, fn.lineno,
                  'for the look-up sequence %s of source files, lookup_filename returns %r for file %r, which is not the position of that file in filename_list (indices %s): '
                  '__PYX_ERR(index, line, ...) makes the traceback entry name another source file' % (''.join(s), idx, k, [i for _, i, _ in res]))
    pc = ast.parse("def lookup_filename(self, source_desc):\n    entry = source_desc.get_filenametable_entry()\n    try:\n        index = self.filename_table[entry]\n    except KeyError:\n"
                   "        self.filename_list.append(source_desc)\n        index = len(self.filename_list)\n        self.filename_table[entry] = index\n    return index\n").body[0]
    r.positive_control(not all(ok for _, _, ok in run_seq(pc, ('a', 'b'))), 'index taken after the append')
    # emission of the table
    mn = ix.mod('ModuleNode')
    naming = Res(ctx, gs, fn).naming
    table = naming.get('filetable_cname')
    emit = None
    for c in mn.classes.values():
        for m in c.methods.values():
            if any(isinstance(k, ast.Attribute) and isinstance(k.value, ast.Name) and k.value.id == 'Naming' and k.attr == 'filetable_cname' for k in ast.walk(m)) and \
                    any(isinstance(k, ast.For) for k in walk_no_nested(m)):
                emit = (c, m)
    if emit is None:
        raise AnalysisError('ModuleNode: the method that emits the file table (%s) was not found' % table)
    c, m = emit
    loops = [k for k in walk_no_nested(m) if isinstance(k, ast.For)]
    key = 'ModuleNode.%s.%s:table-order' % (c.name, m.name)
    r.inst(key, sample='%s iterates %s' % (m.name, node_src(loops[0].iter)))
    it = loops[0].iter
    while isinstance(it, ast.Call) and isinstance(it.func, ast.Name) and it.func.id in ('enumerate', 'list', 'tuple', 'iter') and len(it.args) == 1 and not it.keywords:
        it = it.args[0]         # order-preserving wrappers
    if not (isinstance(it, ast.Attribute) and it.attr == 'filename_list'):
        r.violate(key, mn.rel, loops[0].lineno,
                  '%s emits the entries of %s while iterating `%s` instead of filename_list itself: entry i of the C table is no longer the file whose index lookup_filename handed '
                  'out as i' % (m.name, table, node_src(it)))
    return r
