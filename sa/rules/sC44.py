"""C44-POSPAIR: the error position is saved and restored symmetrically around code that may overwrite it.

The traceback entry of a function is built from three C variables (read by __Pyx_AddTraceback in
CCodeWriter.put_add_traceback): line, C line, file name.  They are written by every __PYX_ERR() that executes, including
those of errors that are raised AND handled inside cleanup code (the `finally:` copy for the exception case, the body of
a parallel section in another thread).  Wherever the generator parks these variables in other storage and later copies
them back, the two copies must be mirror images, and the restoring helper must be handed the very storage the saving
helper filled, on every path that continues to the outer error label.

 A  (writer/reader agreement inside a class) every emitted assignment `slot = <position variable>` (save) has a
    counterpart `<position variable> = slot` (restore) in the same class with the same slot, and vice versa; line and file
    name are among the saved variables.  Slots are C names (Naming.*) or `parameter[index]` expressions of the helper.
 B  (call-site agreement, path-sensitive) in a method that calls the saving helper: the restoring helper receives, for
    each slot parameter, the same local variable the saving helper received (aliases followed, no conditional, no None);
    and a jump to an error label after the save is preceded by the restore on that path.

The set of position variables is read from put_add_traceback, the emitted text from the %-format / f-string templates
(pC37.Res); nothing is executed.
"""
import ast, re

from ..core import Rule, AnalysisError, node_src
from ..engine import pyflow
from ..engine.pyindex import walk_no_nested, is_self_attr
from .pC37 import Res, emit_call, label_kind, deref, local_assigns

PH = '\xa7'
MODULES = ('Nodes', 'ExprNodes', 'UtilNodes', 'ModuleNode', 'Code')
ASSIGN = re.compile(r'^\s*(%s|[A-Za-z_]\w*)\s*=\s*(%s|[A-Za-z_]\w*)\s*$' % (PH, PH))


# ------------------------------------------------------------------------------------------------ the position variables
def position_variables(ctx):
    """{Naming attribute: C name} of the variables __Pyx_AddTraceback is called with"""
    ix = ctx.index
    cls = ix.cls('Code', 'CCodeWriter')
    found = ix.find_method(cls, 'put_add_traceback')
    if found is None:
        raise AnalysisError('Code.CCodeWriter.put_add_traceback vanished')
    owner, fn = found
    res = Res(ctx, owner, fn)
    out = {}
    for n in walk_no_nested(fn):
        ec = emit_call(n)
        if ec is None:
            continue
        t = ec[1]
        const = [c.value for c in ast.walk(t) if isinstance(c, ast.Constant) and isinstance(c.value, str)]
        if not any('__Pyx_AddTraceback' in c for c in const):
            continue
        exprs = []
        if isinstance(t, ast.BinOp) and isinstance(t.op, ast.Mod):
            r = deref(t.right, res.env)
            exprs = list(r.elts) if isinstance(r, (ast.Tuple, ast.List)) else [r]
        elif isinstance(t, ast.JoinedStr):
            exprs = [v.value for v in t.values if isinstance(v, ast.FormattedValue)]
        for e in exprs:
            for a in ast.walk(deref(e, res.env)):
                if isinstance(a, ast.Attribute) and isinstance(a.value, ast.Name) and a.value.id == 'Naming' and a.attr in res.naming:
                    out[a.attr] = res.naming[a.attr]
    if len(out) < 2:
        raise AnalysisError('put_add_traceback: the position variables handed to __Pyx_AddTraceback were not found (%s)' % sorted(out))
    return out


# ------------------------------------------------------------------------------------------------ A: transfers emitted by one class
def _slot(expr, params):
    """normalised storage expression: ('param', parameter name, path) for parameter[index]... expressions"""
    path = []
    e = expr
    while isinstance(e, ast.Subscript) and isinstance(e.slice, ast.Constant):
        path.insert(0, e.slice.value)
        e = e.value
    if isinstance(e, ast.Name) and e.id in params:
        return ('param', e.id, tuple(path))
    return ('expr', ' '.join(ast.unparse(expr).split()), ())


def transfers(ctx, cls, fn, posvars):
    """[(direction 'save'|'restore', position attr, slot, call node)] for the assignments fn emits"""
    res = Res(ctx, cls, fn)
    byc = {v: k for k, v in posvars.items()}
    params = [a.arg for a in fn.args.args[1:]]
    out = []
    for n in walk_no_nested(fn):
        ec = emit_call(n)
        if ec is None:
            continue
        t = res.template(ec[1])
        if t is None:
            if any(isinstance(a, ast.Attribute) and isinstance(a.value, ast.Name) and a.value.id == 'Naming' and a.attr in posvars for a in ast.walk(ec[1])):
                raise AnalysisError('%s.%s: an emission mentioning a position variable cannot be resolved: %s' % (cls.qual, fn.name, node_src(ec[1])))
            continue
        text, ph = t
        if not any(c in text for c in byc):
            continue
        k = 0
        for piece in re.split(r'[;{}]', text):
            nph = piece.count(PH)
            m = ASSIGN.match(piece)
            if m:
                sides = []
                kk = k
                for tok in m.groups():
                    if tok == PH:
                        sides.append(('ph', ph[kk]))
                        kk += 1
                    else:
                        sides.append(('c', tok))
                lhs, rhs = sides
                lpos = lhs[0] == 'c' and lhs[1] in byc
                rpos = rhs[0] == 'c' and rhs[1] in byc
                if lpos != rpos:
                    var = byc[(lhs if lpos else rhs)[1]]
                    other = rhs if lpos else lhs
                    if other[0] == 'ph':
                        slot = _slot(other[1], params)
                    elif re.fullmatch(r'[A-Za-z_]\w*', other[1]) and not other[1].isdigit():
                        slot = ('cname', other[1], ())
                    else:
                        slot = None
                    if slot is not None:
                        out.append(('restore' if lpos else 'save', var, slot, n))
            k += nph
    return out


def class_pairs(ctx, posvars):
    """{class: {'save': {var: [(slot, method, node)]}, 'restore': {...}}} for classes that move position variables"""
    ix = ctx.index
    out = {}
    for ms in MODULES:
        try:
            m = ix.mod(ms)
        except AnalysisError:
            continue
        for c in m.classes.values():
            if not any(isinstance(a, ast.Attribute) and isinstance(a.value, ast.Name) and a.value.id == 'Naming' and a.attr in posvars for a in ast.walk(c.node)):
                continue
            rec = {'save': {}, 'restore': {}}
            for name, fn in c.methods.items():
                for d, var, slot, node in transfers(ctx, c, fn, posvars):
                    rec[d].setdefault(var, []).append((slot, fn, node))
            if rec['save'] or rec['restore']:
                out[c] = rec
    return out


def _slots_text(slots):
    return ' / '.join(sorted(('<slot parameter>' + ''.join('[%r]' % i for i in path)) if kind == 'param' else name for kind, name, path in slots))


def check_class(c, rec, posvars, need=('lineno', 'filename')):
    """-> problems [(key, line, msg)], obligations [key]"""
    problems, obl = [], []
    qual = c.qual
    # plain writers of a position variable that are not part of a save/restore pair (e.g. the macro that sets the position) are
    # not transfers: a class takes part only if it SAVES something
    if not rec['save']:
        return problems, obl

    def norm(slot, fn):
        # parameter slots of different helpers are matched by (helper-independent) path; the parameter itself is matched at the call sites (B)
        return (slot[0], slot[1] if slot[0] != 'param' else '', slot[2])
    for var in sorted(set(rec['save']) | set(rec['restore'])):
        key = '%s:pos:%s' % (qual, var)
        obl.append(key)
        s, r = rec['save'].get(var, []), rec['restore'].get(var, [])
        if s and not r:
            problems.append((key + ':not-restored', s[0][2].lineno,
                             '%s saves %s (%s) in %s but no method of the class copies it back: after cleanup code that raised and handled an error of its own, the '
                             'traceback entry names the position of that inner error' % (qual, var, posvars[var], s[0][1].name)))
        elif r and not s:
            problems.append((key + ':not-saved', r[0][2].lineno,
                             '%s restores %s (%s) in %s from storage that no method of the class fills with it: the traceback position becomes stale or zero'
                             % (qual, var, posvars[var], r[0][1].name)))
        else:
            ss, rs = {norm(x[0], x[1]) for x in s}, {norm(x[0], x[1]) for x in r}
            if ss != rs:
                problems.append((key + ':slot-mismatch', r[0][2].lineno,
                                 '%s: %s (%s) is saved into %s but restored from %s: the traceback reports another variable\'s value (e.g. the C line as the source line)'
                                 % (qual, var, posvars[var], _slots_text(ss), _slots_text(rs))))
    saved = {v for v in rec['save']}
    for part in need:
        hits = [v for v in posvars if part in v and 'c' + part not in v]
        if hits and not any(h in saved for h in hits):
            obl.append('%s:pos:%s' % (qual, part))
            problems.append(('%s:pos:%s:not-saved' % (qual, part), c.node.lineno,
                             '%s saves the error position without its %s: the traceback entry of a propagating exception takes the %s of an error handled inside the cleanup code'
                             % (qual, part, part)))
    return problems, obl


# ------------------------------------------------------------------------------------------------ B: call sites
def _actual(call, fn, pname):
    ps = [a.arg for a in fn.args.args[1:]]
    for k in call.keywords:
        if k.arg == pname:
            return k.value
    if pname in ps and ps.index(pname) < len(call.args):
        return call.args[ps.index(pname)]
    return None


def check_calls(c, rec, caller):
    """path-sensitive agreement of the slot arguments in one calling method -> (problems, n obligations)"""
    savers, restorers = {}, {}     # helper name -> {(param, path): var}
    for d, table in (('save', savers), ('restore', restorers)):
        for var, lst in rec[d].items():
            for slot, fn, node in lst:
                if slot[0] == 'param':
                    table.setdefault(fn.name, (fn, {}))[1][(slot[1], slot[2])] = var
    if not savers or not restorers:
        return [], 0
    env = local_assigns(caller)
    problems, nobl = {}, [0]

    def resolve(e):
        e = deref(e, env) if isinstance(e, ast.Name) and len(env.get(e.id, ())) == 1 and isinstance(env[e.id][0], ast.Name) else e
        return e

    def expand(call):
        """a call of an own method that merely wraps a saving / restoring helper counts as that helper's call, with the wrapper's
        parameters replaced by the caller's arguments (one level)"""
        if not is_self_attr(call.func):
            return [(call, None)]
        name = call.func.attr
        if name in savers or name in restorers or name not in c.methods or c.methods[name] is caller:
            return [(call, None)]
        wrapper = c.methods[name]
        wparams = [a.arg for a in wrapper.args.args[1:]]
        out = []
        for inner in (x for x in walk_no_nested(wrapper) if isinstance(x, ast.Call) and is_self_attr(x.func) and (x.func.attr in savers or x.func.attr in restorers)):
            out.append((inner, {p: _actual(call, wrapper, p) for p in wparams}))
        return out or [(call, None)]

    def actual(call, sub, fn, p):
        a = _actual(call, fn, p)
        if sub is not None and isinstance(a, ast.Name) and a.id in sub:
            a = sub[a.id]
        return a

    def tr(n, state):
        s = set(state)
        for call, sub in [x for c0 in pyflow.calls_in(n) for x in expand(c0)]:
            if is_self_attr(call.func) and call.func.attr in savers:
                fn, slots = savers[call.func.attr]
                for (p, path), var in slots.items():
                    a = actual(call, sub, fn, p)
                    a = resolve(a) if a is not None else None
                    if a is None or (isinstance(a, ast.Constant) and a.value is None):
                        continue
                    s.add(('SAVED', var, ast.unparse(a) if isinstance(a, ast.Name) else '<%s>' % node_src(a, 40)))
            elif is_self_attr(call.func) and call.func.attr in restorers:
                fn, slots = restorers[call.func.attr]
                for (p, path), var in slots.items():
                    saved = [f for f in s if isinstance(f, tuple) and f[0] == 'SAVED' and f[1] == var]
                    if not saved:
                        continue
                    nobl[0] += 1
                    a = actual(call, sub, fn, p)
                    a = resolve(a) if a is not None else None
                    got = ast.unparse(a) if isinstance(a, ast.Name) else None
                    for f in saved:
                        if got == f[2]:
                            s.discard(f)
                        else:
                            problems.setdefault('%s.%s:restore-arg:%s' % (c.qual, caller.name, var), (
                                call.lineno, '%s.%s saves %s into the storage named by `%s` but hands %s the argument `%s` for it: on some path the position is not '
                                'copied back (or copied back from elsewhere), so after a `finally:` body that raised and handled an error of its own the traceback of the '
                                'propagating exception names the line of that inner error' % (c.qual, caller.name, var, f[2], call.func.attr, node_src(a, 80) if a is not None else 'nothing')))
            elif isinstance(call.func, ast.Attribute) and call.func.attr == 'put_goto' and call.args:
                lab = call.args[0]
                lab = deref(lab, env)
                if label_kind(lab) == 'error':
                    left = sorted({f[1] for f in s if isinstance(f, tuple) and f[0] == 'SAVED'})
                    nobl[0] += 1
                    if left:
                        problems.setdefault('%s.%s:error-exit-without-restore' % (c.qual, caller.name), (
                            call.lineno, '%s.%s jumps to the outer error label while %s are still parked in their save slots (no restoring helper was called on this path): '
                            'the traceback is built from whatever position the cleanup code left behind' % (c.qual, caller.name, ', '.join(left))))
        if isinstance(n, ast.Assign):
            # a save slot variable that is rebound no longer names the filled storage
            names = {t.id for t in n.targets if isinstance(t, ast.Name)}
            s = {f for f in s if not (isinstance(f, tuple) and f[0] == 'SAVED' and f[2] in names)}
        return frozenset(s)
    pyflow.Flow(tr, correlate=True).run(caller)
    return [(k, v[0], v[1]) for k, v in sorted(problems.items())], nobl[0]


def rule_pospair(ctx):
    r = Rule('C44-POSPAIR', 'the variables __Pyx_AddTraceback reads are saved and restored as mirror images (same variable <-> same slot) and the restoring helper receives the '
             'storage the saving helper filled on every path that continues to an error label', floor=9)
    posvars = position_variables(ctx)
    r.inst('position-variables', sample='__Pyx_AddTraceback reads %s' % sorted(posvars.values()))
    pairs = class_pairs(ctx, posvars)
    if not pairs:
        raise AnalysisError('no class saves/restores the error position variables')
    for c, rec in sorted(pairs.items(), key=lambda kv: kv[0].qual):
        problems, obl = check_class(c, rec, posvars)
        for k in obl:
            r.inst(k, sample='%s: saved in %s / restored in %s' % (k, sorted({x[1].name for v in rec['save'].values() for x in v}), sorted({x[1].name for v in rec['restore'].values() for x in v})))
        for key, line, msg in problems:
            r.violate(key, c.module.rel, line, msg)
        helpers = {x[1].name for d in ('save', 'restore') for v in rec[d].values() for x in v if x[0][0] == 'param'}
        for name, fn in c.methods.items():
            if name in helpers:
                continue
            if not any(is_self_attr(n.func) and n.func.attr in helpers for n in walk_no_nested(fn) if isinstance(n, ast.Call)):
                continue
            probs, n = check_calls(c, rec, fn)
            for i in range(n):
                r.inst('%s.%s:call-site#%d' % (c.qual, name, i), sample='%s.%s: slot argument / error exit %d' % (c.qual, name, i))
            for key, line, msg in probs:
                r.violate(key, c.module.rel, line, msg)
    # positive control: a restore that is conditioned on something the save is not
    pc_cls = ast.parse(
        "class T:\n"
        "    def catch(self, code, pos=None):\n        if pos:\n            code.putln('%s = %s; %s = %s;' % (pos[0], Naming.lineno_cname, pos[1], Naming.filename_cname))\n"
        "    def uncatch(self, code, pos=None):\n        if pos:\n            code.putln('%s = %s; %s = %s;' % (Naming.lineno_cname, pos[0], Naming.filename_cname, pos[1]))\n"
        "    def gen(self, code):\n        old = code.error_label\n        tmp = code.alloc()\n        self.catch(code, tmp)\n        self.body.generate(code)\n"
        "        self.uncatch(code, tmp if code.label_used(code.error_label) else None)\n        code.put_goto(old)\n").body[0]

    class _C:
        qual = 'pc.T'
        node = pc_cls
        methods = {f.name: f for f in pc_cls.body}
        module = None
    res_cls = next(iter(pairs))       # any real class: only used for Naming resolution
    rec = {'save': {}, 'restore': {}}
    for fn in _C.methods.values():
        for d, var, slot, node in transfers(ctx, res_cls, fn, posvars):
            rec[d].setdefault(var, []).append((slot, fn, node))
    p2, _ = check_calls(_C, rec, _C.methods['gen'])
    r.positive_control(len(rec['save']) == 2 and not check_class(_C, rec, posvars)[0] and any(':restore-arg:' in k for k, _, _ in p2),
                       'restore argument conditioned on label_used while the save is unconditional')
    return r
