"""Fifth round for C33: the directives that decide HOW a C string value becomes a Python object reach the Cython-level
conversion helpers (CppConvert.pyx / CConvert.pyx), and the tables that turn a directive value into a conversion flavour agree.

The element conversions inside `vector.to_py`, `map.to_py`, `carray.to_py` ... are not C macros: they are Cython code that is
compiled by a nested run of the compiler, under the directives `CythonUtilityCode` hands to that run.  The top-level conversion
of the same type is generated in the user's module.  Both agree only if every directive the coercion code consults travels

    module being compiled --(load site: outer_module_scope=)--> CythonUtilityCode.__init__ --(inherit list)-->
    self.compiler_directives --(get_tree)--> context object of the nested pipeline (.compiler_directives)

All steps are decided by partial evaluation of the source (never executed): the module's directives are a table of tokens
('module', name), the defaults a table of tokens ('default', name); the obligation is that the token of each needed directive
arrives.  The needed directives are not frozen here: they are the ones the coercion code of ExprNodes.py reads.
"""
import ast, collections, os, re

from ..core import Rule, AnalysisError
from ..engine import pyindex
from . import pC33 as Q

UTIL = 'UtilityCode'
EXPR = 'Cython/Compiler/ExprNodes.py'
PYREX = 'Cython/Compiler/PyrexTypes.py'
OPTIONS = 'Cython/Compiler/Options.py'
FILES = ('CppConvert.pyx', 'CConvert.pyx')
CONVERSION_API = ('create_to_py_utility_code', 'create_from_py_utility_code', 'to_py_call_code', 'from_py_call_code')


# ------------------------------------------------------------------------------------------------ a lazily loaded program index
class _LazyModules(dict):
    """dotted module name -> Module; a module of the analysed tree is parsed and scanned the first time it is asked for."""

    def __init__(self, ix):
        super().__init__()
        self.ix = ix

    def _rel(self, name):
        if not isinstance(name, str) or not re.fullmatch(r'[A-Za-z_][\w.]*', name):
            return None
        base = name.replace('.', os.sep)
        for rel in (base + '.py', os.path.join(base, '__init__.py')):
            if os.path.isfile(self.ix.ctx.path(rel)):
                return rel
        return None

    def __contains__(self, name):
        return dict.__contains__(self, name) or self._rel(name) is not None

    def get(self, name, default=None):
        if dict.__contains__(self, name):
            return dict.__getitem__(self, name)
        rel = self._rel(name)
        if rel is None:
            return default
        self.ix._load(rel)
        m = dict.__getitem__(self, name)
        self.ix._scan_module(m)          # base classes are resolved when a method resolution order is asked for
        return m

    def __getitem__(self, name):
        m = self.get(name)
        if m is None:
            raise KeyError(name)
        return m


class LazyIndex(pyindex.PyIndex):
    """pyindex.PyIndex over the same sources, but only the modules the evaluation walks into are parsed (the full index
    costs ~3 s; this rule needs UtilityCode, TreeFragment, Main, Pipeline, Options and the modules of their base classes)."""

    def __init__(self, ctx):
        self.ctx = ctx
        self.modules = _LazyModules(self)
        self.by_rel = {}
        self.classes_by_name = collections.defaultdict(list)
        self._subclasses = collections.defaultdict(list)
        self._resolved = set()

    def _load(self, rel):
        tree = self.ctx.parse(rel)
        name = rel[:-3].replace(os.sep, '.')
        if name.endswith('.__init__'):
            name = name[:-9]
        m = pyindex.Module(name, rel, tree, '')
        dict.__setitem__(self.modules, name, m)
        self.by_rel[rel] = m

    def _scan_module(self, m):
        """Module-level imports, classes, functions and bindings (same tables as PyIndex._scan_module; the whole-tree walks
        for `global` statements are not needed here: a name bound that way evaluates to an unknown)."""
        pkg = m.name.rsplit('.', 1)[0] if '.' in m.name else ''
        if m.rel.endswith('__init__.py'):
            pkg = m.name

        def handle_import(node):
            if isinstance(node, ast.Import):
                for a in node.names:
                    if a.asname:
                        m.imports[a.asname] = ('module', a.name)
                    else:
                        m.imports[a.name.split('.')[0]] = ('module', a.name.split('.')[0])
                return
            base = node.module or ''
            if node.level:
                parts = pkg.split('.') if pkg else []
                if node.level > 1:
                    parts = parts[:len(parts) - (node.level - 1)]
                rb = '.'.join(parts)
                base = (rb + '.' + base) if base and rb else (rb or base)
            for a in node.names:
                local = a.asname or a.name
                full = (base + '.' + a.name) if base else a.name
                m.imports[local] = ('module', full) if full in self.modules else ('symbol', base, a.name)

        def scan_block(stmts):
            for node in stmts:
                if isinstance(node, (ast.Import, ast.ImportFrom)):
                    handle_import(node)
                elif isinstance(node, ast.ClassDef):
                    self._scan_class(m, node, None)
                    m.bindings[node.name] = node
                elif isinstance(node, (ast.FunctionDef, ast.AsyncFunctionDef)):
                    m.functions[node.name] = node
                    m.bindings[node.name] = node
                elif isinstance(node, ast.Assign):
                    for t in node.targets:
                        for nm in pyindex._target_names(t):
                            m.bindings[nm] = node.value
                elif isinstance(node, (ast.AnnAssign, ast.AugAssign)):
                    for nm in pyindex._target_names(node.target):
                        m.bindings[nm] = getattr(node, 'value', None) or True
                elif isinstance(node, (ast.If, ast.Try, ast.With, ast.For, ast.While)):
                    for fld in ('body', 'orelse', 'finalbody'):
                        scan_block(getattr(node, fld, []) or [])
                    for h in getattr(node, 'handlers', []) or []:
                        scan_block(h.body)
        scan_block(m.tree.body)
        for k in m.imports:
            m.bindings.setdefault(k, True)

    def _ensure_bases(self, c):
        if id(c) in self._resolved:
            return
        self._resolved.add(id(c))
        self._resolve_bases(c)
        for b in c.bases:
            self._ensure_bases(b)

    def mro(self, c):
        self._ensure_bases(c)
        return super().mro(c)

    def mod(self, short_or_dotted):
        for cand in (short_or_dotted, 'Cython.Compiler.' + short_or_dotted, 'Cython.' + short_or_dotted):
            m = self.modules.get(cand)
            if m is not None:
                return m
        raise AnalysisError('module not found: %s' % short_or_dotted)


# ------------------------------------------------------------------------------------------------ values
class Obj:
    """A known, non-None run-time object reached from a named root by attribute reads and calls."""

    def __init__(self, root, path=()):
        self.root, self.path = root, tuple(path)

    def step(self, s):
        return Obj(self.root, self.path + (s,))

    def __eq__(self, other):
        return isinstance(other, Obj) and (self.root, self.path) == (other.root, other.path)

    def __hash__(self):
        return hash((self.root, self.path))

    def __repr__(self):
        return self.root + ''.join(self.path)


class Inst:
    """An instance built by interpreting the constructors of a repository class."""

    def __init__(self, cinfo):
        self.cinfo, self.attrs = cinfo, {}

    def __repr__(self):
        return '<instance of %s>' % self.cinfo.name


class Ref:
    """A resolved repository entity: ('class', ClassInfo) | ('func', Module, def) | ('module', Module) | ('method', owner, def)."""

    def __init__(self, r):
        self.r = r

    def __repr__(self):
        return '<ref %s>' % (self.r[0],)


class FakeClass:
    """Stand-in for pyindex.ClassInfo for embedded examples (no bases)."""

    def __init__(self, module, node):
        self.module, self.node, self.name = module, node, node.name
        self.methods = {s.name: s for s in node.body if isinstance(s, ast.FunctionDef)}


class FakeModule:
    def __init__(self, short, src):
        self.short = self.name = short
        self.tree = ast.parse(src)
        self.classes, self.functions, self.imports, self.bindings = {}, {}, {}, {}


class _Done(Exception):
    """Every path of an undecided `if` left the function; the exits are already recorded."""


def _same(a, b):
    if a is b:
        return True
    if isinstance(a, (Q.Sym, Q.Multi)) or isinstance(b, (Q.Sym, Q.Multi)):
        return False
    try:
        return type(a) is type(b) and a == b
    except Exception:
        return False


def _join_values(vals):
    first = vals[0]
    if all(_same(first, v) for v in vals[1:]):
        return first
    if all(isinstance(v, dict) for v in vals):
        out = {}
        for k in set().union(*vals):
            if all(k in v for v in vals):
                out[k] = _join_values([v[k] for v in vals])
            else:
                out[k] = Q.Sym('join')
        return out
    return Q.Sym('join')


def _join_envs(envs):
    out = {}
    for k in set().union(*envs):
        if all(k in e for e in envs):
            out[k] = _join_values([e[k] for e in envs])
        else:
            out[k] = Q.Sym('join')
    return out


# ------------------------------------------------------------------------------------------------ evaluator
class DInterp(Q.Interp):
    """pC33.Interp + resolution of names through the program index, known opaque objects (Obj), constructed instances (Inst),
    interprocedural evaluation of methods of the object under construction / of constructors, comprehensions over known
    iterables, and a sound join at `if`s whose test is not decided (differing facts become unknown)."""
    MAXFRAMES = 7

    def __init__(self, ix, module, globals_=None, attr_hook=None, call_hook=None):
        super().__init__(module.tree)
        self.ix, self.m, self.home = ix, module, module
        self.globals = globals_ or {}        # (module short name, global name) -> value
        self.attr_hook = attr_hook           # (Obj, attribute) -> value | None
        self.call_hook = call_hook           # (Ref, args, kw) -> value | NotImplemented
        self.calls = []                      # (callee value, positional values, keyword values, result, ast)
        self.cinfo = None                    # class of the object `self` denotes
        self.owner = None                    # class that defines the running method
        self.frames = 0
        self.imprecise = []                  # reasons the evaluation lost soundness (break/continue under an undecided test ...)
        self.invoked = []                    # function defs entered
        self._exits = [[]]
        self._consts = {id(module): self.consts}

    # ---------------------------------------------------------------- resolution
    def find_method(self, c, name, after=None):
        """-> (owner, def) looking through the mro of c (after class `after` if given)."""
        if isinstance(c, FakeClass):
            return (c, c.methods[name]) if name in c.methods and after is None else None
        mro = self.ix.mro(c)
        if after is not None:
            ids = [id(k) for k in mro]
            mro = mro[ids.index(id(after)) + 1:] if id(after) in ids else []
        for k in mro:
            if name in k.methods:
                return (k, k.methods[name])
            if name in k.attrs:
                return None
        return None

    def wrap(self, r, name=None):
        if r is None:
            return None
        if r[0] in ('class', 'module'):
            return Ref(r)
        if r[0] == 'func':
            g = self.globals.get((r[1].short, r[2].name))
            return g if g is not None else Ref(r)
        if r[0] == 'method':
            return Ref(r)
        if r[0] == 'value':
            mod, node = r[1], r[2]
            if name is not None and (mod.short, name) in self.globals:
                return self.globals[(mod.short, name)]
            if isinstance(node, ast.AST):
                try:
                    return ast.literal_eval(node)
                except (ValueError, SyntaxError):
                    return None
        return None

    def lookup_global(self, mod, name):
        g = self.globals.get((mod.short, name))
        if g is not None:
            return g
        if isinstance(mod, FakeModule):
            for (ms, nm), v in self.globals.items():
                if nm == name:
                    return v
            return None
        imp = mod.imports.get(name)
        if imp and imp[0] == 'symbol':
            tm = self.ix.modules.get(imp[1])
            if tm is not None and tm is not mod:
                return self.lookup_global(tm, imp[2])
        return self.wrap(self.ix.resolve_name(mod, name), name)

    def _import(self, st, env):
        if isinstance(self.m, FakeModule):
            return
        tmp = {}
        # relative imports are resolved against the package of the running module
        pkg = self.m.name.rsplit('.', 1)[0] if '.' in self.m.name else ''
        if isinstance(st, ast.Import):
            for a in st.names:
                tm = self.ix.modules.get(a.name)
                if tm is not None:
                    env[a.asname or a.name.split('.')[0]] = Ref(('module', tm))
            return
        base = st.module or ''
        if st.level:
            parts = pkg.split('.') if pkg else []
            if st.level > 1:
                parts = parts[:len(parts) - (st.level - 1)]
            rb = '.'.join(parts)
            base = (rb + '.' + base) if base and rb else (rb or base)
        for a in st.names:
            local = a.asname or a.name
            full = (base + '.' + a.name) if base else a.name
            if full in self.ix.modules:
                env[local] = Ref(('module', self.ix.modules[full]))
                continue
            tm = self.ix.modules.get(base)
            if tm is not None:
                v = self.lookup_global(tm, a.name)
                if v is not None:
                    env[local] = v

    # ---------------------------------------------------------------- statements
    def exec1(self, st, env):
        if isinstance(st, (ast.Import, ast.ImportFrom)):
            return self._import(st, env)
        if isinstance(st, ast.If):
            t = self.eval(st.test, env)
            if Q.known(t):
                return self.exec(st.body if t else st.orelse, env)
            outs = []
            for branch in (st.body, st.orelse):
                e = self._snapshot(env)
                try:
                    self.exec(branch, e)
                    outs.append(e)
                except Q._Return as r:
                    self._exits[-1].append((r.value, e))
                except _Done:
                    pass
                except (Q._Break, Q._Continue) as x:
                    self.imprecise.append('%s under an undecided test in %s (line %d)' % (type(x).__name__.strip('_').lower(), self.cur, st.lineno))
                    outs.append(e)
            if not outs:
                raise _Done()
            merged = _join_envs(outs)
            env.clear()
            env.update(merged)
            return
        if isinstance(st, ast.Try):
            self.exec(st.body, env)
            self.exec(st.orelse, env)
            self.exec(st.finalbody, env)
            return
        if isinstance(st, ast.Assign) and len(st.targets) == 1 and isinstance(st.targets[0], ast.Attribute):
            tgt = st.targets[0]
            if not (isinstance(tgt.value, ast.Name) and tgt.value.id == 'self'):
                base = self.eval(tgt.value, env)
                if isinstance(base, Inst):
                    base.attrs[tgt.attr] = self.eval(st.value, env)
                    return
        return super().exec1(st, env)

    def frame(self, mod, cinfo, owner, fn, env):
        """Run the body of fn in module mod; -> (return value, env) joined over every exit."""
        if self.frames >= self.MAXFRAMES:
            return Q.Sym('depth'), env
        saved = (self.m, self.consts, self.cls, self.cinfo, self.owner, self.cur)
        self.m = mod
        if id(mod) not in self._consts:
            self._consts[id(mod)] = Q.Interp(mod.tree).consts
        self.consts = self._consts[id(mod)]
        self.cinfo, self.owner = cinfo, owner
        self.cls = cinfo.node if cinfo is not None else None
        self.cur = '%s.%s' % (owner.name, fn.name) if owner is not None else fn.name
        self.frames += 1
        self._exits.append([])
        self.invoked.append(fn)
        try:
            try:
                self.exec(fn.body, env)
                self._exits[-1].append((None, env))
            except Q._Return as r:
                self._exits[-1].append((r.value, env))
            except _Done:
                pass
            except (Q._Break, Q._Continue):
                self._exits[-1].append((None, env))
            exits = self._exits[-1]
        finally:
            self._exits.pop()
            self.frames -= 1
            self.m, self.consts, self.cls, self.cinfo, self.owner, self.cur = saved
        if not exits:
            return Q.Sym('noexit'), env
        ret = _join_values([x[0] for x in exits])
        if len(exits) > 1:
            merged = _join_envs([x[1] for x in exits])
            env.clear()
            env.update(merged)
        return ret, env

    def bind(self, fn, args, kw, skip_first):
        params = list(fn.args.posonlyargs) + list(fn.args.args)
        if skip_first and params:
            params = params[1:]
        env = {}
        defaults = list(fn.args.defaults)
        dmap = {}
        allp = list(fn.args.posonlyargs) + list(fn.args.args)
        for p, d in zip(allp[len(allp) - len(defaults):], defaults):
            dmap[p.arg] = d
        for p, d in zip(fn.args.kwonlyargs, fn.args.kw_defaults):
            if d is not None:
                dmap[p.arg] = d
        names = [p.arg for p in params] + [p.arg for p in fn.args.kwonlyargs]
        for p, v in zip(params, args):
            env[p.arg] = v
        for k, v in kw.items():
            if k in names:
                env[k] = v
        for nm in names:
            if nm not in env:
                env[nm] = self.eval(dmap[nm], {}) if nm in dmap else Q.Sym(nm)
        return env

    @staticmethod
    def _decor(fn):
        return {d.id for d in fn.decorator_list if isinstance(d, ast.Name)}

    def invoke_on_self(self, owner, fn, args, kw, env):
        """A method of the object `self` denotes in env (instance, class or static method)."""
        static = 'staticmethod' in self._decor(fn)
        sub = self.bind(fn, args, kw, skip_first=not static)
        for k, v in env.items():
            if k.startswith('self.'):
                sub[k] = v
        ret, sub = self.frame(owner.module, self.cinfo, owner, fn, sub)
        for k, v in sub.items():
            if k.startswith('self.'):
                env[k] = v
        return ret

    def construct(self, cinfo, args, kw):
        inst = Inst(cinfo)
        found = self.find_method(cinfo, '__init__')
        if found is None:
            return inst
        owner, fn = found
        sub = self.bind(fn, args, kw, skip_first=True)
        saved = self.cinfo
        ret, sub = self.frame(owner.module, cinfo, owner, fn, sub)
        for k, v in sub.items():
            if k.startswith('self.'):
                inst.attrs[k[5:]] = v
        return inst

    # ---------------------------------------------------------------- expressions
    def _comp(self, n, env):
        """Comprehension over known iterables -> list of (element env) ; None when not decidable."""
        envs = [dict(env)]
        for g in n.generators:
            nxt = []
            for e in envs:
                it = self.eval(g.iter, e)
                if not Q.known(it) or not isinstance(it, (list, tuple, dict, str, set, frozenset)) or (isinstance(it, dict) and it.get(Q.OPEN)):
                    return None
                for x in (sorted(it, key=repr) if isinstance(it, (set, frozenset)) else list(it)):
                    e2 = dict(e)
                    self.assign(g.target, x, e2)
                    ok = True
                    for c in g.ifs:
                        t = self.eval(c, e2)
                        if not Q.known(t):
                            return None
                        if not t:
                            ok = False
                            break
                    if ok:
                        nxt.append(e2)
            envs = nxt
        return envs

    def _eval(self, n, env):
        if isinstance(n, ast.Name):
            if n.id in env:
                return env[n.id]
            v = self.lookup_global(self.m, n.id)
            if v is not None:
                return v
            return super()._eval(n, env)
        if isinstance(n, ast.Attribute) and not (isinstance(n.value, ast.Name) and n.value.id == 'self' and 'self' not in env):
            base = self.eval(n.value, env)
            if isinstance(base, Obj):
                if self.attr_hook is not None:
                    v = self.attr_hook(base, n.attr)
                    if v is not None:
                        return v
                return base.step('.' + n.attr)
            if isinstance(base, Inst):
                if n.attr in base.attrs:
                    return base.attrs[n.attr]
                return Q.Sym('attr ' + n.attr)
            if isinstance(base, Ref):
                if base.r[0] == 'module':
                    v = self.lookup_global(base.r[1], n.attr)
                    if v is not None:
                        return v
                elif base.r[0] == 'class':
                    found = self.find_method(base.r[1], n.attr)
                    if found:
                        return Ref(('method', found[0], found[1]))
            return Q.Sym('attr ' + n.attr)
        if isinstance(n, (ast.ListComp, ast.SetComp, ast.GeneratorExp)):
            envs = self._comp(n, env)
            if envs is None:
                return Q.Sym('comprehension')
            vals = [self.eval(n.elt, e) for e in envs]
            return vals if not isinstance(n, ast.SetComp) else (set(vals) if all(Q.known(v) for v in vals) else Q.Sym('set'))
        if isinstance(n, ast.DictComp):
            envs = self._comp(n, env)
            if envs is None:
                return {Q.OPEN: True}
            out = {}
            for e in envs:
                k = self.eval(n.key, e)
                if not Q.known(k):
                    out[Q.OPEN] = True
                else:
                    out[k] = self.eval(n.value, e)
            return out
        if isinstance(n, ast.Set):
            vals = [self.eval(e, env) for e in n.elts]
            return set(vals) if all(Q.known(v) for v in vals) else Q.Sym('set')
        if isinstance(n, ast.Compare) and len(n.ops) == 1 and isinstance(n.ops[0], (ast.Eq, ast.NotEq)):
            a, b = self.eval(n.left, env), self.eval(n.comparators[0], env)
            if Q.known(a) and Q.known(b) and not any(isinstance(x, dict) and x.get(Q.OPEN) for x in (a, b)):
                try:
                    return (a == b) if isinstance(n.ops[0], ast.Eq) else (a != b)
                except Exception:
                    return Q.Sym('cmp')
            return Q.Sym('cmp')
        return super()._eval(n, env)

    def call(self, n, env):
        f = n.func
        if isinstance(f, ast.Attribute) and f.attr in self.loader_methods and isinstance(f.value, ast.Name) and f.value.id in self.loader_names:
            return super().call(n, env)
        if isinstance(f, ast.Name) and f.id in ('dict', 'len', 'str', 'repr', 'int', 'bool', 'tuple', 'list', 'sorted') and f.id not in env:
            if f.id in ('tuple', 'list', 'sorted') and n.args:
                a0 = self.eval(n.args[0], env)
                if isinstance(a0, (set, frozenset)):
                    return sorted(a0, key=repr)
            return super().call(n, env)
        if isinstance(f, ast.Name) and f.id in ('set', 'frozenset') and f.id not in env and len(n.args) <= 1:
            a0 = self.eval(n.args[0], env) if n.args else ()
            if Q.known(a0) and isinstance(a0, (list, tuple, set, frozenset, str)) and all(Q.known(x) for x in a0):
                return set(a0)
            return Q.Sym('set')
        target = None                   # ('self', owner, def) | value
        if isinstance(f, ast.Attribute) and isinstance(f.value, ast.Call) and isinstance(f.value.func, ast.Name) and f.value.func.id == 'super' \
                and self.cinfo is not None and self.owner is not None:
            found = self.find_method(self.cinfo, f.attr, after=self.owner)
            if found:
                target = ('self',) + found
        elif isinstance(f, ast.Attribute) and isinstance(f.value, ast.Name) and f.value.id in ('self', 'cls') and f.value.id not in env and self.cinfo is not None:
            found = self.find_method(self.cinfo, f.attr)
            if found:
                target = ('self',) + found
        elif isinstance(f, ast.Attribute) and isinstance(f.value, ast.Call) and isinstance(f.value.func, ast.Name) and f.value.func.id == 'type' \
                and len(f.value.args) == 1 and isinstance(f.value.args[0], ast.Name) and f.value.args[0].id == 'self' and self.cinfo is not None:
            found = self.find_method(self.cinfo, f.attr)
            if found:
                target = ('self',) + found
        fv = None
        if target is None:
            if isinstance(f, ast.Attribute):
                base = self.eval(f.value, env)
                if isinstance(base, (str, list)) or (isinstance(base, dict) and f.attr != 'copy'):
                    return super().call(n, env)
                if isinstance(base, dict) and f.attr == 'copy':
                    return dict(base)
                if isinstance(base, (set, frozenset)):
                    return Q.Sym('setcall')
            fv = self.eval(f, env)
        args = [self.eval(a, env) for a in n.args if not isinstance(a, ast.Starred)]
        kw = {k.arg: self.eval(k.value, env) for k in n.keywords if k.arg}
        starred = any(isinstance(a, ast.Starred) for a in n.args) or any(k.arg is None for k in n.keywords)
        res = Q.Sym('call')
        if target is not None and not starred:
            fv = Ref(('method', target[1], target[2]))
            res = self.invoke_on_self(target[1], target[2], args, kw, env)
        elif isinstance(fv, Obj):
            res = fv.step('()')
        elif isinstance(fv, Ref) and not starred:
            hooked = self.call_hook(fv, args, kw) if self.call_hook is not None else NotImplemented
            if hooked is not NotImplemented:
                res = hooked
            elif fv.r[0] == 'class':
                res = self.construct(fv.r[1], args, kw)
            elif fv.r[0] == 'func' and fv.r[1] is self.home:
                # a helper function of the module under analysis (extracted code): evaluated like a method
                res, _ = self.frame(fv.r[1], None, None, fv.r[2], self.bind(fv.r[2], args, kw, skip_first=False))
            elif fv.r[0] == 'method':
                owner, fn = fv.r[1], fv.r[2]
                dec = self._decor(fn)
                explicit_self = bool(n.args) and isinstance(n.args[0], ast.Name) and n.args[0].id == 'self' and 'self' not in env
                related = self.cinfo is not None and not isinstance(self.cinfo, FakeClass) and not isinstance(owner, FakeClass) \
                    and any(k is owner for k in self.ix.mro(self.cinfo))
                if isinstance(self.cinfo, FakeClass) and owner is self.cinfo:
                    related = True
                if 'staticmethod' in dec and related:
                    res = self.invoke_on_self(owner, fn, args, kw, env)
                elif 'classmethod' in dec and related:
                    res = self.invoke_on_self(owner, fn, args, kw, env)
                elif explicit_self and related:
                    res = self.invoke_on_self(owner, fn, args[1:], kw, env)
        elif isinstance(fv, Ref):
            pass
        elif isinstance(f, ast.Attribute) and isinstance(f.value, ast.Name) and f.value.id == 'copy' and f.attr in ('copy', 'deepcopy') and args and isinstance(args[0], dict):
            res = dict(args[0])
        self.calls.append((fv, args, kw, res, n))
        return res


# ------------------------------------------------------------------------------------------------ facts of the tree
def _directive_reads(fn):
    """{directive name: line} for `<x>.directives['name']` / `<x>.directives.get('name' ...)` inside fn."""
    out = {}
    for n in ast.walk(fn):
        if isinstance(n, ast.Subscript) and isinstance(n.value, ast.Attribute) and n.value.attr == 'directives' \
                and isinstance(n.slice, ast.Constant) and isinstance(n.slice.value, str):
            out.setdefault(n.slice.value, n.lineno)
        elif isinstance(n, ast.Call) and isinstance(n.func, ast.Attribute) and n.func.attr == 'get' and isinstance(n.func.value, ast.Attribute) \
                and n.func.value.attr == 'directives' and n.args and isinstance(n.args[0], ast.Constant) and isinstance(n.args[0].value, str):
            out.setdefault(n.args[0].value, n.lineno)
    return out


def coercion_directives(expr_tree, pyrex_tree=None, root_class='CoercionNode'):
    """{directive: [where it is read]}: the directives consulted while a value is coerced between C and Python —
    read in the coercion node classes (subclasses of CoercionNode), in `coerce_to*` methods of expression nodes, in the
    module-level helpers these call (transitively), and in the conversion API methods of the type classes."""
    classes = {c.name: c for c in expr_tree.body if isinstance(c, ast.ClassDef)}
    funcs = {f.name: f for f in expr_tree.body if isinstance(f, ast.FunctionDef)}
    if root_class not in classes:
        raise AnalysisError('ExprNodes.%s (base of the coercion nodes) not found' % root_class)

    def derives(c, seen=()):
        if c.name == root_class:
            return True
        for b in c.bases:
            nm = b.id if isinstance(b, ast.Name) else b.attr if isinstance(b, ast.Attribute) else None
            if nm in classes and nm not in seen and derives(classes[nm], seen + (c.name,)):
                return True
        return False
    roots = []
    for c in classes.values():
        co = derives(c)
        for fn in c.body:
            if isinstance(fn, ast.FunctionDef) and (co or fn.name.startswith('coerce_to')):
                roots.append(('%s.%s' % (c.name, fn.name), fn))
    if len(roots) < 20:
        raise AnalysisError('only %d coercion methods found in ExprNodes.py' % len(roots))
    seen, work, out = set(), list(roots), {}
    while work:
        where, fn = work.pop()
        if id(fn) in seen:
            continue
        seen.add(id(fn))
        for d in _directive_reads(fn):
            out.setdefault(d, []).append(where)
        for n in ast.walk(fn):
            if isinstance(n, ast.Call) and isinstance(n.func, ast.Name) and n.func.id in funcs:
                work.append((n.func.id, funcs[n.func.id]))
    if pyrex_tree is not None:
        for c in pyrex_tree.body:
            if isinstance(c, ast.ClassDef):
                for fn in c.body:
                    if isinstance(fn, ast.FunctionDef) and fn.name in CONVERSION_API:
                        for d in _directive_reads(fn):
                            out.setdefault(d, []).append('PyrexTypes.%s.%s' % (c.name, fn.name))
    return {d: sorted(set(w)) for d, w in out.items()}, len(roots)


def directive_names(ctx):
    tree = ctx.parse(OPTIONS)
    for st in tree.body:
        if isinstance(st, ast.Assign) and any(isinstance(t, ast.Name) and t.id == '_directive_defaults' for t in st.targets) and isinstance(st.value, ast.Dict):
            keys = {k.value for k in st.value.keys if isinstance(k, ast.Constant) and isinstance(k.value, str)}
            if len(keys) < 40:
                break
            return keys
    raise AnalysisError('Options._directive_defaults not found as a literal table of directives')


# ------------------------------------------------------------------------------------------------ step 1 + 2: inheritance
def _directive_tables(names):
    module = {n: ('module', n) for n in names}
    defaults = {n: ('default', n) for n in names}
    return module, defaults


def _make_interp(ix, module, names):
    mod_tab, def_tab = _directive_tables(names)

    def attr_hook(obj, attr):
        if attr == 'directives':
            return dict(mod_tab)        # the directives of whatever scope this is: a complete table of module tokens
        return None

    def call_hook(ref, args, kw):
        if ref.r[0] == 'func' and ref.r[2].name == 'get_directive_defaults' and ref.r[1].short == 'Options':
            return dict(def_tab)
        return NotImplemented
    it = DInterp(ix, module, globals_={('Options', '_directive_defaults'): def_tab}, attr_hook=attr_hook, call_hook=call_hook)
    return it


def inherited_after_init(ix, module, cinfo, names, overrides):
    """Interpret <loader class>.__init__ for a helper loaded with an outer module scope -> (value of self.compiler_directives, interp)."""
    it = _make_interp(ix, module, names)
    found = it.find_method(cinfo, '__init__')
    if found is None:
        raise AnalysisError('%s.__init__ not found' % cinfo.name)
    owner, fn = found
    params = [a.arg for a in fn.args.args[1:]] + [a.arg for a in fn.args.kwonlyargs]
    if 'outer_module_scope' not in params or 'compiler_directives' not in params:
        raise AnalysisError('%s.__init__ has no outer_module_scope / compiler_directives parameters (%s)' % (cinfo.name, params))
    kw = {'outer_module_scope': Obj('outer_module_scope'), 'compiler_directives': overrides, 'context': None}
    env = it.bind(fn, [Obj('impl')], {k: v for k, v in kw.items() if k in params}, skip_first=True)
    it.cinfo = cinfo
    ret, env = it.frame(owner.module, cinfo, owner, fn, env)
    return env.get('self.compiler_directives', Q.Sym('unset')), it


def _bogus_names(it, names):
    """String constants listed next to real directive names in the functions the evaluation entered, that are no directives."""
    out = []
    for fn in it.invoked:
        for n in ast.walk(fn):
            if isinstance(n, (ast.Tuple, ast.List, ast.Set)):
                vals = [e.value for e in n.elts if isinstance(e, ast.Constant) and isinstance(e.value, str)]
                if len(vals) >= 2 and any(v in names for v in vals):
                    out += [v for v in vals if v not in names]
    return sorted(set(out))


def inherit_findings(ix, module, cinfo, names, need):
    """-> [(directive, partition text, ok, message, line)]"""
    out = []
    other = sorted(n for n in names if n not in need)
    partitions = [('no directive overrides', None), ('an override of another directive', {other[0]: ('override', other[0])} if other else {})]
    for text, ov in partitions:
        val, it = inherited_after_init(ix, module, cinfo, names, ov)
        if it.imprecise:
            raise AnalysisError('%s.__init__: evaluation not sound: %s' % (cinfo.name, it.imprecise[0]))
        line = it.invoked[-1].lineno if it.invoked else 0       # the last function entered: the one that builds the table
        for d in sorted(need):
            if d not in names:
                continue
            if isinstance(val, (Q.Sym, Q.Multi)):
                raise AnalysisError('%s.__init__: the value of self.compiler_directives for a helper with an outer module scope cannot be modelled (%r)' % (cinfo.name, val))
            if not isinstance(val, dict):
                out.append((d, text, False, "a helper loaded with outer_module_scope=<module> gets compiler_directives=%r instead of a table derived from the module's directives: "
                            "the helper is compiled with the default '%s'" % (val, d), line))
                continue
            got = val.get(d, None)
            if got is None and val.get(Q.OPEN):
                raise AnalysisError("%s.__init__: cannot decide where compiler_directives['%s'] comes from" % (cinfo.name, d))
            if isinstance(got, (Q.Sym, Q.Multi)):
                raise AnalysisError("%s.__init__: compiler_directives['%s'] is not decidable (%r)" % (cinfo.name, d, got))
            if got == ('module', d):
                out.append((d, text, True, '', line))
                continue
            bogus = _bogus_names(it, names)
            how = 'is missing' if got is None else "is the compiler default" if got == ('default', d) else 'is %r' % (got,)
            out.append((d, text, False,
                        "directive '%s' is consulted when a C string value is coerced to a Python object (%s) but does not reach the Cython-level conversion helpers: with %s, "
                        "compiler_directives['%s'] of a helper loaded with outer_module_scope=<module> %s instead of the module's value%s. Elements converted inside vector/list/set/map/pair/carray "
                        ".to_py come back as the default string type while the same value converted at top level follows the module's setting"
                        % (d, ', '.join(need[d][:3]), text, d, how,
                           ('; listed next to the inherited names but not a directive: %s' % bogus) if bogus else ''), line))
    return out


# ------------------------------------------------------------------------------------------------ step 3: get_tree
def _reads_attr_of_param(fn, attr):
    """names of parameters p of fn for which fn reads p.<attr>"""
    params = {a.arg for a in list(fn.args.posonlyargs) + list(fn.args.args) + list(fn.args.kwonlyargs)}
    return {n.value.id for n in ast.walk(fn) if isinstance(n, ast.Attribute) and n.attr == attr and isinstance(n.value, ast.Name) and n.value.id in params}


def gettree_findings(ix, module, cinfo, names, method='get_tree'):
    """The context object(s) from which get_tree builds the nested pipeline carry self.compiler_directives.
    -> [(callee name, ok, message, line)]"""
    it = _make_interp(ix, module, names)
    found = it.find_method(cinfo, method)
    if found is None:
        raise AnalysisError('%s.%s not found' % (cinfo.name, method))
    owner, fn = found
    tok = Obj('self.compiler_directives')
    env = it.bind(fn, [], {}, skip_first=True)
    for a in list(env):
        if isinstance(env[a], Q.Sym):
            env[a] = Obj(a)
    env['self.compiler_directives'] = tok
    it.cinfo = cinfo
    it.frame(owner.module, cinfo, owner, fn, env)
    out = []
    for fv, args, kw, res, node in it.calls:
        if not (isinstance(fv, Ref) and fv.r[0] == 'func'):
            continue
        callee = fv.r[2]
        readers = _reads_attr_of_param(callee, 'compiler_directives')
        if not readers:
            continue
        bound = it.bind(callee, args, kw, skip_first=False)
        for p in sorted(readers):
            v = bound.get(p)
            name = '%s.%s(%s=)' % (fv.r[1].short, callee.name, p)
            if isinstance(v, Inst):
                got = v.attrs.get('compiler_directives', None)
                if got == tok:
                    out.append((name, True, '', fn.lineno))
                elif isinstance(got, (Q.Sym, Q.Multi)):
                    raise AnalysisError('%s.%s: compiler_directives of the context passed to %s is not decidable (%r)' % (cinfo.name, method, name, got))
                else:
                    out.append((name, False, "%s.%s builds the nested compilation of a Cython-level helper from a %s whose compiler_directives is %r, not self.compiler_directives: "
                                "the directives inherited from the user's module (c_string_type, c_string_encoding ...) never reach the helper, its element conversions use the defaults"
                                % (cinfo.name, method, v.cinfo.name, got), fn.lineno))
            else:
                raise AnalysisError('%s.%s: the context passed to %s is not a constructed context object (%r)' % (cinfo.name, method, name, v))
    if it.imprecise:
        raise AnalysisError('%s.%s: evaluation not sound: %s' % (cinfo.name, method, it.imprecise[0]))
    return out


# ------------------------------------------------------------------------------------------------ step 4: load sites
def generic_type_uses(raw, context_keys):
    """Context-supplied names a section uses in CODE position (not its own @cname name, not inside string literals, not Tempita
    control): `cdef vector[X] v`, `<X>item`, `{{base_type}} *v`.  Such a section declares and converts values of caller-chosen types."""
    cn = set(Q.cname_keys(raw))
    t = re.sub(r'#[^\n]*', '', raw)
    t = re.sub(r'"(?:\\.|[^"\\\n])*"|\'(?:\\.|[^\'\\\n])*\'', '""', t)
    free, loops, bad = Q.tempita_facts(raw)
    uses = set()
    for m in Q.TEMPITA.finditer(t):
        c = m.group(1).strip()
        c2 = c[:-1].rstrip() if c.endswith(':') else c
        if not c2 or c2.startswith('#') or c2 in ('endfor', 'endif', 'else', 'enddef') or re.match(r'(for|if|elif|py:|default|def|inherit)\b', c2):
            continue
        ns = Q._names(re.split(r'\s\|\s', c2)[0], set(loops))
        if ns is None:
            continue
        roots = ns - cn
        # an expression mentioning the section's own name key only computes that name
        if ns & cn:
            continue
        uses |= {x for x in roots if x in context_keys}
    bare = Q.TEMPITA.sub(' ', t)
    for k in context_keys:
        if isinstance(k, str) and k not in cn and re.search(r'(?<![\w.])%s\b' % re.escape(k), bare):
            uses.add(k)
    return uses


def _enclosing_function(tree, node):
    best = None
    for fn in ast.walk(tree):
        if isinstance(fn, ast.FunctionDef) and fn.lineno <= node.lineno <= (fn.end_lineno or fn.lineno):
            if any(x is node for x in ast.walk(fn)):
                if best is None or fn.lineno >= best.lineno:
                    best = fn
    return best


def scope_root(fn, expr, depth=0):
    """Root of a scope expression made of attribute reads / argument-less calls, local aliases resolved through their single
    assignment -> ('param', name) | ('self', text) | ('other', text)."""
    e = expr
    while True:
        if isinstance(e, ast.Attribute):
            e = e.value
        elif isinstance(e, ast.Call) and not e.args and not e.keywords:
            e = e.func
        else:
            break
    if not isinstance(e, ast.Name):
        return ('other', ast.unparse(expr))
    params = [a.arg for a in list(fn.args.posonlyargs) + list(fn.args.args) + list(fn.args.kwonlyargs)]
    if e.id in params:
        return ('self', ast.unparse(expr)) if params and e.id == params[0] else ('param', e.id)
    assigns = [st for st in ast.walk(fn) if isinstance(st, ast.Assign) and any(isinstance(t, ast.Name) and t.id == e.id for t in st.targets)]
    if len(assigns) == 1 and depth < 4:
        return scope_root(fn, assigns[0].value, depth + 1)
    return ('other', ast.unparse(expr))


OBJECT_TYPES = ('object', 'list', 'tuple', 'dict', 'set', 'frozenset', 'bytes', 'bytearray', 'str', 'unicode')


def produces_python(raw):
    """The section defines a function that RETURNS a Python object (`cdef object f(...)`, `cdef inline list f(...)`, an untyped
    cdef function, or a `def`): it turns C values into Python objects, the direction in which the string directives decide the result."""
    t = re.sub(r'#[^\n]*', '', raw)
    for m in re.finditer(r'^[ \t]*(?:cp?def)[ \t]+(?!extern\b)(?:inline[ \t]+)?(?P<ret>[^\n(]*?)(?P<name>\{\{(?:(?!\}\})[^\n])*\}\}|[A-Za-z_]\w*)[ \t]*\(', t, re.M):
        ret = ' '.join(m.group('ret').split())
        if ret.startswith(('cppclass', 'class', 'struct', 'enum')) or 'cppclass' in ret:
            continue
        if ret == '' or ret in OBJECT_TYPES:
            return True
    return bool(re.search(r'^[ \t]*def[ \t]+\w+[ \t]*\(', t, re.M))


def site_findings(ctx, site, section, need, pyrex_tree):
    """-> (generic uses, [(suffix, message)]) for one load site / section."""
    sec = ctx.cat.section(site.file, section)
    if sec is None or not isinstance(site.context, dict):
        return set(), []
    if not produces_python(sec.raw):
        return set(), []
    # a context entry with a concrete string / number value is text, not a type object
    keys = {k for k, v in site.context.items() if isinstance(k, str) and k != Q.OPEN and not isinstance(v, (str, int, float, bool, type(None)))}
    uses = generic_type_uses(sec.raw, keys)
    if not uses:
        return uses, []
    out = []
    kw = getattr(site, 'kw', None)
    if kw is None:
        raise AnalysisError('load site %s has no recorded keywords' % site.func)
    what = "section %s::%s declares and converts values of the caller-supplied type(s) %s" % (site.file, section, sorted(uses))
    if 'outer_module_scope' not in kw:
        out.append(('scope', "%s, but %s loads it without outer_module_scope: the helper is compiled under the default directives (c_string_type=bytes, no c_string_encoding) "
                    "whatever the module being compiled asks for, so string elements come back as another type than the same string converted at top level; "
                    "types declared in the module are not visible either" % (what, site.func)))
    else:
        node = [k.value for k in site.node.keywords if k.arg == 'outer_module_scope'][0]
        fn = _enclosing_function(pyrex_tree, site.node)
        if fn is None:
            raise AnalysisError('enclosing function of the load at line %d not found' % site.node.lineno)
        root = scope_root(fn, node)
        if root[0] != 'param':
            out.append(('scope', "%s; %s passes outer_module_scope=%s, which is not derived from the scope the conversion is requested for (a parameter of %s): "
                        "the helper inherits the directives (and resolves its names in the scope) of the module that DECLARES the type, not of the module being compiled" % (what, site.func, root[1], fn.name)))
    if 'compiler_directives' in kw:
        cd = kw['compiler_directives']
        if isinstance(cd, dict) and not cd.get(Q.OPEN):
            hit = sorted(k for k in cd if k in need)
            if hit:
                out.append(('override', "%s; %s overrides %s through compiler_directives=: the helper no longer follows the module's setting" % (what, site.func, hit)))
        elif cd is not None:
            raise AnalysisError('%s: compiler_directives= of the load of %s is not a decidable table' % (site.func, section))
    return uses, out


# ------------------------------------------------------------------------------------------------ the rule
PC_FILTER = '''
class U:
    def __init__(self, impl, compiler_directives=None, outer_module_scope=None):
        if outer_module_scope is not None:
            compiler_directives = self.pick(outer_module_scope.global_scope().directives, compiler_directives)
        self.compiler_directives = compiler_directives

    @staticmethod
    def pick(current, overrides=None):
        from .Options import _directive_defaults
        out = dict(_directive_defaults)
        for name in ('binding', '%s'
                     '%s', 'ccomplex'):
            if name in current:
                out[name] = current[name]
        if overrides:
            out.update(overrides)
        return out
'''

PC_DISCARD = '''
class U:
    def __init__(self, impl, compiler_directives=None, outer_module_scope=None):
        self.compiler_directives = compiler_directives
        if outer_module_scope is not None:
            compiler_directives = self.pick(outer_module_scope.global_scope().directives, compiler_directives)

    @staticmethod
    def pick(current, overrides=None):
        return {n: current[n] for n in ('%s', '%s') if n in current}
'''


def _sections(site):
    s = site.section
    if isinstance(s, Q.Multi):
        return sorted(s.values)
    return [s] if isinstance(s, str) else []


def rule_dirs(ctx, plain, keyed):
    r = Rule('C33-DIRS', 'the directives the coercion code consults reach the Cython-level conversion helpers: inherited by CythonUtilityCode from the module being compiled, '
             'handed to the nested compilation, and every template that converts caller-supplied types is loaded with the scope of that module', floor=12)
    ix = ctx.memo('C33-lazyindex', lambda: LazyIndex(ctx))
    names = directive_names(ctx)
    pyrex_tree = ctx.parse(PYREX)
    need, nroots = coercion_directives(ctx.parse(EXPR), pyrex_tree)
    need = {d: w for d, w in need.items() if d in names}
    if not need:
        raise AnalysisError('no directive is read by the coercion code of ExprNodes.py (%d methods scanned): the anchor of C33-DIRS moved' % nroots)
    module = ix.mod(UTIL)
    if 'CythonUtilityCode' not in module.classes:
        raise AnalysisError('UtilityCode.CythonUtilityCode not found')
    cinfo = module.classes['CythonUtilityCode']
    # 1+2: inheritance
    seen = set()
    for d, text, ok, msg, line in inherit_findings(ix, module, cinfo, names, need):
        key = 'CythonUtilityCode:inherit:' + d
        r.inst(key, sample="%s (%s): read by %s" % (key, text, ', '.join(need[d][:2])))
        if not ok and key not in seen:
            seen.add(key)
            r.violate(key, 'Cython/Compiler/UtilityCode.py', line, msg)
    # 3: nested compilation
    got = gettree_findings(ix, module, cinfo, names)
    if not got:
        raise AnalysisError('CythonUtilityCode.get_tree hands no context object to a function that reads its compiler_directives')
    for name, ok, msg, line in got:
        key = 'CythonUtilityCode.get_tree:' + name
        r.inst(key, sample=key)
        if not ok:
            r.violate(key, 'Cython/Compiler/UtilityCode.py', line, msg)
    # 4: load sites
    done = set()
    nsites = 0
    skipped = []
    for s in list(plain) + [x for v in keyed.values() for x in v]:
        if s.file not in FILES:
            continue
        for name in _sections(s):
            k = (s.func, s.file, name)
            if k in done:
                continue
            done.add(k)
            uses, bad = site_findings(ctx, s, name, need, pyrex_tree)
            if not uses:
                skipped.append('%s::%s' % (s.file, name))
                continue
            nsites += 1
            key = '%s->%s::%s' % k
            r.inst(key, sample='%s converts %s' % (key, sorted(uses)))
            for suffix, msg in bad:
                r.violate(key + ':' + suffix, PYREX, s.line, msg)
    r.info('no obligation on the load sites of %s: they return C values (from-Python direction, decided by C macros) or use fixed C types only' % sorted(set(skipped)))
    if nsites < 7:
        raise AnalysisError('only %d load sites of templates that build Python objects from caller-supplied types found' % nsites)
    # embedded positive examples: two names fused by a lost comma; the filtered table discarded
    need_l = sorted(need)
    a, b = need_l[0], need_l[-1]
    pc_ok = []
    for src, args in ((PC_FILTER, (a, b)), (PC_DISCARD, (a, b))):
        fm = FakeModule('U', src % args)
        fc = FakeClass(fm, fm.tree.body[0])
        res = inherit_findings(ix, fm, fc, names, need)
        pc_ok.append(any(not x[2] for x in res))
    fm = FakeModule('U', PC_DISCARD.replace('self.compiler_directives = compiler_directives\n        if', 'if').replace(
        "compiler_directives)\n", "compiler_directives)\n        self.compiler_directives = compiler_directives\n", 1) % (a, b))
    fc = FakeClass(fm, fm.tree.body[0])
    silent = all(x[2] for x in inherit_findings(ix, fm, fc, names, need)) if len(need_l) <= 2 else True
    r.positive_control(all(pc_ok) and silent, 'two inherited names fused into one string; filtered table assigned to a dead local; (and silent on the repaired variant)')
    return r


# ------------------------------------------------------------------------------------------------ C33-CSTYPE
# One directive value, three tables: the Python type the compiler ASSUMES for a C string coerced to Python
# (ExprNodes: the helper that reads the directive), the flavour of the module-wide C macros that BUILD the object at top
# level (ModuleNode: #define __Pyx_PyObject_FromString __Pyx_Py<F>_FromString), and the flavour to_py_call_code selects for
# the specialised helpers used for ELEMENTS inside the Cython-level templates (PyrexTypes: <type name> -> <F>).
MODNODE = 'Cython/Compiler/ModuleNode.py'
BUILTIN = 'Cython/Compiler/Builtin.py'


def finite_directive_domain(ctx, d):
    """Normalised values of directive d if Options.directive_types validates it with one_of(...), else None."""
    tree = ctx.parse(OPTIONS)
    for st in tree.body:
        if isinstance(st, ast.Assign) and any(isinstance(t, ast.Name) and t.id == 'directive_types' for t in st.targets) and isinstance(st.value, ast.Dict):
            for k, v in zip(st.value.keys, st.value.values):
                if isinstance(k, ast.Constant) and k.value == d:
                    if isinstance(v, ast.Call) and isinstance(v.func, ast.Name) and v.func.id == 'one_of':
                        try:
                            args = [ast.literal_eval(a) for a in v.args]
                            mp = {}
                            for kw in v.keywords:
                                if kw.arg == 'map':
                                    mp = ast.literal_eval(kw.value)
                        except (ValueError, SyntaxError):
                            raise AnalysisError("Options.directive_types['%s']: one_of(...) arguments are not literals" % d)
                        return sorted({mp.get(a, a) for a in args})
                    return None
    return None


def builtin_type_variables(ctx):
    """{module variable of Builtin.py: builtin type name} from `X = <scope>.lookup('<name>').type`."""
    out = {}
    for n in ast.walk(ctx.parse(BUILTIN)):
        if isinstance(n, ast.Assign) and len(n.targets) == 1 and isinstance(n.targets[0], ast.Name) and isinstance(n.value, ast.Attribute) and n.value.attr == 'type':
            c = n.value.value
            if isinstance(c, ast.Call) and isinstance(c.func, ast.Attribute) and c.func.attr == 'lookup' and len(c.args) == 1 and isinstance(c.args[0], ast.Constant):
                out[n.targets[0].id] = c.args[0].value
    if len(out) < 8:
        raise AnalysisError('Builtin.py: only %d `<name>_type = builtin_scope.lookup(...).type` bindings found' % len(out))
    return out


def _eval_with_directives(ix, module, cinfo, owner, fn, values, names, env_param=None):
    """Interpret fn with <anything>.directives == tokens overridden by `values`."""
    tab = {n: ('module', n) for n in names}
    tab.update(values)

    def attr_hook(obj, attr):
        return dict(tab) if attr == 'directives' else None
    it = DInterp(ix, module, attr_hook=attr_hook)
    env = it.bind(fn, [], {}, skip_first=cinfo is not None)
    for a in list(env):
        if isinstance(env[a], Q.Sym):
            env[a] = Obj(a)
    it.cinfo = cinfo
    ret, env = it.frame(module, cinfo, owner, fn, env)
    return ret, it


def assumed_type_tables(ctx, ix, d, domain, names, readers):
    """{function name: {value: builtin type variable}} for the module-level helpers of ExprNodes.py that read directive d and
    return a type chosen by it."""
    m = ix.mod('ExprNodes')
    out, lines = {}, {}
    for fname in readers:
        fn = m.functions.get(fname)
        if fn is None:
            continue
        tab = {}
        for v in domain:
            ret, it = _eval_with_directives(ix, m, None, None, fn, {d: v}, names)
            tab[v] = ret
        if all(isinstance(x, Q.Sym) and re.fullmatch(r'[A-Za-z_]\w*', x.why or '') or x is None for x in tab.values()):
            out[fname] = {v: (x.why if x is not None else None) for v, x in tab.items()}
            lines[fname] = fn.lineno
    return out, lines


def macro_flavours(ctx, ix, d, domain, names):
    """{value: {macro: flavour}} for the `#define __Pyx_PyObject_<X> __Pyx_Py<F>_<X>` lines the module preamble emits."""
    m = ix.mod('ModuleNode')
    found = None
    for cname, c in m.classes.items():
        for fn in c.methods.values():
            if d in _directive_reads(fn) and any(isinstance(n, ast.Constant) and isinstance(n.value, str) and '#define __Pyx_PyObject_' in n.value for n in ast.walk(fn)):
                found = (c, fn)
    if found is None:
        raise AnalysisError("ModuleNode.py: the method that reads directive '%s' and emits the `#define __Pyx_PyObject_...` macros was not found" % d)
    c, fn = found
    out = {}
    for v in domain:
        ret, it = _eval_with_directives(ix, m, c, c, fn, {d: v, 'c_string_encoding': 'utf8'}, names)
        macros = {}
        for fv, args, kw, res, node in it.calls:
            for a in args:
                if isinstance(a, str):
                    for mm in re.finditer(r'#define\s+(__Pyx_PyObject_(\w+))\s+__Pyx_Py(\w+?)_(\w+)\s*$', a, re.M):
                        if mm.group(2) == mm.group(4):
                            macros[mm.group(1)] = mm.group(3)
        out[v] = macros
    return out, '%s.%s' % (c.name, fn.name), fn.lineno


def element_flavour_map(ctx):
    """(class name, map name, table) of the <builtin type name> -> flavour map that to_py_call_code applies to string conversions."""
    tree = ctx.parse(PYREX)
    for cls in tree.body:
        if not isinstance(cls, ast.ClassDef):
            continue
        for fn in cls.body:
            if isinstance(fn, ast.FunctionDef) and fn.name == 'to_py_call_code':
                for n in ast.walk(fn):
                    if isinstance(n, ast.Call) and isinstance(n.func, ast.Attribute) and n.func.attr == 'get' and isinstance(n.func.value, ast.Attribute) \
                            and isinstance(n.func.value.value, ast.Name) and n.func.value.value.id == 'self' and n.args \
                            and isinstance(n.args[0], ast.Attribute) and n.args[0].attr == 'name':
                        mapname = n.func.value.attr
                        for st in cls.body:
                            if isinstance(st, ast.Assign) and any(isinstance(t, ast.Name) and t.id == mapname for t in st.targets):
                                try:
                                    return cls.name, mapname, ast.literal_eval(st.value)
                                except (ValueError, SyntaxError):
                                    pass
    raise AnalysisError('PyrexTypes: the <type name> -> flavour table used by to_py_call_code for string conversions was not found')


def cstype_findings(d, domain, assumed, builtin_vars, macros, elem_map, where):
    """-> [(key, ok, message)]"""
    out = []
    inverse = {}
    for tname, fl in elem_map.items():
        inverse.setdefault(fl, set()).add(tname)
    for v in domain:
        mac = macros.get(v) or {}
        flav = set(mac.values())
        key = '%s=%s' % (d, v)
        if not mac:
            out.append((key + ':macros', False, "%s emits no `#define __Pyx_PyObject_<X> __Pyx_Py<F>_<X>` for %s=%s: the top-level C string -> Python conversion macros are undefined" % (where, d, v)))
            continue
        if len(flav) != 1:
            out.append((key + ':macros', False, "%s defines the top-level conversion macros with different flavours for %s=%s: %s -- a `char*` and a C++ string of the same module "
                        "are converted to different Python types" % (where, d, v, mac)))
        else:
            out.append((key + ':macros', True, ''))
        for fname, tab in sorted(assumed.items()):
            var = tab.get(v)
            k2 = '%s:%s' % (key, fname)
            if var is None:
                out.append((k2, False, "%s() yields no type for %s=%s, a value the directive accepts: the result type of every C string -> Python coercion is None (compiler crash / wrong code)" % (fname, d, v)))
                continue
            tname = builtin_vars.get(var)
            if tname is None:
                raise AnalysisError("%s(): %s is not one of the builtin type variables of Builtin.py" % (fname, var))
            ef = elem_map.get(tname)
            bad = None
            for F in sorted(flav):
                if ef is not None and ef != F or ef is None and tname not in inverse.get(F, {tname}):
                    bad = ("with %s=%s the module-wide macros build Py%s objects (%s) but %s() tells the compiler the coercion yields '%s', for which to_py_call_code selects the %s helpers: "
                           "a C string inside a container / array (converted by the specialised helper) comes back as a different Python type than the same string converted at top level"
                           % (d, v, F, where, fname, tname, 'Py' + ef if ef else 'generic'))
                elif ef is None and F not in inverse:
                    bad = "with %s=%s the module-wide macros build Py%s objects, a flavour no builtin type of the to_py_call_code table maps to" % (d, v, F)
                if bad:
                    break
            out.append((k2, bad is None, bad or ''))
    return out


def rule_cstype(ctx):
    r = Rule('C33-CSTYPE', 'for every value of a finite-domain directive the coercion code consults (c_string_type): the Python type the compiler assumes, the flavour of the '
             'module-wide C macros and the flavour to_py_call_code selects for element conversions agree', floor=6)
    ix = ctx.memo('C33-lazyindex', lambda: LazyIndex(ctx))
    names = directive_names(ctx)
    need, _ = coercion_directives(ctx.parse(EXPR), ctx.parse(PYREX))
    builtin_vars = builtin_type_variables(ctx)
    clsname, mapname, elem_map = element_flavour_map(ctx)
    done = 0
    for d in sorted(need):
        domain = finite_directive_domain(ctx, d)
        if not domain:
            continue
        assumed, flines = assumed_type_tables(ctx, ix, d, domain, names, need[d])
        if not assumed:
            raise AnalysisError("no helper of ExprNodes.py maps directive '%s' to a builtin type (readers: %s)" % (d, need[d]))
        macros, where, line = macro_flavours(ctx, ix, d, domain, names)
        done += 1
        for key, ok, msg in cstype_findings(d, domain, assumed, builtin_vars, macros, elem_map, where):
            r.inst(key, sample='%s: macros %s, assumed %s, %s.%s' % (key, macros.get(key.split('=')[1].split(':')[0]), {f: t.get(key.split('=')[1].split(':')[0]) for f, t in assumed.items()}, clsname, mapname))
            if not ok:
                r.violate(key, MODNODE if key.endswith(':macros') else EXPR, line if key.endswith(':macros') else flines.get(key.rsplit(':', 1)[1], 0), msg)
    if not done:
        raise AnalysisError('no finite-domain directive among the directives read by the coercion code (%s)' % sorted(need))
    pc = cstype_findings('d', ['a', 'b'], {'f': {'a': 'bytes_type', 'b': None}}, {'bytes_type': 'bytes'}, {'a': {'M': 'ByteArray'}, 'b': {'M': 'Bytes'}},
                         {'bytes': 'Bytes', 'bytearray': 'ByteArray'}, 'pc')
    bad = {k for k, ok, _ in pc if not ok}
    r.positive_control({'d=a:f', 'd=b:f'} <= bad, 'assumed type of another flavour than the macros; accepted value without a type')
    return r
