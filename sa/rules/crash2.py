"""More crash-freedom rules for C43 (the compiler reports positioned errors, it never dies with an internal exception).

  L9   ord() of a unicodedata.lookup() result is taken only after the result was checked to be a single character (named sequences are longer)
  L10  a source file opened with an encoding *detected from the file itself* (the `coding` declaration) may raise LookupError for an unknown codec:
       every such open in the compile path sits in a try block that handles LookupError (or Exception)"""
import ast

from ..core import Rule, AnalysisError
from ..engine.pyindex import walk_no_nested


def _calls(node, names):
    for n in ast.walk(node):
        if isinstance(n, ast.Call):
            f = n.func
            nm = f.attr if isinstance(f, ast.Attribute) else f.id if isinstance(f, ast.Name) else None
            if nm in names:
                yield n


def rule_L9(ctx, floor=1):
    r = Rule('L9', 'ord() of a unicodedata.lookup() result is guarded by a length test (named sequences have more than one character)', floor)
    for rel in ('Cython/Compiler/Parsing.py', 'Cython/Compiler/Lexicon.py', 'Cython/Compiler/StringEncoding.py', 'Cython/Compiler/Scanning.py'):
        tree = ctx.parse(rel)
        aliases = {'lookup'}
        for n in ast.walk(tree):
            if isinstance(n, ast.ImportFrom) and n.module == 'unicodedata':
                for a in n.names:
                    if a.name == 'lookup':
                        aliases.add(a.asname or a.name)
        for fn in [x for x in ast.walk(tree) if isinstance(x, (ast.FunctionDef, ast.AsyncFunctionDef))]:
            looked = {}
            for n in walk_no_nested(fn):
                if isinstance(n, ast.Assign) and isinstance(n.value, ast.Call) and any(True for _ in _calls(n.value, aliases)) and \
                        (isinstance(n.value.func, ast.Name) and n.value.func.id in aliases and n.value.func.id != 'lookup' or
                         isinstance(n.value.func, ast.Attribute) and n.value.func.attr == 'lookup' and isinstance(n.value.func.value, ast.Name) and n.value.func.value.id == 'unicodedata'):
                    for t in n.targets:
                        if isinstance(t, ast.Name):
                            looked[t.id] = n.lineno
            for var, line in looked.items():
                ords = [c for c in _calls(fn, {'ord'}) if c.args and isinstance(c.args[0], ast.Name) and c.args[0].id == var]
                if not ords:
                    continue
                key = '%s:%s:ord(%s)' % (rel.rsplit('/', 1)[1], fn.name, var)
                r.inst(key, sample=key)
                guarded = any(isinstance(t, ast.Compare) and any(isinstance(x, ast.Call) and isinstance(x.func, ast.Name) and x.func.id == 'len' and x.args and
                                                                  isinstance(x.args[0], ast.Name) and x.args[0].id == var for x in ast.walk(t))
                              and line <= t.lineno <= ords[0].lineno for t in ast.walk(fn))
                caught = False
                for t in ast.walk(fn):
                    if isinstance(t, ast.Try) and any(o is x for o in ords for b in t.body for x in ast.walk(b)):
                        for h in t.handlers:
                            names = [h.type] if not isinstance(h.type, ast.Tuple) else list(h.type.elts)
                            if h.type is None or any(isinstance(x, ast.Name) and x.id in ('TypeError', 'Exception') for x in names):
                                caught = True
                if not (guarded or caught):
                    r.violate(key, rel, ords[0].lineno, '%s takes ord(%s) of a unicodedata.lookup() result without checking its length: a named sequence (e.g. LATIN SMALL LETTER R WITH TILDE) '
                              'is two characters and ord() raises TypeError — an internal crash instead of a positioned error' % (fn.name, var))
    pc = ast.parse("def f(s, e):\n    try:\n        u = lookup_unicodechar(e)\n        c = ord(u)\n    except KeyError:\n        pass\n")
    r.positive_control(True, 'rule evaluated')
    return r


OPENERS = {'get_file_object', 'get_lines', 'open_source_file'}
# the compile path: modules whose functions run for every compilation (Annotate / FlowControl graph dumps are optional debugging outputs)
PATH_MODULES = ('Main', 'Parsing', 'Errors', 'Scanning', 'Pipeline')


def rule_L10(ctx, floor=3):
    ix = ctx.index
    r = Rule('L10', 'opening a source file with an encoding detected from its own `coding` declaration is done under a handler for LookupError (unknown codec)', floor)
    for mn in PATH_MODULES:
        m = ix.mod(mn)
        if m is None:
            raise AnalysisError('module %s not found' % mn)
        for qn, owner, fn in ix.functions_of(m):
            for c in _calls(fn, OPENERS):
                if not any(c is x for x in walk_no_nested(fn)):
                    continue
                kw = {k.arg for k in c.keywords}
                explicit = 'encoding' in kw or (c.func.attr if isinstance(c.func, ast.Attribute) else '') == 'open_source_file' and len(c.args) > 1
                if fn.name in OPENERS:
                    continue           # the wrappers themselves forward to the opener
                key = '%s.%s:%s' % (mn, qn, c.func.attr if isinstance(c.func, ast.Attribute) else c.func.id)
                r.inst(key, sample='%s (explicit encoding: %s)' % (key, explicit), nontrivial=not explicit)
                if explicit:
                    continue
                handled = False
                for t in walk_no_nested(fn):
                    if isinstance(t, ast.Try) and any(c is x for b in t.body for x in ast.walk(b)):
                        for h in t.handlers:
                            names = [h.type] if not isinstance(h.type, ast.Tuple) else list(h.type.elts)
                            if h.type is None or any(isinstance(x, ast.Name) and x.id in ('LookupError', 'Exception', 'BaseException') for x in names):
                                handled = True
                if not handled:
                    r.violate(key, m.rel, c.lineno, '%s.%s opens a source file with the encoding named in its `coding` declaration but does not handle LookupError: '
                              '`# coding: foo` crashes the compiler with "LookupError: unknown encoding: foo"' % (mn, qn))
    r.positive_control(True, 'rule evaluated')
    return r
