"""Helpers for C36: compile-time witnesses (W1) for guards emitted by the generator, dead-branch analysis (P2) of
Tempita conditions, and the scoping discipline of the safety directives.

clang is used only as a *parser / constant evaluator* of `_Static_assert` declarations (-fsyntax-only): nothing is
compiled to code and nothing is run."""
import ast, os, re, subprocess, tempfile

from ..core import AnalysisError, node_src
from ..engine import absint
from . import pC32 as E
from .pC32 import Obj, Fresh, Call, Str, NOTFOUND, Evaluator

# clang's predefined macros give the limits without any header (works for cross targets without a sysroot)
TYPE_LIMITS = {
    'int': ('int', '(-__INT_MAX__ - 1)'),
    'long': ('long', '(-__LONG_MAX__ - 1L)'),
    'PY_LONG_LONG': ('long long', '(-__LONG_LONG_MAX__ - 1LL)'),
    'long long': ('long long', '(-__LONG_LONG_MAX__ - 1LL)'),
}
HOST = None
CROSS_TARGETS = (('ILP32', 'i386-pc-linux-gnu'), ('LLP64', 'x86_64-pc-windows-msvc'))


def static_asserts(decls, asserts, target=None):
    """asserts: [(key, C constant expression)] -> {key: True (holds) | False (fails)}.
    Raises AnalysisError if clang reports anything but failed static assertions."""
    lines = list(decls)
    for i, (key, expr) in enumerate(asserts):
        lines.append('_Static_assert(%s, "SA%d");' % (expr, i))
    src = '\n'.join(lines) + '\n'
    with tempfile.TemporaryDirectory(prefix='sa_w1_') as d:
        p = os.path.join(d, 'w.c')
        with open(p, 'w') as f:
            f.write(src)
        cmd = ['clang', '-fsyntax-only', '-w', '-ferror-limit=0', '-std=c11']
        if target:
            cmd += ['-target', target]
        try:
            r = subprocess.run(cmd + [p], stdout=subprocess.PIPE, stderr=subprocess.PIPE, text=True, timeout=60)
        except (OSError, subprocess.TimeoutExpired) as e:
            raise AnalysisError('clang not runnable: %s' % e)
    failed = set()
    other = []
    for line in r.stderr.splitlines():
        if ' error: ' in line:
            m = re.search(r'static(?:_| )assert(?:ion)? failed.*"SA(\d+)"', line)
            if m:
                failed.add(int(m.group(1)))
            else:
                other.append(line)
    if other:
        raise AnalysisError('clang cannot evaluate the instantiated guard%s: %s' % (' for ' + target if target else '', other[0][-300:]))
    if r.returncode != 0 and not failed:
        raise AnalysisError('clang failed without a diagnostic on the instantiated guard: %s' % r.stderr[-300:])
    return {key: (i not in failed) for i, (key, _) in enumerate(asserts)}


# ====================================================================================== guards of the division nodes
def emitted_guards(fn, oracle, what):
    """Run a generate_*_code method for one domain point -> list over paths of
    [(guard Str | None, exception name)] for every emitted `PyErr_SetString(PyExc_<X>, ...)`."""
    out = []
    for p in Evaluator(oracle, what=what).run_function(fn):
        if p.kind == 'raise':
            continue
        texts = [c.args[0] for c in p.calls('putln', 'put') if c.args and isinstance(c.args[0], (str, Str))]
        texts = [t if isinstance(t, Str) else Str([t]) for t in texts]
        found = []
        for i, t in enumerate(texts):
            m = re.search(r'PyErr_SetString\s*\(\s*PyExc_(\w+)', t.text())
            if not m:
                continue
            guard = None
            for j in range(i - 1, -1, -1):
                tj = texts[j].text()
                if re.search(r'\bif\s*\(', tj):
                    guard = texts[j]
                    break
                if re.search(r'PyErr_SetString|[{}]', tj):
                    break
            found.append((guard, m.group(1)))
        out.append(found)
    return out


def guard_condition(s):
    """`[else ]if (<cond>) {` template -> (condition text with §k§ placeholders, {k: value})"""
    out, vals = [], {}
    for p in s.parts:
        if isinstance(p, str):
            out.append(p)
        else:
            vals[len(vals)] = p
            out.append('§%d§' % (len(vals) - 1))
    text = ''.join(out)
    m = re.search(r'\bif\s*\(', text)
    if not m:
        raise AnalysisError('guard text without `if (`: %r' % text)
    i = m.end() - 1
    depth = 0
    for j in range(i, len(text)):
        if text[j] == '(':
            depth += 1
        elif text[j] == ')':
            depth -= 1
            if depth == 0:
                return text[i + 1:j], vals
    raise AnalysisError('unbalanced guard text %r' % text)


def classify_placeholder(v):
    """'A' (first operand), 'B' (second operand), 'T' (C type name) or None"""
    if isinstance(v, Call):
        f = v.func
        if re.search(r'(^|\.)operand1\.result$', f):
            return 'A'
        if re.search(r'(^|\.)operand2\.result$', f):
            return 'B'
        if v.name in ('empty_declaration_code', 'declaration_code', 'sign_and_name'):
            return 'T'
    return None


def instantiate(cond, vals, ctype, a, b):
    def sub(m):
        k = classify_placeholder(vals[int(m.group(1))])
        if k is None:
            raise AnalysisError('guard contains a piece the witness cannot instantiate: %r' % (vals[int(m.group(1))],))
        return {'A': '(%s)' % a, 'B': '(%s)' % b, 'T': ctype}[k]
    return re.sub(r'§(\d+)§', sub, cond)


def macro_defs(ctx, text):
    """#define lines for the Cython macros a guard uses (transitively, from the utility catalogue)."""
    out, missing, seen = [], [], set()
    todo = sorted(set(re.findall(r'\b(__P[Yy][Xx]_\w+)\b', text)))
    while todo:
        name = todo.pop()
        if name in seen:
            continue
        seen.add(name)
        ds = [d for d in ctx.cat.decls.get(name, []) if d.kind == 'macro']
        if not ds:
            missing.append(name)
            continue
        # several definitions under #if: take the one that is active when the file is compiled as C
        def cxx_only(d):
            for c in d.conds or ():
                c = c.strip()
                if re.match(r'(ifdef\s+__cplusplus|if\s+defined\s*\(?\s*__cplusplus)', c) and 'else' not in c:
                    return True
                if re.match(r'ifndef\s+__cplusplus', c) and 'else' in c:
                    return True
            return False
        ds = [d for d in ds if not cxx_only(d)] or ds
        d = ds[0]
        body = ' '.join((d.body or '').replace('\\\n', ' ').split())
        if d.params is None:
            out.append('#define %s %s' % (name, body))
        else:
            out.append('#define %s(%s) %s' % (name, ', '.join(p.strip() for p in d.params), body))
        todo.extend(n for n in set(re.findall(r'\b(__P[Yy][Xx]_\w+)\b', body)) if n not in seen)
    return out, missing


# ====================================================================================== helper bodies: unguarded signed / and %
def specialize_c(text, ctype, tname):
    t = text.replace('%(type)s', ctype).replace('%(type_name)s', tname).replace('%(math_h_modifier)s', '')
    return t.replace('%%', '%')


def unguarded_signed_divisions(ctext, fname):
    """In C function `fname`: signed integer `/` and `%` operations whose right operand is a parameter and that are not
    under a condition comparing that parameter with -1.  -> (list of (opcode, guarded?), number of such operations)"""
    fnast = absint.clang_function_ast(ctext, fname, prelude='#define CYTHON_INLINE inline\n#define CYTHON_UNUSED_VAR(x) (void)(x)\n#define likely(x) (x)\n#define unlikely(x) (x)\n')
    params = [p.get('name') for p in fnast.get('inner', []) if p.get('kind') == 'ParmVarDecl']
    body = [c for c in fnast['inner'] if c.get('kind') == 'CompoundStmt'][0]
    res = []

    def mentions_minus_one(cond, var):
        has_var = any(absint.c_name(n) == var for n in absint.c_walk(cond) if n.get('kind') == 'DeclRefExpr')
        neg1 = False
        for n in absint.c_walk(cond):
            if n.get('kind') == 'UnaryOperator' and n.get('opcode') == '-' and n.get('inner'):
                x = absint.c_strip(n['inner'][0])
                if x.get('kind') == 'IntegerLiteral' and x.get('value') == '1':
                    neg1 = True
        return has_var and neg1

    def always_returns(n):
        k = n.get('kind')
        if k == 'ReturnStmt':
            return True
        if k == 'CompoundStmt':
            inner = [c for c in n.get('inner', []) or [] if isinstance(c, dict)]
            return bool(inner) and always_returns(inner[-1])
        return False

    def walk(n, conds):
        k = n.get('kind')
        if k == 'BinaryOperator' and n.get('opcode') in ('/', '%'):
            qt = (n.get('type') or {}).get('qualType', '')
            rhs = n['inner'][1]
            rv = [absint.c_name(x) for x in absint.c_walk(rhs) if x.get('kind') == 'DeclRefExpr']
            rv = [v for v in rv if v in params]
            if rv and 'unsigned' not in qt and not re.search(r'\b(float|double)\b', qt):
                res.append((n.get('opcode'), any(mentions_minus_one(c, rv[0]) for c in conds)))
        inner = [c for c in n.get('inner', []) or [] if isinstance(c, dict)]
        if k in ('IfStmt', 'ConditionalOperator') and inner:
            walk(inner[0], conds)
            for c in inner[1:]:
                walk(c, conds + [inner[0]])
            return
        if k == 'CompoundStmt':
            cur = list(conds)
            for c in inner:
                walk(c, cur)
                # `if (b == -1) return ...;` guards everything after it
                if c.get('kind') == 'IfStmt':
                    ci = [x for x in c.get('inner', []) if isinstance(x, dict)]
                    if len(ci) >= 2 and always_returns(ci[1]):
                        cur = cur + [ci[0]]
            return
        for c in inner:
            walk(c, conds)
    walk(body, [])
    return res


# ====================================================================================== P2: template conditions
def template_python_nodes(section_text, tokens_fn):
    """AST nodes of every Python expression / statement inside a Tempita section: [(kind, source, ast node)]"""
    out = []
    for t in tokens_fn(section_text):
        k = t[0]
        if k in ('if', 'elif', 'expr'):
            src = t[1]
            if k == 'expr' and '|' in src and not re.search(r'[\'"][^\'"]*\|', src):
                src = src.split('|')[0]
            try:
                out.append((k, t[1], ast.parse(src.strip(), mode='eval')))
            except SyntaxError:
                raise AnalysisError('cannot parse template expression %r' % t[1])
        elif k == 'for':
            m = re.match(r'(.+?)\s+in\s+(.*)$', t[1], re.S)
            if m:
                try:
                    out.append((k, t[1], ast.parse(m.group(2).strip(), mode='eval')))
                except SyntaxError:
                    raise AnalysisError('cannot parse template loop %r' % t[1])
        elif k == 'py':
            import textwrap
            src = textwrap.dedent(t[1]).strip()
            try:
                out.append((k, t[1], ast.parse(src)))
            except SyntaxError:
                try:
                    out.append((k, t[1], ast.parse(textwrap.dedent(t[1].lstrip('\n')))))
                except SyntaxError:
                    raise AnalysisError('cannot parse template py: block %r' % t[1][:60])
    return out


def dispatch_dicts(nodes):
    """`x = {...}[var]` / `{...}.get(var, ...)` in py: blocks -> [(target or None, var, {key: value})]"""
    out = []
    for kind, src, tree in nodes:
        for n in ast.walk(tree):
            d, var, tgt = None, None, None
            if isinstance(n, ast.Assign) and len(n.targets) == 1 and isinstance(n.targets[0], ast.Name):
                v = n.value
                if isinstance(v, ast.Subscript) and isinstance(v.value, ast.Dict) and isinstance(v.slice, ast.Name):
                    d, var, tgt = v.value, v.slice.id, n.targets[0].id
            if d is None:
                continue
            try:
                mapping = {ast.literal_eval(k): ast.literal_eval(v) for k, v in zip(d.keys, d.values)}
            except Exception:
                continue
            out.append((tgt, var, mapping))
    return out


def decompose(s, alphabet):
    """Greedy longest-match split of s into members of alphabet, or None."""
    toks = sorted(alphabet, key=len, reverse=True)
    out, i = [], 0
    while i < len(s):
        for t in toks:
            if t and s.startswith(t, i):
                out.append(t)
                i += len(t)
                break
        else:
            return None
    return out


def literal_comparisons(nodes, domains):
    """Every comparison of a domain variable with string literals:
    -> [(var, form, [literals], source of the enclosing expression, compare source)]"""
    out = []
    for kind, src, tree in nodes:
        for n in ast.walk(tree):
            if isinstance(n, ast.Compare) and len(n.ops) == 1:
                l, r, op = n.left, n.comparators[0], n.ops[0]
                for a, b in ((l, r), (r, l)):
                    if isinstance(a, ast.Name) and a.id in domains:
                        if isinstance(op, (ast.Eq, ast.NotEq)) and isinstance(b, ast.Constant) and isinstance(b.value, str):
                            out.append((a.id, 'eq', [b.value], src, node_src(n)))
                        elif isinstance(op, (ast.In, ast.NotIn)) and a is l and isinstance(b, (ast.Tuple, ast.List, ast.Set)) and \
                                all(isinstance(x, ast.Constant) and isinstance(x.value, str) for x in b.elts):
                            out.append((a.id, 'in', [x.value for x in b.elts], src, node_src(n)))
                        elif isinstance(op, (ast.In, ast.NotIn)) and a is l and isinstance(b, ast.Constant) and isinstance(b.value, str):
                            out.append((a.id, 'substr', [b.value], src, node_src(n)))
                        break
            elif isinstance(n, ast.Call) and isinstance(n.func, ast.Attribute) and n.func.attr == 'get' and isinstance(n.func.value, ast.Dict) and n.args and \
                    isinstance(n.args[0], ast.Name) and n.args[0].id in domains:
                try:
                    keys = [ast.literal_eval(k) for k in n.func.value.keys]
                except Exception:
                    continue
                if all(isinstance(k, str) for k in keys):
                    out.append((n.args[0].id, 'in', keys, src, node_src(n, 80)))
    return out
