"""C45 rule family: profiling / tracing events.

Python side: where trace events are emitted (Code.CCodeWriter.put_trace_* callers), under which tests, and in which
order relative to the success / error / common-tail segments of the generated C function.
C side: the three configuration blocks of Profile.c (sys.monitoring, legacy tracing, no-op) define the same macros with
the same arity; in the sys.monitoring block the guard event, the state slot and the fired event agree.
"""
import ast, re, itertools

from ..core import Rule, AnalysisError, node_src
from ..engine import pyflow
from ..engine.cutil import split_args, match_paren
from ..engine.pyindex import walk_no_nested, is_self_attr
from .pC37 import Res, local_assigns, emit_call, label_kind, stmt_lists

PH = '\xa7'
TRACE_NAME = re.compile(r'__Pyx_(?:Trace\w+|PyMonitoring_\w+|TurnOffSysMonitoring\w*)')
GEN_MODULES = ('Nodes', 'ExprNodes', 'UtilNodes', 'MatchCaseNodes', 'ModuleNode', 'FusedNode', 'Buffer', 'MemoryView', 'Code', 'Optimize', 'ParseTreeTransforms')
EVENT_METHODS = {'put_trace_start': 'start', 'put_trace_return': 'ret', 'put_trace_unwind': 'unwind', 'put_trace_exit': 'exit',
                 'put_trace_yield': 'yield', 'put_trace_resume': 'resume'}


# ------------------------------------------------------------------------------------------------ tracing tests
class Tests:
    """Classifies test expressions of one function: which of them imply / are equivalent to "tracing is enabled"."""

    def __init__(self, fn):
        self.fn = fn
        self.env = local_assigns(fn)

    @staticmethod
    def directive(e):
        if isinstance(e, ast.Subscript) and isinstance(e.slice, ast.Constant) and e.slice.value in ('profile', 'linetrace') and \
                ast.unparse(e.value).endswith('directives'):
            return e.slice.value
        return None

    def classify(self, e, depth=0):
        """-> 'eq' (true iff tracing enabled), 'imp' (true only if tracing enabled), None"""
        if isinstance(e, ast.Call) and isinstance(e.func, ast.Attribute) and e.func.attr == 'is_tracing' and not e.args:
            return 'eq'
        if self.directive(e):
            return 'imp'
        if isinstance(e, ast.BoolOp) and isinstance(e.op, ast.Or):
            ds = set()
            for v in e.values:
                v2 = v
                if isinstance(v, ast.Name) and len(self.env.get(v.id, ())) == 1:
                    v2 = self.env[v.id][0]
                d = self.directive(v2)
                if d:
                    ds.add(d)
                elif self.classify(v, depth + 1) == 'eq':
                    ds |= {'profile', 'linetrace'}
                else:
                    return None
            return 'eq' if ds == {'profile', 'linetrace'} else 'imp'
        if isinstance(e, ast.Name) and depth < 3 and e.id in self.env:
            vals = self.env[e.id]
            kinds = []
            for v in vals:
                if isinstance(v, ast.Constant) and not v.value:
                    kinds.append('false')
                elif isinstance(v, ast.BoolOp) and isinstance(v.op, ast.And) and any(self.classify(x, depth + 1) in ('eq', 'imp') for x in v.values):
                    # flag = a and b and code.is_tracing(): the flag is true only if tracing is enabled
                    kinds.append('imp')
                else:
                    kinds.append(self.classify(v, depth + 1))
            if all(k in ('eq', 'imp', 'false') for k in kinds) and any(k in ('eq', 'imp') for k in kinds):
                return 'eq' if all(k == 'eq' for k in kinds) else 'imp'
        return None

    def atom(self, e):
        """Key of a test atom we track, or None."""
        if self.classify(e):
            return ('T', ast.unparse(e))
        x = e
        if isinstance(x, ast.Name) and len(self.env.get(x.id, ())) == 1:
            x = self.env[x.id][0]
        if isinstance(x, ast.Attribute) and x.attr == 'is_terminator':
            return ('TERM', ast.unparse(x.value))
        return None


def val(state, key):
    for f in state:
        if isinstance(f, tuple) and len(f) == 3 and f[0] == 'A' and f[1] == key:
            return f[2]
    return None


def tr_known(state):
    for f in state:
        if isinstance(f, tuple) and f[0] == 'TR':
            return f[1]
    return None


def make_refine(tests):
    def eval3(e, state):
        if isinstance(e, ast.UnaryOp) and isinstance(e.op, ast.Not):
            v = eval3(e.operand, state)
            return None if v is None else not v
        if isinstance(e, ast.BoolOp) and tests.atom(e) is None:
            vs = [eval3(v, state) for v in e.values]
            if isinstance(e.op, ast.And):
                if any(v is False for v in vs):
                    return False
                return True if all(v is True for v in vs) else None
            if any(v is True for v in vs):
                return True
            return False if all(v is False for v in vs) else None
        if isinstance(e, ast.Constant):
            return bool(e.value)
        k = tests.atom(e)
        if k is None:
            return None
        v = val(state, k)
        if v is None and k[0] == 'T':
            c = tests.classify(e)
            t = tr_known(state)
            if c == 'eq' and t is not None:
                return t
            if c == 'imp' and t is False:
                return False
        return v

    def assume(e, truth, state):
        cur = eval3(e, state)
        if cur is not None:
            return state if cur == truth else None
        if isinstance(e, ast.UnaryOp) and isinstance(e.op, ast.Not):
            return assume(e.operand, not truth, state)
        if isinstance(e, ast.BoolOp) and tests.atom(e) is None:
            conj = isinstance(e.op, ast.And)
            if conj == truth:
                for v in e.values:
                    state = assume(v, truth, state)
                    if state is None:
                        return None
                return state
            unknown = [v for v in e.values if eval3(v, state) is None]
            if len(unknown) == 1:
                return assume(unknown[0], truth, state)
            return state
        k = tests.atom(e)
        if k is None:
            return state
        s = set(state)
        s.add(('A', k, truth))
        if k[0] == 'T':
            c = tests.classify(e)
            if truth:
                if tr_known(state) is False:
                    return None
                s.add(('TR', True))
            elif c == 'eq':
                if tr_known(state) is True:
                    return None
                s.add(('TR', False))
        return frozenset(s)

    def refine(test, truth, state):
        return assume(test, truth, state)
    return refine


def kill_assigned(node, state):
    if not isinstance(node, ast.stmt):
        return state
    names = {n.id for n in ast.walk(node) if isinstance(n, ast.Name) and isinstance(n.ctx, ast.Store)}
    if not names:
        return state
    return frozenset(f for f in state if not (isinstance(f, tuple) and len(f) == 3 and f[0] == 'A' and f[1][0] == 'T' and f[1][1] in names))


# ------------------------------------------------------------------------------------------------ emission sites
def trace_sites(ctx):
    """[(module, qualname, owner, fn)] for every function outside the put_trace_* API that emits a trace macro."""
    def build():
        ix = ctx.index
        out = []
        for ms in GEN_MODULES:
            try:
                m = ix.mod(ms)
            except AnalysisError:
                continue
            for qn, owner, fn in ix.functions_of(m):
                if fn.name.startswith('put_trace_'):
                    continue
                hit = False
                for n in walk_no_nested(fn):
                    if isinstance(n, ast.Call) and isinstance(n.func, ast.Attribute) and n.func.attr.startswith('put_trace_'):
                        hit = True
                    elif isinstance(n, ast.Constant) and isinstance(n.value, str) and TRACE_NAME.search(n.value):
                        hit = True
                if hit:
                    out.append((m, qn, owner, fn))
        return out
    return ctx.memo('pC45.sites', build)


def raw_trace_text(res, c):
    ec = emit_call(c)
    if ec is None and isinstance(c, ast.Call) and isinstance(c.func, ast.Attribute) and c.func.attr == '_write_lines' and c.args:
        ec = (ast.unparse(c.func.value), c.args[0])
    if ec is None:
        return None
    t = res.template(ec[1])
    if t is None or not TRACE_NAME.search(t[0]):
        return None
    return t[0]


def rule_guard(ctx):
    r = Rule('C45-GUARD', 'every emission of a trace macro (put_trace_* call or raw __Pyx_Trace* text) is dominated by a test that implies '
             'profile or linetrace is enabled', floor=30)
    n_fn = 0
    for m, qn, owner, fn in trace_sites(ctx):
        n_fn += 1
        res = Res(ctx, owner, fn) if owner is not None else None
        for key, line, what in unguarded_emissions(fn, res):
            r.violate('%s.%s:%s' % (m.short, qn, key), m.rel, line,
                      '%s.%s emits %s on a path where no test established that profiling/line tracing is enabled: without the directive the Profile utility '
                      'code is not included and the generated C does not compile (or events are produced although tracing is off)' % (m.short, qn, what))
        for key in emission_keys(fn, res):
            r.inst('%s.%s:%s' % (m.short, qn, key), sample='%s.%s emits %s' % (m.short, qn, key))
    if n_fn < 8:
        raise AnalysisError('only %d functions emit trace macros' % n_fn)
    pc = ast.parse("def f(self, code):\n    if self.x and code.is_tracing():\n        code.put_trace_exception(self.pos)\n    code.put_trace_exception_handled(self.pos)\n").body[0]
    got = unguarded_emissions(pc, None)
    r.positive_control([g[0] for g in got] == ['put_trace_exception_handled#1'], 'unguarded put_trace call after a guarded one')
    return r


def _emission_list(fn, res):
    out = []
    counts = {}
    for n in sorted(walk_no_nested(fn), key=lambda x: (getattr(x, 'lineno', 0), getattr(x, 'col_offset', 0))):
        if not isinstance(n, ast.Call):
            continue
        what = None
        if isinstance(n.func, ast.Attribute) and n.func.attr.startswith('put_trace_'):
            what = n.func.attr
        elif res is not None:
            t = raw_trace_text(res, n)
            if t:
                what = TRACE_NAME.search(t).group(0)
        if what:
            counts[what] = counts.get(what, 0) + 1
            out.append((n, '%s#%d' % (what, counts[what]), what))
    return out


def emission_keys(fn, res):
    return [k for _, k, _ in _emission_list(fn, res)]


def unguarded_emissions(fn, res):
    sites = {id(n): (k, w) for n, k, w in _emission_list(fn, res)}
    tests = Tests(fn)
    bad = {}

    def tr(node, state):
        state = kill_assigned(node, state)
        for c in pyflow.calls_in(node):
            if id(c) in sites and tr_known(state) is not True:
                bad[sites[id(c)][0]] = (c.lineno, sites[id(c)][1])
        return state
    pyflow.Flow(tr, refine=make_refine(tests), correlate=False).run(fn)
    return [(k, v[0], v[1]) for k, v in sorted(bad.items())]


# ------------------------------------------------------------------------------------------------ C45-PAIR
def _cpp_eval(cond, mon):
    c = re.sub(r'\s+', '', cond)
    table = {'CYTHON_USE_SYS_MONITORING': mon, '!CYTHON_USE_SYS_MONITORING': not mon}
    return table.get(c)


def scope_paths(ctx, m, owner, fn):
    """Flow over one function that opens a trace scope: per receiver, the set of (event sequence, facts) reaching the exit."""
    tests = Tests(fn)
    res = Res(ctx, owner, fn) if owner is not None else None
    # the statement at which the error segment ends: next sibling of the innermost `if` that contains the
    # put_label(<w>.error_label) call, or (when that call is at function level) the statement placing the return label
    errend = {}
    for stmts, guards in stmt_lists(fn):
        for i, s in enumerate(stmts):
            if isinstance(s, (ast.If, ast.For, ast.While, ast.With, ast.Try)):
                continue
            for c in pyflow.calls_in(s):
                if isinstance(c.func, ast.Attribute) and c.func.attr == 'put_label' and c.args and label_kind(c.args[0]) == 'error':
                    recv = ast.unparse(c.func.value)
                    if guards:
                        ifnode = guards[-1][0]
                        for st2, _ in stmt_lists(fn):
                            if ifnode in st2:
                                j = st2.index(ifnode)
                                if j + 1 < len(st2):
                                    errend[id(st2[j + 1])] = recv
                                    for fld in ('test', 'iter'):
                                        if hasattr(st2[j + 1], fld):
                                            errend[id(getattr(st2[j + 1], fld))] = recv
                    else:
                        for s2 in stmts[i + 1:]:
                            if any(isinstance(c2.func, ast.Attribute) and c2.func.attr == 'put_label' and c2.args and label_kind(c2.args[0]) == 'return'
                                   for c2 in (pyflow.calls_in(s2) if not isinstance(s2, (ast.If, ast.For, ast.While, ast.With, ast.Try)) else [])):
                                errend[id(s2)] = recv
                                break

    def seq(state):
        for f in state:
            if isinstance(f, tuple) and f[0] == 'EV':
                return f[1]
        return ()

    def put(state, ev):
        s = seq(state)
        if len(s) > 60:
            raise AnalysisError('%s.%s: trace event sequence does not converge' % (m.short, fn.name))
        return frozenset([f for f in state if not (isinstance(f, tuple) and f[0] == 'EV')] + [('EV', s + (ev,))])

    def tr(node, state):
        state = kill_assigned(node, state)
        if id(node) in errend and any(e[1] == 'errlabel' for e in seq(state)) and not any(e[1] == 'errend' for e in seq(state)):
            state = put(state, (errend[id(node)], 'errend', node.lineno if hasattr(node, 'lineno') else 0))
        for c in pyflow.calls_in(node):
            if not isinstance(c.func, ast.Attribute):
                continue
            recv = ast.unparse(c.func.value)
            a = c.func.attr
            if a in EVENT_METHODS:
                state = put(state, (recv, EVENT_METHODS[a], c.lineno))
            elif a == 'put_label' and c.args and label_kind(c.args[0]) in ('error', 'return') and not is_self_attr(c.args[0]):
                state = put(state, (recv, 'errlabel' if label_kind(c.args[0]) == 'error' else 'retlabel', c.lineno))
            elif a in ('putln', 'put') and c.args and isinstance(c.args[0], ast.Constant) and isinstance(c.args[0].value, str) and \
                    any(e[1] == 'start' for e in seq(state)):
                t = c.args[0].value.strip()
                mm = re.match(r'#\s*(if|ifdef|ifndef|elif|else|endif)\b\s*(.*)$', t)
                if mm:
                    state = put(state, (recv, 'cpp', c.lineno, mm.group(1), mm.group(2).split('/*')[0].strip()))
        return state
    o = pyflow.Flow(tr, refine=make_refine(tests), correlate=False).run(fn)
    return o.normal | o.returns


def split_config(events, mon, where):
    """Filter an event list by the emitted #if/#else/#endif lines for one configuration."""
    out, stack = [], []
    for e in events:
        if e[1] == 'cpp':
            d, cond = e[3], e[4]
            if d in ('if', 'ifdef', 'ifndef'):
                v = _cpp_eval(cond, mon) if d == 'if' else None
                stack.append([v, cond])
            elif d == 'else' and stack:
                stack[-1][0] = None if stack[-1][0] is None else not stack[-1][0]
            elif d == 'elif' and stack:
                stack[-1][0] = None
            elif d == 'endif' and stack:
                stack.pop()
            continue
        if any(v is False for v, _ in stack):
            continue
        if any(v is None for v, _ in stack) and e[1] in EVENT_METHODS.values():
            raise AnalysisError('%s: trace event emitted under the C condition %r, which the checker cannot evaluate' % (where, [c for v, c in stack if v is None]))
        out.append(e)
    return out


def check_scope_path(events, term_true, mon, where):
    """events of ONE receiver along one emission path -> list of (key, line, message)."""
    ev = split_config(events, mon, where)
    kinds = [e[1] for e in ev]
    if 'start' not in kinds:
        return []
    cfg = 'sys.monitoring' if mon else 'legacy tracing'
    problems = []
    line = lambda k: next((e[2] for e in ev if e[1] == k), ev[0][2])
    if 'errlabel' in kinds:
        e0 = kinds.index('errlabel')
        e1 = kinds.index('errend') if 'errend' in kinds else len(kinds)
        success = kinds[:e0] + kinds[e1:]
        error = kinds[e0:]
    else:
        success, error = kinds, None
    s = [k for k in success if k in ('start', 'ret', 'unwind', 'exit')]
    if s.count('start') != 1:
        problems.append(('success:start', line('start'), 'the success path emits %d start events' % s.count('start')))
    rets = [k for k in s if k in ('ret', 'unwind')]
    if 'unwind' in rets:
        problems.append(('success:unwind', line('unwind'), 'the success path (%s) emits an unwind event' % cfg))
    if rets.count('ret') == 0 and not term_true:
        problems.append(('success:no-return', line('start'), 'the fall-through success path (%s) emits a start event but no return event, and the path is not conditioned on '
                         'the body being a terminator: the profiler sees a call that never returns' % cfg))
    if rets.count('ret') > 1:
        problems.append(('success:double-return', line('ret'), 'the success path (%s) emits %d return events for one start event' % (cfg, rets.count('ret'))))
    if 'exit' not in s:
        problems.append(('success:no-exit', line('start'), 'the success path (%s) never emits put_trace_exit: the monitoring scope is not left and the frame/code object reference leaks' % cfg))
    elif s.count('exit') > 1:
        problems.append(('success:double-exit', line('exit'), 'the success path (%s) emits put_trace_exit %d times (double release of the frame/code object)' % (cfg, s.count('exit'))))
    elif 'ret' in s and s.index('exit') < max(i for i, k in enumerate(s) if k == 'ret'):
        problems.append(('success:exit-before-return', line('exit'), 'put_trace_exit is emitted before the return event on the success path (%s)' % cfg))
    if s and s[0] != 'start':
        problems.append(('success:order', line(s[0]), 'a %s event is emitted before the start event' % s[0]))
    if error is not None:
        x = [k for k in error if k in ('start', 'ret', 'unwind', 'exit')]
        n_end = x.count('ret') + x.count('unwind')
        if n_end == 0:
            problems.append(('error:no-unwind', line('errlabel'), 'the error exit path (%s) emits neither an unwind nor a return event: a call that raises is never closed for the profiler' % cfg))
        elif n_end > 1:
            problems.append(('error:double-unwind', line('errlabel'), 'the error exit path (%s) emits %d unwind/return events for one start event' % (cfg, n_end)))
        elif mon and 'unwind' not in x:
            problems.append(('error:return-under-monitoring', line('errlabel'), 'under sys.monitoring the error exit path reports PY_RETURN instead of PY_UNWIND'))
        if 'exit' not in x:
            problems.append(('error:no-exit', line('errlabel'), 'the error exit path (%s) never reaches put_trace_exit: the monitoring scope is not left and the frame/code object reference leaks' % cfg))
        elif x.count('exit') > 1:
            problems.append(('error:double-exit', line('errlabel'), 'the error exit path (%s) reaches put_trace_exit %d times' % (cfg, x.count('exit'))))
        if 'start' in x:
            problems.append(('error:start', line('errlabel'), 'a start event is emitted on the error exit path'))
    return problems


def rule_pair(ctx):
    r = Rule('C45-PAIR', 'every function that emits a trace start event emits, on the success path exactly one return event (unless the body is a terminator) and on the error '
             'path exactly one unwind (sys.monitoring) / return-or-unwind (legacy) event, each followed by put_trace_exit; yield/resume events bracket the emitted suspension', floor=8)
    n_scopes = 0
    for m, qn, owner, fn in trace_sites(ctx):
        calls = [n for n in walk_no_nested(fn) if isinstance(n, ast.Call) and isinstance(n.func, ast.Attribute)]
        if any(c.func.attr == 'put_trace_start' for c in calls):
            states = scope_paths(ctx, m, owner, fn)
            recvs = sorted({ast.unparse(c.func.value) for c in calls if c.func.attr == 'put_trace_start'})
            for recv in recvs:
                n_scopes += 1
                base = '%s.%s:%s' % (m.short, qn, recv)
                seen = {}
                n_paths = 0
                for st in states:
                    evs = [e for f in st if isinstance(f, tuple) and f[0] == 'EV' for e in f[1] if e[0] == recv]
                    if not any(e[1] == 'start' for e in evs):
                        continue
                    n_paths += 1
                    term = any(isinstance(f, tuple) and len(f) == 3 and f[0] == 'A' and f[1][0] == 'TERM' and f[2] is True for f in st)
                    for mon in (True, False):
                        for key, line, msg in check_scope_path(evs, term, mon, base):
                            seen.setdefault(key, (line, msg))
                for part in ('success', 'error'):
                    r.inst('%s:%s' % (base, part), sample='%s: %d emission path(s) with a start event' % (base, n_paths))
                if n_paths == 0:
                    raise AnalysisError('%s: put_trace_start is never reached on a feasible path' % base)
                for key, (line, msg) in sorted(seen.items()):
                    r.violate('%s:%s' % (base, key), m.rel, line, '%s (writer %s): %s' % (qn, recv, msg))
        if any(c.func.attr in ('put_trace_yield', 'put_trace_resume') for c in calls):
            base = '%s.%s' % (m.short, qn)
            r.inst(base + ':yield', sample=base + ' suspends a generator')
            for key, line, msg in yield_problems(ctx, owner, fn):
                r.violate('%s:%s' % (base, key), m.rel, line, '%s: %s' % (qn, msg))
    if n_scopes < 3:
        raise AnalysisError('only %d trace scopes (put_trace_start) found' % n_scopes)
    pc = [('code', 'start', 1), ('code', 'ret', 2), ('code', 'errlabel', 3), ('code', 'retlabel', 4), ('code', 'exit', 5)]
    r.positive_control(any(p[0] == 'error:no-unwind' for p in check_scope_path(pc, False, True, 'pc')), 'error path without unwind event')
    return r


def yield_problems(ctx, owner, fn):
    """Order on every path with tracing enabled: yield event < emitted `return` < resume label < resume event."""
    tests = Tests(fn)
    res = Res(ctx, owner, fn) if owner is not None else None
    env = local_assigns(fn)
    # names bound to the resume label: `n, lbl = code.new_yield_label(...)`
    resume_labels = set()
    for n in walk_no_nested(fn):
        if isinstance(n, ast.Assign) and isinstance(n.value, ast.Call) and isinstance(n.value.func, ast.Attribute) and n.value.func.attr == 'new_yield_label':
            for t in n.targets:
                for x in ast.walk(t):
                    if isinstance(x, ast.Name):
                        resume_labels.add(x.id)

    def seq(state):
        for f in state:
            if isinstance(f, tuple) and f[0] == 'EV':
                return f[1]
        return ()

    def put(state, ev):
        return frozenset([f for f in state if not (isinstance(f, tuple) and f[0] == 'EV')] + [('EV', seq(state)[-20:] + (ev,))])

    def tr(node, state):
        state = kill_assigned(node, state)
        for c in pyflow.calls_in(node):
            if not isinstance(c.func, ast.Attribute):
                continue
            a = c.func.attr
            if a in ('put_trace_yield', 'put_trace_resume'):
                state = put(state, ('yield' if a == 'put_trace_yield' else 'resume', c.lineno))
            elif a == 'put_label' and c.args and isinstance(c.args[0], ast.Name) and c.args[0].id in resume_labels:
                state = put(state, ('label', c.lineno))
            elif a in ('putln', 'put') and c.args and res is not None:
                t = res.template(c.args[0])
                if t is not None and re.match(r'\s*return\b', t[0]):
                    state = put(state, ('return', c.lineno))
        return state
    o = pyflow.Flow(tr, refine=make_refine(tests), correlate=False).run(fn)
    problems = {}
    for st in o.normal | o.returns:
        ks = [e[0] for e in seq(st)]
        line = seq(st)[0][1] if seq(st) else fn.lineno
        if 'label' not in ks or 'return' not in ks:
            continue
        if tr_known(st) is True or 'yield' in ks or 'resume' in ks:
            if ks.count('yield') != 1 or ks.count('resume') != 1:
                problems['yield:count'] = (line, 'a suspension emits %d yield and %d resume events (tracing enabled): every PY_YIELD needs exactly one PY_RESUME' % (ks.count('yield'), ks.count('resume')))
                continue
            if not (ks.index('yield') < ks.index('return')):
                problems['yield:after-return'] = (line, 'the yield event is emitted after the C `return` statement of the suspension (dead code): no yield event is ever reported')
            if not (ks.index('label') < ks.index('resume')):
                problems['yield:resume-before-label'] = (line, 'the resume event is emitted before the resume label: it runs at the suspension instead of the resumption')
    return [(k, v[0], v[1]) for k, v in sorted(problems.items())]


# ------------------------------------------------------------------------------------------------ C45-RET
def rule_return_stat(ctx):
    r = Rule('C45-RET', 'a node that jumps to the function return label and reports the return event itself (return statement) reports it on every '
             'path on which tracing is enabled', floor=1)
    n = 0
    for m, qn, owner, fn in trace_sites(ctx):
        calls = [c for c in walk_no_nested(fn) if isinstance(c, ast.Call) and isinstance(c.func, ast.Attribute)]
        if any(c.func.attr == 'put_trace_start' for c in calls) or not any(c.func.attr == 'put_trace_return' for c in calls):
            continue
        if not any(c.func.attr == 'put_goto' and c.args and label_kind(c.args[0]) == 'return' for c in calls):
            continue
        n += 1
        key = '%s.%s' % (m.short, qn)
        bad = return_without_event(fn)
        r.inst(key, sample='%s: paths reaching goto return_label without a return event while tracing may be on: %d' % (key, len(bad)))
        for line, conds in sorted(bad):
            r.violate(key + ':silent-return', m.rel, line,
                      '%s jumps to the return label on a path where tracing may be enabled but no return event was emitted (the event is additionally conditioned on %s): '
                      'the function reports a start event without a matching return event' % (qn, conds or 'another test'))
    if n < 1:
        raise AnalysisError('no return-statement node emitting put_trace_return found')
    pc = ast.parse("def g(self, code):\n    if not self.in_x and code.is_tracing():\n        code.put_trace_return('r', self.pos)\n    code.put_goto(code.return_label)\n").body[0]
    r.positive_control(bool(return_without_event(pc)), 'return event under an extra condition')
    return r


def return_without_event(fn):
    tests = Tests(fn)
    bad = set()
    # the extra (non-tracing) conjuncts of the tests guarding put_trace_return, for the message
    extra = []
    for stmts, guards in stmt_lists(fn):
        for s in stmts:
            if isinstance(s, (ast.If, ast.For, ast.While, ast.With, ast.Try)):
                continue
            if any(isinstance(c.func, ast.Attribute) and c.func.attr == 'put_trace_return' for c in pyflow.calls_in(s)):
                for node, br in guards:
                    parts = node.test.values if isinstance(node.test, ast.BoolOp) and isinstance(node.test.op, ast.And) else [node.test]
                    for p in parts:
                        if not tests.classify(p):
                            extra.append(node_src(p, 60))

    def tr(node, state):
        state = kill_assigned(node, state)
        s = set(state)
        for c in pyflow.calls_in(node):
            if not isinstance(c.func, ast.Attribute):
                continue
            if c.func.attr == 'put_trace_return':
                s.add('RET')
            elif c.func.attr == 'put_goto' and c.args and label_kind(c.args[0]) == 'return':
                if 'RET' not in s and tr_known(frozenset(s)) is not False:
                    bad.add((c.lineno, ', '.join(sorted(set(extra)))))
        return frozenset(s)
    pyflow.Flow(tr, refine=make_refine(tests), correlate=False).run(fn)
    return bad


# ------------------------------------------------------------------------------------------------ C45-M2 (+ I5)
def api_emissions(ctx):
    """Macro uses on the Python side: name -> {(arity | 'obj', 'Module.qualname', line)}.
    put_trace_* methods are analysed path-sensitively so that (macro name, extra argument) pairs chosen in the same
    branch stay together."""
    ix = ctx.index
    uses = {}

    def add(name, ar, where, line):
        uses.setdefault(name, set()).add((ar, where, line))

    def scan_text(text, where, line):
        for mm in TRACE_NAME.finditer(text):
            name = mm.group(0)
            rest = text[mm.end():]
            if rest[:1] == PH or (mm.start() > 0 and text[mm.start() - 1] in PH + '_'):
                continue
            mp = re.match(r'\s*\(', rest)
            if not mp:
                add(name, 'obj', where, line)
                continue
            lp = mm.end() + mp.end() - 1
            rp = match_paren(text, lp)
            if rp < 0:
                raise AnalysisError('%s: unbalanced call of %s in emitted text' % (where, name))
            add(name, len(split_args(text[lp + 1:rp])), where, line)

    ccw = ix.cls('Code', 'CCodeWriter')
    n_api = 0
    # API methods nobody calls emit nothing (today: put_trace_stopiteration, whose macro is commented out in Profile.c)
    called = set()
    for mod in ix.modules.values():
        if not mod.name.startswith('Cython.Compiler'):
            continue
        for n in ast.walk(mod.tree):
            if isinstance(n, ast.Call) and isinstance(n.func, ast.Attribute) and n.func.attr.startswith('put_trace_'):
                called.add(n.func.attr)
    for name, fn in ccw.methods.items():
        if not name.startswith('put_trace_'):
            continue
        n_api += 1
        if name not in called:
            continue
        res = Res(ctx, ccw, fn)
        where = 'Code.CCodeWriter.' + name

        def alts(e, state, depth=0):
            """All emitted-text alternatives of a string expression under the local string bindings of `state`."""
            if isinstance(e, ast.IfExp):
                return alts(e.body, state, depth) + alts(e.orelse, state, depth)
            t = res_template_nolocals(res, e)
            if t is None:
                return [PH]
            text, phs = t
            outs = ['']
            parts = text.split(PH)
            for i, part in enumerate(parts):
                outs = [o + part for o in outs]
                if i < len(phs):
                    p = phs[i]
                    sub = [PH]
                    if isinstance(p, ast.Name) and depth < 3:
                        bound = [f[2] for f in state if isinstance(f, tuple) and f[0] == 'L' and f[1] == p.id]
                        if bound:
                            sub = list(bound[0])
                    outs = [o + s for o in outs for s in sub]
                    if len(outs) > 32:
                        raise AnalysisError('%s: too many emitted-text alternatives' % where)
            return outs

        def tr(node, state, fn=fn, where=where):
            s = set(state)
            if isinstance(node, ast.Assign) and len(node.targets) == 1 and isinstance(node.targets[0], ast.Name):
                nm = node.targets[0].id
                s = {f for f in s if not (isinstance(f, tuple) and f[0] == 'L' and f[1] == nm)}
                if isinstance(node.value, (ast.Constant, ast.JoinedStr, ast.IfExp, ast.BinOp)) and \
                        not (isinstance(node.value, ast.Constant) and not isinstance(node.value.value, str)):
                    s.add(('L', nm, tuple(alts(node.value, state))))
            for c in pyflow.calls_in(node):
                ec = emit_call(c)
                if ec is not None and ec[0] == 'self':
                    for text in alts(ec[1], frozenset(s)):
                        scan_text(text, where, c.lineno)
            return frozenset(s)
        pyflow.Flow(tr, correlate=False).run(fn)
    if n_api < 8:
        raise AnalysisError('only %d CCodeWriter.put_trace_* methods found' % n_api)
    for m, qn, owner, fn in trace_sites(ctx):
        if owner is None:
            continue
        res = Res(ctx, owner, fn)
        for c in walk_no_nested(fn):
            if isinstance(c, ast.Call):
                t = raw_trace_text(res, c)
                if t:
                    scan_text(t, '%s.%s' % (m.short, qn), c.lineno)
    return uses


def res_template_nolocals(res, e):
    """Res.template, but plain local names stay placeholders (they are substituted path-sensitively by the caller)."""
    saved = res.env
    res.env = {}
    try:
        return res.template(e)
    finally:
        res.env = saved


class CppExpr:
    """Tiny evaluator for the #if expressions guarding the trace macros (identifiers, integers, ! && || ( ) defined, comparisons of integers)."""
    TOK = re.compile(r'\s*(?:(0[xX][0-9a-fA-F]+|\d+)[uUlL]*|([A-Za-z_]\w*)|(&&|\|\||<=|>=|==|!=|[<>]|[!()]))')
    CMP = {'<': lambda a, b: a < b, '<=': lambda a, b: a <= b, '>': lambda a, b: a > b, '>=': lambda a, b: a >= b, '==': lambda a, b: a == b, '!=': lambda a, b: a != b}

    def __init__(self, text, env):
        self.toks = []
        pos = 0
        text = text.strip()
        while pos < len(text):
            m = self.TOK.match(text, pos)
            if not m:
                raise AnalysisError('cannot tokenise preprocessor condition %r' % text)
            self.toks.append(m.group(1) or m.group(2) or m.group(3))
            pos = m.end()
        self.i, self.env, self.text = 0, env, text

    def peek(self):
        return self.toks[self.i] if self.i < len(self.toks) else None

    def take(self):
        t = self.peek()
        self.i += 1
        return t

    def parse(self):
        v = self.or_()
        if self.peek() is not None:
            raise AnalysisError('cannot parse preprocessor condition %r' % self.text)
        return v

    def or_(self):
        v = self.and_()
        while self.peek() == '||':
            self.take()
            w = self.and_()
            v = bool(v) or bool(w)
        return v

    def and_(self):
        v = self.cmp_()
        while self.peek() == '&&':
            self.take()
            w = self.cmp_()
            v = bool(v) and bool(w)
        return v

    def cmp_(self):
        v = self.unary()
        while self.peek() in self.CMP:
            op = self.take()
            w = self.unary()
            v = int(self.CMP[op](int(v), int(w)))
        return v

    def unary(self):
        t = self.take()
        if t == '!':
            return not self.unary()
        if t == '(':
            v = self.or_()
            if self.take() != ')':
                raise AnalysisError('cannot parse preprocessor condition %r' % self.text)
            return v
        if t is None:
            raise AnalysisError('cannot parse preprocessor condition %r' % self.text)
        if t[0].isdigit():
            return int(t, 0)
        if t == 'defined':
            raise AnalysisError('defined() in trace macro condition %r is not modelled' % self.text)
        if t not in self.env:
            raise AnalysisError('preprocessor condition %r uses %s, which is outside the modelled configuration space' % (self.text, t))
        return self.env[t]


def cond_active(conds, env):
    """conds: tuple of 'if A; elif B; else ' chains (outermost first) -> bool"""
    for chain in conds:
        parts = [p.strip() for p in chain.split(';')]
        # every branch but the last must be false, the last must be true
        for k, p in enumerate(parts):
            last = k == len(parts) - 1
            mm = re.match(r'(if|ifdef|ifndef|elif|else)\b\s*(.*)$', p)
            if not mm:
                raise AnalysisError('cannot parse conditional chain %r' % chain)
            d, expr = mm.group(1), mm.group(2).strip()
            if d == 'else':
                v = True
            elif d in ('ifdef', 'ifndef'):
                raise AnalysisError('#%s in trace macro condition is not modelled' % d)
            else:
                v = bool(CppExpr(expr, env).parse())
            if last:
                if not v:
                    return False
            elif v:
                return False
    return True


CONFIG_VARS = ('CYTHON_PROFILE', 'CYTHON_TRACE', 'CYTHON_USE_SYS_MONITORING')


def rule_macros(ctx):
    cat = ctx.cat
    r = Rule('C45-M2', 'every trace macro the compiler emits is defined exactly once in each configuration of (CYTHON_PROFILE, CYTHON_TRACE, CYTHON_USE_SYS_MONITORING) '
             'and with the arity of the emitted call', floor=14)
    if 'Profile.c' not in cat.files:
        raise AnalysisError('Cython/Utility/Profile.c vanished')
    uses = api_emissions(ctx)
    if len(uses) < 12:
        raise AnalysisError('only %d distinct trace macros are emitted by the compiler' % len(uses))
    configs = [dict(zip(CONFIG_VARS, bits)) for bits in itertools.product((0, 1), repeat=3)]
    # a trace macro that is defined per Python version (`#if PY_VERSION_HEX >= ...` around its definitions): the version joins the configuration space, with one
    # representative on each side of every threshold the conditions of the emitted macros compare it with
    thresholds = set()
    for name in uses:
        for d in cat.decls.get(name, []):
            if d.kind == 'macro' and d.file == 'Profile.c':
                for c in d.conds or ():
                    for mm in re.finditer(r'\bPY_VERSION_HEX\s*(?:<=|>=|==|!=|<|>)\s*(0[xX][0-9a-fA-F]+|\d+)|(0[xX][0-9a-fA-F]+|\d+)\s*(?:<=|>=|==|!=|<|>)\s*PY_VERSION_HEX\b', c):
                        thresholds.add(int(mm.group(1) or mm.group(2), 0))
    versions = sorted({v for t in thresholds for v in (t - 1, t, t + 1)}) or [None]
    configs = [dict(env, PY_VERSION_HEX=v) if v is not None else env for env in configs for v in versions]

    def arity(name, env, depth=0):
        """-> list of arities ('obj' | int) of the definitions of `name` active under env (alias-resolved)"""
        out = []
        for d in cat.decls.get(name, []):
            if d.kind != 'macro' or d.file != 'Profile.c':
                continue
            if not cond_active(d.conds, env):
                continue
            if d.params is None:
                tgt = (d.body or '').strip()
                if re.fullmatch(r'[A-Za-z_]\w*', tgt) and tgt in cat.decls and depth < 3:
                    sub = arity(tgt, env, depth + 1)
                    out.append(sub[0] if len(sub) == 1 else 'alias?')
                else:
                    out.append('obj')
            else:
                out.append(len(d.params))
        return out

    for name in sorted(uses):
        decls = [d for d in cat.decls.get(name, []) if d.kind == 'macro' and d.file == 'Profile.c']
        line = decls[0].line if decls else 1
        used = sorted({u[0] for u in uses[name]}, key=str)
        r.inst(name, sample='%s used with arity %s at %s' % (name, used, sorted({u[1] for u in uses[name]})[:3]))
        if not decls:
            r.violate(name + ':undefined', 'Cython/Utility/Profile.c', 1, 'the compiler emits %s (%s) but Profile.c defines no such macro' % (name, sorted({u[1] for u in uses[name]})))
            continue
        problems = {}
        for env in configs:
            cfg = '/'.join('%s=%d' % (k.replace('CYTHON_', '').replace('USE_SYS_', ''), env[k]) for k in CONFIG_VARS)
            if 'PY_VERSION_HEX' in env:
                cfg += '/PY_VERSION_HEX=0x%08x' % env['PY_VERSION_HEX']
            ar = arity(name, env)
            if len(ar) == 0:
                problems.setdefault(('undefined', None, None), []).append(cfg)
                continue
            if len(ar) > 1:
                problems.setdefault(('redefined', len(ar), None), []).append(cfg)
            for a in set(ar):
                for u, where, uline in sorted(uses[name], key=str):
                    if u != a:
                        problems.setdefault(('arity', (u, where), a), []).append(cfg)
        fmt = lambda x: 'no argument list' if x == 'obj' else '%s argument(s)' % x
        for (kind, x, y), cfgs in sorted(problems.items(), key=str):
            where_cfg = 'the configuration(s) %s' % ', '.join(cfgs)
            if kind == 'undefined':
                r.violate(name + ':undefined', 'Cython/Utility/Profile.c', line,
                          '%s is emitted by the compiler but has no definition in %s: a module compiled with profile/linetrace does not build there' % (name, where_cfg))
            elif kind == 'redefined':
                r.violate(name + ':redefined', 'Cython/Utility/Profile.c', line, '%s is defined %d times in %s' % (name, x, where_cfg))
            else:
                r.violate(name + ':arity', 'Cython/Utility/Profile.c', line,
                          '%s emits %s with %s but in %s the macro takes %s: the generated C does not compile' % (x[1], name, fmt(x[0]), where_cfg, fmt(y)))
    pc = cond_active(('if CYTHON_PROFILE || CYTHON_TRACE', 'if CYTHON_USE_SYS_MONITORING; else '), dict(CYTHON_PROFILE=1, CYTHON_TRACE=0, CYTHON_USE_SYS_MONITORING=1))
    r.positive_control(pc is False and cond_active(('if !CYTHON_TRACE',), dict(CYTHON_PROFILE=0, CYTHON_TRACE=0, CYTHON_USE_SYS_MONITORING=0)) and
                       cond_active(('if PY_VERSION_HEX >= 0x030b00a2; else ',), dict(PY_VERSION_HEX=0x030a0000)) and
                       not cond_active(('if PY_VERSION_HEX >= 0x030b00a2 && !CYTHON_TRACE',), dict(PY_VERSION_HEX=0x030a0000, CYTHON_TRACE=0)), 'conditional chain evaluation')
    return r


# ------------------------------------------------------------------------------------------------ C45-EVT
def _snake(camel):
    return re.sub(r'(?<=[a-z0-9])(?=[A-Z])', '_', camel).upper()


FIRE = re.compile(r'\bPyMonitoring_Fire(\w+?)Event\s*\(')
IDX = re.compile(r'__Pyx_Monitoring_([A-Z_]+)\b')


def rule_events(ctx):
    cat = ctx.cat
    r = Rule('C45-EVT', 'sys.monitoring block of Profile.c: the event index enum and the event type table are aligned; in every macro/helper the __Pyx_IsTracing guard, '
             'the monitoring state slot and the PyMonitoring_Fire*Event call name the same event', floor=18)
    rel = 'Cython/Utility/Profile.c'
    secs = cat.files.get('Profile.c')
    if not secs:
        raise AnalysisError('Profile.c vanished')
    cfg = secs.get('Profile_config', {}).get('proto')
    if cfg is None:
        raise AnalysisError('Profile.c::Profile_config.proto vanished')
    text = cfg.text
    m = re.search(r'typedef\s+enum\s*\{([^}]*)\}\s*__Pyx_Monitoring_Event_Index', text)
    t = re.search(r'__Pyx_MonitoringEventTypes\s*\[\s*\]\s*=\s*\{([^}]*)\}', text)
    if not m or not t:
        raise AnalysisError('Profile_config: event index enum / __Pyx_MonitoringEventTypes table not found')
    enum = [IDX.match(x.strip().split('=')[0].strip()) for x in m.group(1).split(',') if x.strip()]
    if not all(enum):
        raise AnalysisError('Profile_config: unexpected enumerator in __Pyx_Monitoring_Event_Index')
    enum = [e.group(1) for e in enum]
    table = [x.strip() for x in t.group(1).split(',') if x.strip()]
    table = [re.sub(r'^PY_MONITORING_EVENT_', '', x) for x in table]
    first = m.group(1).split(',')[0]
    if '=' in first and first.split('=')[1].strip() != '0':
        raise AnalysisError('the event index enum no longer starts at 0')
    line = cfg.line + text[:m.start()].count('\n')
    for i in range(max(len(enum), len(table))):
        a = enum[i] if i < len(enum) else None
        b = table[i] if i < len(table) else None
        r.inst('evt:table:%d' % i, sample='index %d: enum %s <-> PY_MONITORING_EVENT_%s' % (i, a, b))
        if a != b:
            r.violate('evt:table:%s' % (a or b), rel, line,
                      'position %d of __Pyx_Monitoring_Event_Index is %s but position %d of __Pyx_MonitoringEventTypes is PY_MONITORING_EVENT_%s: '
                      'PyMonitoring_EnterScope fills state slot %d for a different event than the macros fire through it' % (i, a, i, b, i))
    # helpers: C functions whose PyMonitoringState* parameter is fired through
    helpers = {}
    bodies = []
    for name, decls in cat.decls.items():
        for d in decls:
            if d.file != 'Profile.c':
                continue
            if d.kind == 'func' and d.body and FIRE.search(d.body):
                bodies.append((name, d, d.body, d.param_names()))
            elif d.kind == 'macro' and d.body and any('CYTHON_USE_SYS_MONITORING' in c and 'else' not in c for c in d.conds):
                bodies.append((name, d, d.body, [p.strip() for p in (d.params or [])]))
    for name, d, body, params in bodies:
        if d.kind != 'func':
            continue
        for mm in FIRE.finditer(body):
            lp = mm.end() - 1
            rp = match_paren(body, lp)
            args = split_args(body[lp + 1:rp]) if rp > 0 else []
            if args and re.fullmatch(r'\w+', args[0]) and args[0] in params:
                helpers.setdefault(name, {}).setdefault(params.index(args[0]), set()).add(_snake(mm.group(1)))
    n_checked = 0
    for name, d, body, params in sorted(bodies, key=lambda b: (b[0], b[1].line)):
        guard = None
        g = re.search(r'\b__Pyx_IsTracing\s*\(', body)
        if g:
            rp = match_paren(body, g.end() - 1)
            guard = set(IDX.findall(body[g.end():rp]))
        slots = []   # (event names fired, index names of the slot, text)
        for mm in FIRE.finditer(body):
            lp = mm.end() - 1
            rp = match_paren(body, lp)
            args = split_args(body[lp + 1:rp]) if rp > 0 else []
            if not args:
                continue
            a0 = args[0]
            if '[' in a0:
                slots.append(({_snake(mm.group(1))}, set(IDX.findall(a0)), 'PyMonitoring_Fire%sEvent(%s, ...)' % (mm.group(1), a0)))
        for hname, pos in helpers.items():
            for mm in re.finditer(r'\b' + re.escape(hname) + r'\s*\(', body):
                if d.kind == 'func' and hname == name:
                    continue
                lp = mm.end() - 1
                rp = match_paren(body, lp)
                args = split_args(body[lp + 1:rp]) if rp > 0 else []
                for p, kinds in pos.items():
                    if p < len(args) and '[' in args[p]:
                        slots.append((set(kinds), set(IDX.findall(args[p])), '%s(... %s ...)' % (hname, args[p])))
        reported = set()
        for kinds, idx, txt in slots:
            n_checked += 1
            key = 'evt:%s:%s' % (name, '+'.join(sorted(kinds)))
            if (key, frozenset(idx)) in reported:
                r.inst(key)
                continue
            reported.add((key, frozenset(idx)))
            r.inst(key, sample='%s: %s fires %s through slot %s (guard %s)' % (name, txt, sorted(kinds), sorted(idx), sorted(guard) if guard is not None else '-'))
            if idx != kinds:
                r.violate(key, rel, d.line,
                          '%s fires the %s event through the monitoring state slot %s (%s): whether the event is delivered, and to which tools, is decided by the '
                          'activation state of a different event - a tool listening only to %s gets no events, and DISABLE returned for one event switches off the other' % (
                              name, '/'.join(sorted(kinds)), '/'.join(sorted(idx)) or '?', txt, '/'.join(sorted(kinds))))
            if guard is not None and guard != kinds:
                r.violate(key + ':guard', rel, d.line,
                          '%s tests __Pyx_IsTracing(%s) but fires the %s event' % (name, '/'.join(sorted(guard)), '/'.join(sorted(kinds))))
    if n_checked < 8:
        raise AnalysisError('only %d PyMonitoring_Fire*Event sites found in Profile.c' % n_checked)
    r.positive_control(_snake('PyYield') == 'PY_YIELD' and _snake('ExceptionHandled') == 'EXCEPTION_HANDLED' and _snake('Reraise') == 'RERAISE', 'event name normalisation')
    return r
