"""C41, round 8 — the process-wide directive tables of Options are never written through an alias.

C41-SHARED   `Options._directive_defaults` (and the other module-level directive tables of Options.py) live as long as the process.  A `# cython:` header,
             a decorator, a `with` block or a -X option must end up in a mapping that belongs to ONE compilation; if any of them is written into the table
             itself, every module compiled later in the same process (cythonize a.pyx b.pyx, pyximport, repeated Main.compile) is built with it.
             Decided by a whole-program may-alias analysis with a single kind of origin (the table): path-sensitive inside each function (pyflow; a copy on
             one branch only leaves the other branch aliased), through locals, `self.<field>`s (class family wide: a field that may hold the table in one
             method is the table in every method), return values (so `get_directive_defaults()` is a source because of what it returns, not because of its
             name), and arguments of resolved calls (the callee is analysed with the parameter bound to the table).  Every in-place write (item store / del,
             update / setdefault / pop / clear / ..., augmented assignment) through a may-alias is reported at the site of the write.
C41-PRIVATE  the module-level mapping InterpretCompilerDirectives keeps in `self.directives` (the one header comments are merged into) is, on every path
             through the method that creates it, a fresh object: neither a process-wide table nor a mapping handed in by the caller (the compilation options are
             shared by all sources of one compile() / cythonize() call).
"""
import ast

from ..core import Rule, AnalysisError
from ..engine import pyflow
from ..engine.pyindex import is_self_attr

MUTATORS = {'update', 'setdefault', 'pop', 'popitem', 'clear', '__setitem__', '__delitem__', 'add', 'discard', 'remove', 'append', 'extend', 'insert',
            'sort', 'reverse', 'difference_update', 'intersection_update', 'symmetric_difference_update', '__ior__'}
# calls whose result is (or may be) one of their arguments
PASS_THROUGH_DEFAULT = {'getattr': 2}     # getattr(o, name, default) -> default


def _u(n):
    return ast.unparse(n)


def _self_name(fn):
    a = fn.args.posonlyargs + fn.args.args
    return a[0].arg if a else None


def _params(fn, bound):
    a = fn.args
    pos = [x.arg for x in a.posonlyargs + a.args]
    if bound and pos:
        pos = pos[1:]
    return pos, [x.arg for x in a.kwonlyargs]


class FnInfo:
    __slots__ = ('mod', 'qn', 'owner', 'fn', 'is_method')

    def __init__(self, mod, qn, owner, fn):
        self.mod, self.qn, self.owner, self.fn = mod, qn, owner, fn
        # a method: defined directly in a class body (qualname = Class.name), first parameter is the receiver
        self.is_method = owner is not None and qn.count('.') >= 1 and qn.rsplit('.', 1)[0].split('.')[-1] == owner.name and \
            not any(isinstance(d, ast.Name) and d.id == 'staticmethod' for d in fn.decorator_list)

    @property
    def key(self):
        return '%s.%s' % (self.mod.short, self.qn)


class Analysis:
    """May-alias propagation of origins.  An origin is a string: 'T:<table>' (process-wide table) or 'P:<param>' (a parameter of the analysed function,
    used by C41-PRIVATE only; never propagated between functions)."""

    def __init__(self, ctx, table_module='Options', table_filter=lambda name: 'directive' in name):
        self.ctx = ctx
        self.ix = ix = ctx.index
        self.opt = ix.mod(table_module)
        self.tables = {}
        for name, val in self.opt.bindings.items():
            if table_filter(name) and isinstance(val, (ast.Dict, ast.Set, ast.List, ast.DictComp, ast.SetComp, ast.ListComp)):
                self.tables[name] = val
        if not self.tables:
            raise AnalysisError('no module-level directive table found in %s' % self.opt.rel)
        self.fns = {}            # id(fn) -> FnInfo
        self.mentions = {}       # identifier -> set(id(fn))
        for m in ix.modules.values():
            for qn, owner, fn in ix.functions_of(m):
                self.fns[id(fn)] = FnInfo(m, qn, owner, fn)
                for n in ast.walk(fn):
                    nm = n.id if isinstance(n, ast.Name) else n.attr if isinstance(n, ast.Attribute) else None
                    if nm is None and isinstance(n, ast.alias):
                        nm = n.name
                    if nm is not None:
                        self.mentions.setdefault(nm, set()).add(id(fn))
        self.ret = {}            # id(fn) -> set(origins) the function may return
        self.param = {}          # (id(fn), param) -> set(origins) a caller may pass
        self.field = {}          # (class qual, attr) -> set(origins)
        self.events = {}         # (fn key, origin, text of the written object) -> (rel, line, how)
        self.live = {}           # fn key -> set(origins) alive somewhere in the function
        self.unresolved = set()  # texts of calls that receive a table but could not be resolved
        self.imprecise = set()   # functions analysed without branch correlation

    # ---------------------------------------------------------------------------------------------- class families
    def family(self, c):
        out = list(self.ix.mro(c))
        for s in self.ix.subclasses(c):
            if s not in out:
                out.append(s)
        return out

    def field_origins(self, c, attr):
        out = set()
        for k in self.family(c):
            out |= self.field.get((k.qual, attr), set())
        return out

    # ---------------------------------------------------------------------------------------------- one function
    def table_of(self, info, e, state):
        """name of the process-wide table the Name / Attribute expression denotes, or None"""
        if isinstance(e, ast.Name):
            if info.mod is self.opt and e.id in self.tables:
                return e.id
            imp = info.mod.imports.get(e.id)
            if imp and imp[0] == 'symbol' and imp[2] in self.tables and self.ix.modules.get(imp[1]) is self.opt:
                return imp[2]
            return None
        if isinstance(e, ast.Attribute) and e.attr in self.tables:
            base = self.ix.resolve_expr(info.mod, e.value)
            if base and base[0] == 'module' and base[1] is self.opt:
                return e.attr
        return None

    def callee(self, info, call, state):
        """-> (FunctionDef, bound) of a resolved call, or None"""
        f = call.func
        ix = self.ix
        if isinstance(f, ast.Name):
            for fact in state:
                if fact[0] == 'fn' and fact[1] == f.id:
                    return fact[2], False
        if isinstance(f, ast.Attribute) and info.is_method and isinstance(f.value, ast.Name) and f.value.id == _self_name(info.fn):
            got = ix.find_method(info.owner, f.attr)
            if got:
                return got[1], True
            return None
        try:
            r = ix.resolve_expr(info.mod, f)
        except Exception:
            r = None
        if not r:
            return None
        if r[0] == 'func':
            return r[2], False
        if r[0] == 'method':
            return r[2], False
        if r[0] == 'class':
            got = ix.find_method(r[1], '__init__')
            if got:
                return got[1], True
        return None

    def origins(self, info, e, state, sink=None):
        """origins the value of e may BE (not: contain / be a copy of)"""
        if e is None:
            return set()
        if isinstance(e, ast.Name):
            t = self.table_of(info, e, state)
            out = {f[2] for f in state if f[0] == 'al' and f[1] == e.id}
            if t and not any(f[0] in ('al', 'loc') and f[1] == e.id for f in state):
                out.add('T:' + t)
            return out
        if isinstance(e, ast.Attribute):
            t = self.table_of(info, e, state)
            if t:
                return {'T:' + t}
            if info.is_method and is_self_attr(e, _self_name(info.fn)):
                return {f[2] for f in state if f[0] == 'al' and f[1] == 'self.' + e.attr}
            return set()
        if isinstance(e, ast.Subscript) and isinstance(e.value, ast.Name) and isinstance(e.slice, ast.Constant) and isinstance(e.slice.value, str):
            nm = '%s[%r]' % (e.value.id, e.slice.value)          # an entry of a local record (options['compiler_directives'])
            return {f[2] for f in state if f[0] == 'al' and f[1] == nm}
        if isinstance(e, ast.IfExp):
            return self.origins(info, e.body, state) | self.origins(info, e.orelse, state)
        if isinstance(e, ast.BoolOp):
            out = set()
            for v in e.values:
                out |= self.origins(info, v, state)
            return out
        if isinstance(e, ast.NamedExpr):
            return self.origins(info, e.value, state)
        if isinstance(e, ast.Call):
            f = e.func
            if isinstance(f, ast.Name) and f.id in PASS_THROUGH_DEFAULT and len(e.args) > PASS_THROUGH_DEFAULT[f.id]:
                return self.origins(info, e.args[PASS_THROUGH_DEFAULT[f.id]], state)
            got = self.callee(info, e, state)
            if got:
                return {o for o in self.ret.get(id(got[0]), set()) if o.startswith('T:')}
            return set()
        return set()

    def analyse(self, info, param_origins=None):
        """Run the flow over one function.  -> set of changed summaries ('ret', id) / ('param', id, p) / ('field', qual, attr)"""
        fn = info.fn
        changed = set()
        selfname = _self_name(fn) if info.is_method else None
        init = set()
        allp = [x.arg for x in fn.args.posonlyargs + fn.args.args + fn.args.kwonlyargs]
        for p in allp:
            for o in self.param.get((id(fn), p), set()):
                init.add(('al', p, o))
            if param_origins and p in param_origins:
                init.add(('al', p, param_origins[p]))
            init.add(('loc', p, ''))
        if selfname:
            attrs = set()
            for k in self.family(info.owner):
                attrs |= {a for (q, a) in self.field if q == k.qual}
            for a in attrs:
                for o in self.field_origins(info.owner, a):
                    init.add(('al', 'self.' + a, o))
        private = param_origins is not None      # C41-PRIVATE run: nothing is published
        returned = set()
        stores = []                               # (attr, origins, node) of self.<attr> = value

        def event(node, obj, o, how):
            if private:
                return
            key = (info.key, o, _u(obj))
            self.events.setdefault(key, (info.mod.rel, node.lineno, how))

        def note_live(state):
            if private:
                return
            os_ = {f[2] for f in state if f[0] == 'al'}
            if os_:
                self.live.setdefault(info.key, set()).update(os_)

        def scan(node, state):
            """in-place writes and calls inside one simple statement / expression"""
            for n in ast.walk(node):
                if isinstance(n, (ast.FunctionDef, ast.AsyncFunctionDef, ast.Lambda, ast.ClassDef)) and n is not node:
                    continue
                if isinstance(n, ast.Subscript) and isinstance(n.ctx, (ast.Store, ast.Del)):
                    for o in self.origins(info, n.value, state):
                        event(n, n.value, o, 'item %s' % ('store' if isinstance(n.ctx, ast.Store) else 'deletion'))
                elif isinstance(n, ast.AugAssign):
                    for o in self.origins(info, n.target, state):
                        event(n, n.target, o, 'augmented assignment')
                elif isinstance(n, ast.Call):
                    f = n.func
                    if isinstance(f, ast.Attribute) and f.attr in MUTATORS:
                        for o in self.origins(info, f.value, state):
                            event(n, f.value, o, '.%s()' % f.attr)
                    # arguments handed to a resolved callee
                    carrying = [(i, None, a) for i, a in enumerate(n.args) if not isinstance(a, ast.Starred)] + [(None, k.arg, k.value) for k in n.keywords if k.arg]
                    carrying = [(i, kw, a, {o for o in self.origins(info, a, state) if o.startswith('T:')}) for i, kw, a in carrying]
                    carrying = [c for c in carrying if c[3]]
                    if not carrying or private:
                        continue
                    for c in carrying:
                        self.live.setdefault(info.key, set()).update(c[3])
                    if isinstance(f, ast.Name) and f.id in PASS_THROUGH_DEFAULT:
                        continue
                    got = self.callee(info, n, state)
                    if not got:
                        nm = f.id if isinstance(f, ast.Name) else f.attr if isinstance(f, ast.Attribute) else '?'
                        self.unresolved.add('%s: %s(...)' % (info.key, nm))
                        continue
                    cfn, bound = got
                    pos, kwonly = _params(cfn, bound)
                    for i, kw, a, os_ in carrying:
                        p = None
                        if i is not None and i < len(pos):
                            p = pos[i]
                        elif kw is not None and (kw in pos or kw in kwonly):
                            p = kw
                        if p is None:
                            continue
                        cur = self.param.setdefault((id(cfn), p), set())
                        if not os_ <= cur:
                            cur |= os_
                            changed.add(('param', id(cfn)))

        def bind(target, os_, state, node):
            """state after `target = <value with origins os_>`"""
            if isinstance(target, ast.Subscript) and isinstance(target.value, ast.Name) and isinstance(target.slice, ast.Constant) and isinstance(target.slice.value, str):
                nm = '%s[%r]' % (target.value.id, target.slice.value)
                state = {f for f in state if not (f[0] == 'al' and f[1] == nm)}
                for o in os_:
                    state.add(('al', nm, o))
            elif isinstance(target, ast.Name):
                state = {f for f in state if not (f[0] in ('al', 'fn') and (f[1] == target.id or (f[0] == 'al' and f[1].startswith(target.id + '['))))}
                state.add(('loc', target.id, ''))
                for o in os_:
                    state.add(('al', target.id, o))
            elif selfname and is_self_attr(target, selfname):
                nm = 'self.' + target.attr
                state = {f for f in state if not (f[0] == 'al' and f[1] == nm)}
                for o in os_:
                    state.add(('al', nm, o))
                stores.append((target.attr, set(os_), node))
            elif isinstance(target, (ast.Tuple, ast.List)):
                for e in target.elts:
                    state = bind(e.value if isinstance(e, ast.Starred) else e, set(), state, node)
            return state

        def transfer(node, state):
            if isinstance(node, (ast.FunctionDef, ast.AsyncFunctionDef, ast.ClassDef)):
                return frozenset(bind(ast.Name(id=node.name, ctx=ast.Store()), set(), set(state), node))
            if isinstance(node, ast.withitem):
                scan(node.context_expr, state)
                if node.optional_vars is not None:
                    return frozenset(bind(node.optional_vars, set(), set(state), node))
                return state
            if isinstance(node, ast.expr) and isinstance(getattr(node, 'ctx', None), ast.Store):
                return frozenset(bind(node, set(), set(state), node))          # loop target
            scan(node, state)
            st = set(state)
            if isinstance(node, ast.ImportFrom):
                last = (node.module or '').split('.')[-1]
                for a in node.names:
                    local = a.asname or a.name
                    st = bind(ast.Name(id=local, ctx=ast.Store()), set(), st, node)
                    if last == self.opt.short:
                        if a.name in self.tables:
                            st.add(('al', local, 'T:' + a.name))
                        elif a.name in self.opt.functions:
                            st.add(('fn', local, self.opt.functions[a.name]))
            elif isinstance(node, ast.Import):
                for a in node.names:
                    st = bind(ast.Name(id=(a.asname or a.name).split('.')[0], ctx=ast.Store()), set(), st, node)
            elif isinstance(node, ast.Assign):
                os_ = self.origins(info, node.value, state)
                for t in node.targets:
                    st = bind(t, os_, st, node)
            elif isinstance(node, ast.AnnAssign) and node.value is not None:
                st = bind(node.target, self.origins(info, node.value, state), st, node)
            elif isinstance(node, ast.Return):
                returned.update(self.origins(info, node.value, state))
            elif selfname and isinstance(node, ast.Expr) and isinstance(node.value, ast.Call) and isinstance(node.value.func, ast.Attribute) and \
                    node.value.func.attr == 'update' and isinstance(node.value.func.value, ast.Attribute) and node.value.func.value.attr == '__dict__' and \
                    isinstance(node.value.func.value.value, ast.Name) and node.value.func.value.value.id == selfname and \
                    len(node.value.args) == 1 and isinstance(node.value.args[0], ast.Name):
                # self.__dict__.update(record): every tracked entry of the record becomes a field
                pre = node.value.args[0].id + '['
                for f in list(st):
                    if f[0] == 'al' and f[1].startswith(pre):
                        k = ast.literal_eval(f[1][len(pre):-1])
                        st.add(('al', 'self.' + k, f[2]))
                        stores.append((k, {f[2]}, node))
            elif isinstance(node, ast.Delete):
                for t in node.targets:
                    if isinstance(t, ast.Name) or (selfname and is_self_attr(t, selfname)):
                        st = bind(t, set(), st, node)
            for n in ast.walk(node) if isinstance(node, (ast.stmt, ast.expr)) else ():
                if isinstance(n, ast.NamedExpr) and isinstance(n.target, ast.Name):
                    st = bind(n.target, self.origins(info, n.value, state), st, node)
            note_live(st)
            return frozenset(st)

        try:
            pyflow.Flow(transfer).run(fn, frozenset(init))
        except pyflow.TooManyStates:
            stores.clear()
            returned.clear()
            self.imprecise.add(info.key)
            try:
                pyflow.Flow(transfer, correlate=False).run(fn, frozenset(init))
            except pyflow.TooManyStates:
                raise AnalysisError('%s: too many alias states' % info.key)
        if private:
            return stores
        rt = {o for o in returned if o.startswith('T:')}
        cur = self.ret.setdefault(id(fn), set())
        if not rt <= cur:
            cur |= rt
            changed.add(('ret', id(fn)))
        if info.is_method:
            for attr, os_, node in stores:
                os_ = {o for o in os_ if o.startswith('T:')}
                cur = self.field.setdefault((info.owner.qual, attr), set())
                if not os_ <= cur:
                    cur |= os_
                    changed.add(('field', info.owner.qual, attr))
        return changed

    # ---------------------------------------------------------------------------------------------- whole program
    def solve(self):
        dirty = set()
        for t in self.tables:
            dirty |= self.mentions.get(t, set())
        rounds = 0
        done_count = 0
        while dirty:
            rounds += 1
            if rounds > 40:
                raise AnalysisError('alias propagation of the directive tables does not converge')
            nxt = set()
            for fid in sorted(dirty, key=lambda i: self.fns[i].key):
                info = self.fns[fid]
                done_count += 1
                for ch in self.analyse(info):
                    if ch[0] == 'ret':
                        nxt |= self.mentions.get(self.fns[ch[1]].fn.name, set())
                        if self.fns[ch[1]].fn.name == '__init__':
                            pass
                    elif ch[0] == 'param':
                        if ch[1] in self.fns:
                            nxt.add(ch[1])
                    elif ch[0] == 'field':
                        users = self.mentions.get(ch[2], set())
                        fam = set()
                        for c in self.ix.all_classes():
                            if c.qual == ch[1]:
                                fam |= {k.qual for k in self.family(c)}
                        for u in users:
                            ui = self.fns[u]
                            if ui.is_method and ui.owner.qual in fam:
                                nxt.add(u)
            dirty = nxt
        self.analysed = done_count
        return self


def solved(ctx):
    return ctx.memo('s8C41.alias', lambda: Analysis(ctx).solve())


_CTRL = '''
_directive_defaults = {'a': 1}
directive_types = {'a': int}
def get_directive_defaults():
    return _directive_defaults
def leak(opts):
    d = get_directive_defaults()
    if opts:
        d = dict(d)
    d['a'] = 2
def fine(opts):
    d = get_directive_defaults()
    if opts:
        d = dict(d)
    if opts:
        d['a'] = 2
    e = dict(_directive_defaults)
    e.update(opts)
    return d
def callee(cur):
    cur.update(a=3)
def caller():
    callee(get_directive_defaults())
class K:
    def __init__(self):
        self.m = _directive_defaults
    def go(self, x):
        self.m.update(x)
class Fresh:
    def __init__(self):
        self.m = dict(_directive_defaults)
    def go(self, x):
        self.m.update(x)
'''


def _control(ctx):
    """the analysis on an embedded module: three leaks reported, the copies silent"""
    from ..engine import pyindex

    import collections
    tree = ast.parse(_CTRL)
    m = pyindex.Module('ctrl.Options', 'ctrl/Options.py', tree, _CTRL)
    ix = pyindex.PyIndex.__new__(pyindex.PyIndex)
    ix.ctx = None
    ix.modules = {m.name: m}
    ix.by_rel = {m.rel: m}
    ix.classes_by_name = collections.defaultdict(list)
    try:
        ix._scan_module(m)
        for c in list(ix._all_classes(m)):
            ix._resolve_bases(c)
        ix._subclasses = collections.defaultdict(list)
        for c in ix.all_classes():
            for b in c.bases:
                ix._subclasses[id(b)].append(c)
    except Exception as e:      # the index cannot be built stand-alone: no control
        return None, 'index: %r' % (e,)

    class C:
        index = ix
    a = Analysis(C, table_module='ctrl.Options').solve()
    got = sorted(k[0].split('.', 1)[1] for k in a.events)
    return got, None


def rule_SHARED(ctx, floor=9):
    r = Rule('C41-SHARED', 'the process-wide directive tables of Options (what get_directive_defaults() returns) are never written in place through an alias '
                           '(local, self.<field>, return value, argument of a resolved call): per-file / per-compilation directives stay out of the defaults', floor)
    a = solved(ctx)
    for key, os_ in sorted(a.live.items()):
        for o in sorted(os_):
            r.inst('%s:%s' % (key, o[2:]), sample='%s holds an alias of Options.%s' % (key, o[2:]))
    for (fkey, o, obj), (rel, line, how) in sorted(a.events.items()):
        r.violate('%s:%s' % (fkey, o[2:]), rel, line,
                  '%s writes (%s) into `%s`, which on some path IS the process-wide table Options.%s, not a copy: the value written (a file header / decorator / option of '
                  'this compilation) becomes the default of every module compiled later in the same process' % (fkey, how, obj, o[2:]))
    if a.unresolved:
        r.info('table handed to calls that are not resolved (not followed): %s' % '; '.join(sorted(a.unresolved)))
    if a.imprecise:
        r.info('analysed without branch correlation (over-approximation): %s' % ', '.join(sorted(a.imprecise)))
    r.info('%d function analyses, %d functions hold an alias' % (a.analysed, len(a.live)))
    got, err = _control(ctx)
    r.positive_control(got == ['K.go', 'callee', 'leak'], 'embedded module: copy on one branch only / table passed to a mutating callee / table kept in a field and updated '
                       'in another method are reported, correlated copy, dict() copies and a field holding a copy are silent (got %r %s)' % (got, err or ''))
    return r


def rule_PRIVATE(ctx, floor=1):
    r = Rule('C41-PRIVATE', 'the module-level directive mapping of InterpretCompilerDirectives (self.directives, the mapping header comments are merged into) is a fresh '
                            'object on every path: neither a process-wide table nor the mapping handed in by the caller', floor)
    a = solved(ctx)
    ix = ctx.index
    c = ix.cls('ParseTreeTransforms', 'InterpretCompilerDirectives')
    if c is None or '__init__' not in c.methods:
        raise AnalysisError('InterpretCompilerDirectives.__init__ vanished')
    fn = c.methods['__init__']
    info = a.fns.get(id(fn))
    if info is None:
        raise AnalysisError('InterpretCompilerDirectives.__init__ is not indexed')
    params = [x.arg for x in fn.args.args[1:] + fn.args.kwonlyargs]
    stores = a.analyse(info, param_origins={p: 'P:' + p for p in params})
    n = 0
    for attr, os_, node in stores:
        if attr != 'directives':
            continue
        n += 1
        r.inst('InterpretCompilerDirectives.__init__:self.directives', sample=_u(node))
        for o in sorted(os_):
            what = ('the process-wide table Options.%s' % o[2:]) if o.startswith('T:') else ('the caller\'s mapping `%s` (shared by all sources of the compilation)' % o[2:])
            r.violate('InterpretCompilerDirectives.__init__:self.directives:%s' % o[2:], c.module.rel, node.lineno,
                      'InterpretCompilerDirectives.__init__ stores %s itself (no copy on some path) as the module-level directive mapping; visit_ModuleNode merges the '
                      '`# cython:` header into that mapping, so the header of one file leaks into the files compiled after it' % what)
    if not n:
        raise AnalysisError('InterpretCompilerDirectives.__init__ no longer stores self.directives')
    return r
